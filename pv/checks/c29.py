"""C29 — Finite-shot sampling follows the Born rule.

Deciding monitors (post-conditions on every sampled result of QNodes on default.qubit (numpy seed and jax PRNGKey paths) and default.mixed, and on
direct calls of ``sample_state`` / ``sample_probs`` / ``measure_with_samples``):

* ``born.valid``    every sample is a bitstring of the right width / an eigenvalue of the observable; result shapes follow the request;
                    counts total the shots, have only valid keys, contain every outcome iff ``all_outcomes``; shot vectors give one result per
                    copy with that copy's number of shots; an outcome of exact probability zero is never observed (deterministic refutation);
                    basis-state circuits give the exact bitstring on every shot
* ``born.gof``      the empirical distribution (aggregated over shot bins) passes the G-test / chi-square test against the exact distribution
                    from the independent state-vector reference (alpha = 1e-9, cells with expected count < 5 merged, two-stage confirmation)
* ``born.estimate`` expval / var / probs estimated from shots lie within distribution-free (Hoeffding) bounds of the exact values (two-stage)
* ``born.bins``     different shot bins are not served by identical random numbers (jax key splitting), judged only when a coincidence has
                    probability < 1e-12
"""
import math
import warnings

import numpy as np

from pv.ctx import fingerprint

META = {
    "id": "C29",
    "level": "exploration",
    "technique": "runtime post-conditions on sampled results + exact-distribution statistical oracle (G-test/chi-square at alpha=1e-9 with cell "
                 "merging and two-stage confirmation) against an independent state-vector reference",
    "level_text": "Random, sparse-support, skewed and basis-state circuits on 1-5 wires with random measurement lists (sample/counts/probs/expval/var "
                  "over wire subsets in permuted order, Pauli words, degenerate and irrational-spectrum observables, all_outcomes) under integer "
                  "shots and shot vectors on default.qubit (numpy seed, jax PRNGKey) and default.mixed, plus direct calls of the sampling kernels "
                  "(single and batched states); held on the samples observed.",
    "level_note": "Statistical verdicts have per-test alpha = 1e-9 and need two consecutive rejections (fresh derived seed, 8x shots). Joint "
                  "distributions across different measurement processes of one circuit are not part of the statement and are not tested. "
                  "Hoeffding bounds are conservative (insensitive to biases below ~6 (lambda_max − lambda_min)/sqrt(2 shots)).",
    "shards": {"quick": 3, "thorough": 16},
    "budget_s": {"quick": 110, "thorough": 300},
    "min_evals": {"quick": 300, "thorough": 3000},
    "min_nontrivial": {"quick": 30, "thorough": 300},
    "deciding": ["born.valid", "born.gof", "born.estimate"],
    "rule": "case = (device/path, circuit, measurement list, shot specification, seed); distinct = distinct structural fingerprint; non-trivial = the exact "
            "distribution of some measured quantity has >= 2 outcomes with probability > 1e-3 (something is actually random)",
    "assumptions": ["independent state-vector reference is correct", "chi-square tail approximation after merging cells with expected count < 5"],
}

PAULI = {
    "I": np.eye(2, dtype=complex),
    "X": np.array([[0, 1], [1, 0]], dtype=complex),
    "Y": np.array([[0, -1j], [1j, 0]], dtype=complex),
    "Z": np.array([[1, 0], [0, -1]], dtype=complex),
}


def spectral_groups(M, tol=1e-8):
    """Distinct eigenvalues of Hermitian M and the projector onto each eigenspace."""
    w, v = np.linalg.eigh(M)
    vals, projs = [], []
    for lam, vec in zip(w, v.T):
        for j, u in enumerate(vals):
            if abs(u - lam) < tol:
                projs[j] = projs[j] + np.outer(vec, vec.conj())
                break
        else:
            vals.append(float(lam))
            projs.append(np.outer(vec, vec.conj()))
    return vals, projs


def run(ctx):
    warnings.filterwarnings("ignore")
    import time as _time

    import jax
    import jax.numpy as jnp
    import pennylane as qp
    from pennylane.devices.qubit import sampling as S

    from pv.gen import circ, num
    from pv.ref import bridge, sv
    from pv.ref import c29_stat as st

    jax.config.update("jax_enable_x64", True)
    try:  # eager jax compiles every (op, shape) once: keep the kernels between runs (scratch, git-ignored) – only a speed-up
        import os
        cdir = os.path.join(os.path.dirname(os.path.dirname(os.path.dirname(os.path.abspath(__file__)))), "evidence", ".work", "jaxcache")
        os.makedirs(cdir, exist_ok=True)
        jax.config.update("jax_compilation_cache_dir", cdir)
        jax.config.update("jax_persistent_cache_min_compile_time_secs", 0.0)
        jax.config.update("jax_persistent_cache_min_entry_size_bytes", -1)
    except Exception:  # noqa: BLE001
        pass
    _t0 = _time.monotonic()

    def more():
        return (_time.monotonic() - _t0 < ctx.budget_s) or ctx.more()

    seen = {}

    def viol(mon, msg, case, mech, **kw):
        seen[mech] = seen.get(mech, 0) + 1
        ctx.count(f"viol/{mech}")
        if seen[mech] <= 3:
            ctx.violation(mon, msg, case=case, mech=mech, **kw)

    # ------------------------------------------------------------------ generators
    def gen_state_ops(rng, wires):
        """Operations preparing the state + class tag."""
        nw = len(wires)
        r = rng.random()
        if r < 0.15:  # basis state: every shot is determined
            bits = [int(b) for b in rng.integers(0, 2, size=nw)]
            return [qp.PauliX(w) for w, b in zip(wires, bits) if b] + ([qp.SWAP(wires=[wires[0], wires[-1]])] if nw > 1 and rng.random() < 0.5 else []), "basis"
        if r < 0.35:  # sparse support: some outcomes are impossible
            amp = np.zeros(2**nw, dtype=complex)
            k = int(rng.integers(1, max(2, 2**nw // 2) + 1))
            idx = rng.choice(2**nw, size=k, replace=False)
            amp[idx] = rng.normal(size=k) + 1j * rng.normal(size=k)
            amp = amp / np.linalg.norm(amp)
            return [qp.StatePrep(amp, wires=wires)], "sparse"
        if r < 0.5:  # skewed
            p = rng.dirichlet(np.full(2**nw, 0.25))
            amp = np.sqrt(p) * np.exp(1j * rng.uniform(0, 2 * np.pi, size=2**nw))
            return [qp.StatePrep(amp / np.linalg.norm(amp), wires=wires)], "skewed"
        if r < 0.6:
            return [qp.Hadamard(w) for w in wires], "uniform"
        return circ.random_ops(qp, rng, wires, int(rng.integers(1, 10)), patterns=0.1), "circuit"

    def gen_obs(rng, wires):
        """(observable, description, matrix on ``ow``, ow)."""
        r = rng.random()
        nw = len(wires)
        if r < 0.55:
            k = int(rng.integers(1, min(nw, 3) + 1))
            ow = [wires[int(i)] for i in rng.permutation(nw)[:k]]
            letters = ["XYZ"[int(rng.integers(3))] for _ in ow]
            fac = [{"X": qp.PauliX, "Y": qp.PauliY, "Z": qp.PauliZ}[p](w) for p, w in zip(letters, ow)]
            ob = fac[0]
            M = PAULI[letters[0]]
            for f_, p in zip(fac[1:], letters[1:]):
                ob = ob @ f_
                M = np.kron(M, PAULI[p])
            c = 1.0
            if rng.random() < 0.2:
                c = float(rng.normal())
                ob = c * ob
            return ob, {"kind": "pauli", "word": "".join(letters), "wires": ow, "coeff": c}, c * M, ow
        if r < 0.8:
            k = 1 if nw < 2 or rng.random() < 0.6 else 2
            ow = [wires[int(i)] for i in rng.permutation(nw)[:k]]
            A = rng.normal(size=(2**k, 2**k)) + 1j * rng.normal(size=(2**k, 2**k))
            H = (A + A.conj().T) / 2
            return qp.Hermitian(H, wires=ow), {"kind": "hermitian", "wires": ow}, H, ow
        k = 1 if nw < 2 or rng.random() < 0.6 else 2
        ow = [wires[int(i)] for i in rng.permutation(nw)[:k]]
        bits = [int(b) for b in rng.integers(0, 2, size=k)]
        P = np.zeros((2**k, 2**k), dtype=complex)
        j = int("".join(map(str, bits)), 2)
        P[j, j] = 1
        return qp.Projector(bits, wires=ow), {"kind": "projector", "bits": bits, "wires": ow}, P, ow

    def gen_shots(rng, scale):
        r = rng.random()
        base = int(scale * rng.uniform(0.6, 1.4))
        if r < 0.55:
            return base, [base]
        k = int(rng.integers(2, 5))
        parts = [max(1, int(base * f)) for f in rng.dirichlet(np.ones(k))]
        if rng.random() < 0.5:  # repeated entries -> (shots, copies)
            parts[1] = parts[0]
        spec, flat = [], []
        for p in parts:
            if rng.random() < 0.3:
                c = int(rng.integers(2, 4))
                spec.append((p, c))
                flat += [p] * c
            else:
                spec.append(p)
                flat.append(p)
        return spec, flat

    def subset(rng, wires, lo=1):
        k = int(rng.integers(lo, len(wires) + 1))
        return [wires[int(i)] for i in rng.permutation(len(wires))[:k]]

    # ------------------------------------------------------------------ one QNode case
    def qnode_case(rng, gi, path):
        nw = int(rng.integers(1, 5 if ctx.quick else 6))
        if path == "jax":
            nw = int(rng.integers(1, 3))  # few shapes: jax compiles per shape
        wires = num.wire_labels(rng, nw, mode=["range", "range", "str", "perm", "noncontig"][int(rng.integers(5))])
        if path == "mixed":
            wires = list(range(nw)) if rng.random() < 0.7 else wires
        ops, skind = gen_state_ops(rng, wires)
        if path == "jax" and skind in ("sparse", "skewed"):
            ops = [qp.StatePrep(jnp.asarray(ops[0].data[0]), wires=wires)]
        psi, _frac = bridge.tape_state(ops, wires)
        nm = int(rng.integers(1, 5))
        specs = []
        for _ in range(nm):
            kinds = ["sample_w", "sample_w", "sample_all", "sample_obs", "counts_w", "counts_obs", "counts_all", "probs_w", "expval", "var"]
            kd = kinds[int(rng.integers(len(kinds)))]
            if kd in ("sample_w", "counts_w", "probs_w"):
                specs.append({"k": kd, "wires": subset(rng, wires), "all": bool(rng.random() < 0.5)})
            elif kd in ("sample_all", "counts_all"):
                specs.append({"k": kd, "all": bool(rng.random() < 0.5)})
            else:
                ob, od, M, ow = gen_obs(rng, wires)
                specs.append({"k": kd, "obs": ob, "desc": od, "M": M, "ow": ow, "all": bool(rng.random() < 0.5)})
        shots_scale = 3000 if ctx.quick else 6000
        spec, flat = gen_shots(rng, shots_scale)
        if path == "jax":  # jax compiles per shape: a fixed menu of shot specifications keeps the kernel cache effective
            spec, flat = [(2000, [2000]), ([1000, 1000], [1000, 1000]), ([500, (750, 2)], [500, 750, 750])][int(rng.integers(3))]

        def build(m):
            k = m["k"]
            if k == "sample_w":
                return qp.sample(wires=m["wires"])
            if k == "sample_all":
                return qp.sample()
            if k == "sample_obs":
                return qp.sample(m["obs"])
            if k == "counts_w":
                return qp.counts(wires=m["wires"], all_outcomes=m["all"])
            if k == "counts_all":
                return qp.counts(all_outcomes=m["all"])
            if k == "counts_obs":
                return qp.counts(m["obs"], all_outcomes=m["all"])
            if k == "probs_w":
                return qp.probs(wires=m["wires"])
            if k == "expval":
                return qp.expval(m["obs"])
            return qp.var(m["obs"])

        # exact distributions
        for m in specs:
            if m["k"] in ("sample_w", "counts_w", "probs_w"):
                m["p"] = sv.probs(psi, wires, m["wires"])
                m["width"] = len(m["wires"])
            elif m["k"] in ("sample_all", "counts_all"):
                m["p"] = sv.probs(psi, wires, wires)
                m["width"] = nw
            else:
                vals, projs = spectral_groups(m["M"])
                m["vals"] = np.array(vals)
                m["p"] = np.array([max(0.0, float(np.real(sv.expval(psi, P, m["ow"], wires)))) for P in projs])
                m["mean"] = float(np.dot(m["vals"], m["p"]))
                m["var"] = float(np.dot(m["vals"] ** 2, m["p"]) - m["mean"] ** 2)
        info = {"path": path, "wires": wires, "state": skind, "ops": [circ.describe_op(o) for o in ops][:12], "shots": spec,
                "measurements": [{k: v for k, v in m.items() if k in ("k", "wires", "all", "desc")} for m in specs]}
        random_enough = any(np.sum(np.asarray(m["p"]) > 1e-3) >= 2 for m in specs)
        ctx.case(fingerprint(path, repr(info["ops"]), repr(info["measurements"]), repr(spec)), nontrivial=random_enough, cls=f"{path}/{skind}", sample=info)

        def execute(mult, seed):
            if mult == 1:
                sp, fl = spec, flat
            else:
                sp = [(s[0] * mult, s[1]) if isinstance(s, tuple) else s * mult for s in spec] if isinstance(spec, list) else spec * mult
                fl = [f * mult for f in flat]
            if path == "mixed":
                dev = qp.device("default.mixed", wires=wires, seed=seed)
            elif path == "jax":
                dev = qp.device("default.qubit", wires=wires, seed=jax.random.PRNGKey(seed % (2**31)))
            else:
                # explicit device wires: qp.sample() / qp.counts() without wires then mean "all device wires in device order"
                dev = qp.device("default.qubit", wires=wires, seed=seed)

            def f():
                for o in ops:
                    qp.apply(o)
                return tuple(build(m) for m in specs) if len(specs) > 1 else build(specs[0])

            node = qp.QNode(f, dev, interface="jax" if path == "jax" else "auto")
            return qp.set_shots(node, sp)(), fl

        seed = int(rng.integers(1, 2**31 - 2))
        try:
            res, fl = execute(1, seed)
        except Exception as e:  # noqa: BLE001
            ctx.ev("born.valid")
            viol("born.valid", f"execution raised {type(e).__name__}: {str(e)[:300]}", info, f"raises:{path}:{type(e).__name__}")
            return

        def split(res, fl):
            """-> list over bins of list over measurements; structure violations reported."""
            bins = list(res) if len(fl) > 1 else [res]
            ctx.ev("born.valid")
            if len(fl) > 1 and (not isinstance(res, tuple) or len(res) != len(fl)):
                viol("born.valid", f"shot vector with {len(fl)} copies returned {type(res).__name__} of length {len(res) if hasattr(res, '__len__') else '-'}", info, f"bins:{path}")
                return None
            out = []
            for b in bins:
                if len(specs) > 1:
                    if not isinstance(b, tuple) or len(b) != len(specs):
                        viol("born.valid", f"{len(specs)} measurements returned {type(b).__name__}", info, f"structure:{path}")
                        return None
                    out.append(list(b))
                else:
                    out.append([b])
            return out

        def judge_valid(binres, fl):
            """Deterministic post-conditions; returns aggregated counts per measurement (or None where not applicable)."""
            agg = [None] * len(specs)
            for b, n in zip(binres, fl):
                for j, (m, r) in enumerate(zip(specs, b)):
                    k = m["k"]
                    minfo = {**info, "measurement": info["measurements"][j], "bin_shots": n}
                    ctx.ev("born.valid")
                    if k in ("sample_w", "sample_all"):
                        a = np.asarray(r)
                        if a.shape != (n, m["width"]):
                            viol("born.valid", f"sample shape {a.shape} != ({n}, {m['width']})", minfo, f"sample-shape:{path}")
                            continue
                        if not np.isin(a, [0, 1]).all():
                            viol("born.valid", "sample contains values other than 0/1", minfo, f"sample-values:{path}")
                            continue
                        idx = a.astype(np.int64) @ (1 << np.arange(m["width"] - 1, -1, -1, dtype=np.int64))
                        c = np.bincount(idx, minlength=2 ** m["width"])
                    elif k == "sample_obs":
                        a = np.asarray(r, dtype=float)
                        if a.shape != (n,):
                            viol("born.valid", f"sample(obs) shape {a.shape} != ({n},)", minfo, f"sample-shape:{path}")
                            continue
                        d = np.abs(a[:, None] - m["vals"][None, :])
                        if not (d.min(axis=1) < 1e-7).all():
                            viol("born.valid", f"sample(obs) returned a value that is not an eigenvalue: {a[np.argmax(d.min(axis=1))]!r} (eigenvalues {m['vals']})", minfo,
                                 f"sample-eigenvalue:{path}:{m['desc']['kind']}")
                            continue
                        c = np.bincount(d.argmin(axis=1), minlength=len(m["vals"]))
                    elif k in ("counts_w", "counts_all"):
                        if not isinstance(r, dict):
                            viol("born.valid", f"counts returned {type(r).__name__}", minfo, f"counts-type:{path}")
                            continue
                        keys = [str(x) for x in r]
                        if any(len(x) != m["width"] or set(x) - {"0", "1"} for x in keys):
                            viol("born.valid", f"counts has invalid keys {keys[:4]}", minfo, f"counts-keys:{path}")
                            continue
                        tot = int(sum(int(v) for v in r.values()))
                        if tot != n:
                            viol("born.valid", f"counts total {tot} != shots {n}", minfo, f"counts-total:{path}")
                        if m["all"] and len(keys) != 2 ** m["width"]:
                            viol("born.valid", f"all_outcomes=True but {len(keys)} of {2 ** m['width']} keys present", minfo, f"counts-all-outcomes:{path}")
                        if not m["all"] and any(int(v) == 0 for v in r.values()):
                            viol("born.valid", "all_outcomes=False but a zero-count key is present", minfo, f"counts-zero-key:{path}")
                        c = np.zeros(2 ** m["width"], dtype=np.int64)
                        for x, v in r.items():
                            c[int(str(x), 2)] += int(v)
                    elif k == "counts_obs":
                        if not isinstance(r, dict):
                            viol("born.valid", f"counts returned {type(r).__name__}", minfo, f"counts-type:{path}")
                            continue
                        c = np.zeros(len(m["vals"]), dtype=np.int64)
                        bad = False
                        for x, v in r.items():
                            d = np.abs(m["vals"] - float(x))
                            if d.min() > 1e-7:
                                viol("born.valid", f"counts(obs) key {x!r} is not an eigenvalue {m['vals']}", minfo, f"counts-eigenvalue:{path}:{m['desc']['kind']}")
                                bad = True
                                break
                            c[int(d.argmin())] += int(v)
                        if bad:
                            continue
                        if int(c.sum()) != n:
                            viol("born.valid", f"counts total {int(c.sum())} != shots {n}", minfo, f"counts-total:{path}")
                        if m["all"] and len(r) != len(m["vals"]):
                            viol("born.valid", f"all_outcomes=True but {len(r)} of {len(m['vals'])} eigenvalues present", minfo, f"counts-all-outcomes:{path}")
                        if not m["all"] and any(int(v) == 0 for v in r.values()):
                            viol("born.valid", "all_outcomes=False but a zero-count key is present", minfo, f"counts-zero-key:{path}")
                    elif k == "probs_w":
                        a = np.asarray(r, dtype=float)
                        if a.shape != (2 ** m["width"],) or abs(a.sum() - 1) > 1e-9 or (a < -1e-12).any():
                            viol("born.valid", f"probs shape {a.shape} / sum {a.sum()!r}", minfo, f"probs-shape:{path}")
                            continue
                        cf = a * n
                        if np.abs(cf - np.round(cf)).max() > 1e-6:
                            viol("born.valid", f"finite-shot probs are not multiples of 1/shots (shots={n})", minfo, f"probs-granularity:{path}")
                            continue
                        c = np.round(cf).astype(np.int64)
                    else:  # expval / var: scalar
                        a = np.asarray(r)
                        if a.shape != ():
                            viol("born.valid", f"{k} shape {a.shape} != ()", minfo, f"scalar-shape:{path}")
                        continue
                    sup = st.support_violations(c, m["p"])
                    if sup:
                        viol("born.valid", f"{k}: outcome index {sup[0]} was observed {int(c[sup[0]])} times although its exact probability is {m['p'][sup[0]]:.2e}", minfo,
                             f"support:{path}:{k.split('_')[0]}", observed=c, expected=m["p"])
                    agg[j] = c if agg[j] is None else agg[j] + c
            return agg

        binres = split(res, fl)
        if binres is None:
            return
        agg = judge_valid(binres, fl)
        # ---- shot bins must not be served by identical randomness
        if len(fl) > 1:
            for j, m in enumerate(specs):
                if m["k"] in ("sample_w", "sample_all") and len(set(fl)) < len(fl):
                    pmax = float(np.max(m["p"]))
                    for a in range(len(fl)):
                        for b in range(a + 1, len(fl)):
                            if fl[a] == fl[b] and pmax ** fl[a] < 1e-12:
                                ctx.ev("born.bins")
                                if np.array_equal(np.asarray(binres[a][j]), np.asarray(binres[b][j])):
                                    viol("born.bins", f"shot bins {a} and {b} ({fl[a]} shots each) returned identical sample arrays", info, f"bins-identical:{path}")
        # ---- statistics (two-stage)
        for j, m in enumerate(specs):
            if m["k"] in ("expval", "var"):
                lo, hi = float(m["vals"].min()), float(m["vals"].max())
                want = m["mean"] if m["k"] == "expval" else m["var"]

                def est_run(mult, sd, j=j, m=m, lo=lo, hi=hi, want=want):
                    r_, fl_ = (res, fl) if mult == 1 and sd == seed else execute(mult, sd)
                    br = split(r_, fl_)
                    rej, det = False, []
                    for b, n in zip(br, fl_):
                        got = float(np.real(np.asarray(b[j])))
                        if m["k"] == "expval":
                            t = st.hoeffding_halfwidth(n, lo, hi)
                        else:
                            A = max(abs(lo), abs(hi))
                            t1 = st.hoeffding_halfwidth(n, lo, hi, alpha=st.ALPHA / 2)
                            t2 = st.hoeffding_halfwidth(n, 0.0, A * A, alpha=st.ALPHA / 2)
                            t = t2 + 2 * A * t1 + t1 * t1 + (hi - lo) ** 2 / max(n, 1)  # + bias of a 1/(n-1) vs 1/n estimator
                        det.append({"got": got, "want": want, "bound": t, "shots": n})
                        if not abs(got - want) <= t + 1e-9:
                            rej = True
                    return rej, det

                ctx.ev("born.estimate")
                bad, det = st.two_stage(lambda n_, s_: est_run(n_, s_), 1, seed)
                if bad:
                    viol("born.estimate", f"{m['k']} estimated from shots is outside its distribution-free bound in two consecutive runs: {det}",
                         {**info, "measurement": info["measurements"][j]}, f"estimate:{path}:{m['k']}:{m['desc']['kind']}", observed=det)
                continue
            if agg[j] is None:
                continue

            def gof_run(mult, sd, j=j, m=m):
                if mult == 1 and sd == seed:
                    c = agg[j]
                else:
                    r_, fl_ = execute(mult, sd)
                    br = split(r_, fl_)
                    c = judge_valid(br, fl_)[j]
                    if c is None:
                        return True, {"error": "invalid result in confirmation run"}
                g = st.gof(c, m["p"])
                return g["reject"], {k_: g[k_] for k_ in ("p_g", "p_x2", "df", "n")}

            ctx.ev("born.gof")
            bad, det = st.two_stage(lambda n_, s_: gof_run(n_, s_), 1, seed)
            if bad:
                viol("born.gof", f"{m['k']}: empirical distribution rejected twice at alpha=1e-9 against the exact distribution: {det}",
                     {**info, "measurement": info["measurements"][j]}, f"gof:{path}:{m['k'].split('_')[0]}", observed=agg[j], expected=m["p"])

    # ------------------------------------------------------------------ direct calls of the kernels
    def direct_case(rng, gi):
        backend = ["numpy", "jax-key", "jax-state"][int(rng.choice(3, p=[0.8, 0.1, 0.1]))]
        nw = int(rng.integers(1, 5))
        B = None if rng.random() < 0.6 else int(rng.integers(1, 4))
        if backend != "numpy":  # few shapes: jax compiles per shape
            nw, B = min(nw, 2), (None if B is None else 2)
        states = []
        for _ in range(B or 1):
            if rng.random() < 0.3:
                amp = np.zeros(2**nw, dtype=complex)
                k = int(rng.integers(1, 2**nw // 2 + 2))
                idx = rng.choice(2**nw, size=min(k, 2**nw), replace=False)
                amp[idx] = rng.normal(size=len(idx)) + 1j * rng.normal(size=len(idx))
            else:
                amp = rng.normal(size=2**nw) + 1j * rng.normal(size=2**nw)
            states.append(amp / np.linalg.norm(amp))
        ws = subset(rng, list(range(nw))) if rng.random() < 0.6 else None
        n = int(rng.integers(500, 4000))
        if backend != "numpy":
            n = [1000, 2000][int(rng.integers(2))]
        fn = ["sample_state", "sample_probs", "measure_with_samples"][int(rng.integers(3))]
        info = {"path": f"direct/{fn}/{backend}", "n_wires": nw, "batch": B, "wires": ws, "shots": n}
        ctx.case(fingerprint("direct", fn, backend, np.stack(states), ws, n), nontrivial=True, cls=info["path"], sample=info)
        arr = np.stack(states).reshape([B or 1] + [2] * nw)
        arr = arr if B else arr[0]
        exact = [sv.probs(s, list(range(nw)), ws if ws is not None else list(range(nw))) for s in states]
        width = len(ws) if ws is not None else nw

        def call(shots, seed):
            key = jax.random.PRNGKey(seed % (2**31)) if backend == "jax-key" else None
            x = jnp.asarray(arr) if backend == "jax-state" else arr
            if fn == "sample_state":
                return S.sample_state(x, shots, is_state_batched=B is not None, wires=qp.wires.Wires(ws) if ws is not None else None, rng=seed, prng_key=key)
            if fn == "sample_probs":
                P = np.stack(exact) if B else exact[0]
                P = jnp.asarray(P) if backend == "jax-state" else P
                return S.sample_probs(P, shots, width, B is not None, seed, prng_key=key)
            mp = qp.sample(wires=ws if ws is not None else list(range(nw)))
            shv = qp.measurements.Shots([shots // 2, shots - shots // 2]) if shots >= 2 else qp.measurements.Shots(shots)
            out = S.measure_with_samples([mp], x, shv, is_state_batched=B is not None, rng=seed, prng_key=key)
            # out: tuple over bins of tuple over measurements
            parts = [np.asarray(b[0]) for b in out]
            return np.concatenate(parts, axis=-2)

        def run_(mult, sd):
            shots = n * mult
            smp = np.asarray(call(shots, sd))
            want_shape = ((B,) if B else ()) + (shots, width)
            ctx.ev("born.valid")
            if smp.shape != want_shape or not np.isin(smp, [0, 1]).all():
                viol("born.valid", f"{fn}: samples shape {smp.shape} (expected {want_shape}) or non-bit values", info, f"direct-shape:{fn}:{backend}")
                return True, {"shape": list(smp.shape)}
            rej, det = False, []
            for b in range(B or 1):
                a = smp[b] if B else smp
                idx = a.astype(np.int64) @ (1 << np.arange(width - 1, -1, -1, dtype=np.int64))
                c = np.bincount(idx, minlength=2**width)
                sup = st.support_violations(c, exact[b])
                if sup:
                    viol("born.valid", f"{fn}: outcome index {sup[0]} observed {int(c[sup[0]])} times with exact probability {exact[b][sup[0]]:.1e} (batch element {b})", info,
                         f"support:direct:{fn}:{backend}", observed=c, expected=exact[b])
                g = st.gof(c, exact[b])
                det.append({k_: g[k_] for k_ in ("p_g", "p_x2", "df", "n")})
                rej = rej or g["reject"]
            return rej, det

        seed = int(rng.integers(1, 2**31 - 2))
        ctx.ev("born.gof")
        try:
            bad, det = st.two_stage(run_, 1, seed)
        except Exception as e:  # noqa: BLE001
            viol("born.valid", f"{fn} raised {type(e).__name__}: {str(e)[:300]}", info, f"raises:direct:{fn}:{backend}:{type(e).__name__}")
            return
        if bad:
            viol("born.gof", f"{fn}[{backend}]: empirical distribution rejected twice at alpha=1e-9: {det}", info, f"gof:direct:{fn}:{backend}")
        # batched jax states must not reuse one key for every batch element / seeds must matter
        if B and B > 1 and np.allclose(states[0], states[1]) is False:
            pass

    # ------------------------------------------------------------------ drive
    N = ctx.n(210, 9000)
    for j in range(N):
        if not more():
            break
        gi = ctx.shard + j * ctx.nshards
        ctx.case_index = gi
        rng = ctx.case_rng(gi)
        r = rng.random()
        if r < 0.22:
            direct_case(rng, gi)
        elif r < 0.62:
            qnode_case(rng, gi, "numpy")
        elif r < 0.93:
            qnode_case(rng, gi, "mixed")
        else:
            qnode_case(rng, gi, "jax")
