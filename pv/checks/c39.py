"""C39 — Jacobian-product utilities contract Jacobians correctly.

Deciding monitors (post-conditions, reference = explicit numpy contraction of the explicit Jacobian):

* ``jp.compute_vjp`` / ``jp.compute_jvp``  direct calls of compute_vjp_single/multi and compute_jvp_single/multi on random
  Jacobians in the documented layout (measurement shapes () and (k,), 1–4 parameters, tensor-shaped parameters for the JVP,
  zero / partially zero (co)tangents, dtype and container mixes, autograd/jax/torch tensors);
* ``jp.vjp_tape`` / ``jp.jvp_tape``        vjp / jvp / batch_vjp / batch_jvp on real tapes (expval/var/probs measurement lists,
  shots None / int / shot vectors, tapes without trainable parameters, both reductions) with a gradient transform that
  returns a KNOWN explicit Jacobian, so that the whole plumbing (zero shortcuts, shot-vector loops, result slicing) is
  compared with ``numpy.tensordot`` of that Jacobian;
* ``jp.classical_jacobian``                 QNodes whose gate arguments are generated expressions of the QNode arguments; the
  reference differentiates the expression tree analytically (own evaluator).
"""
from pv.ctx import fingerprint

META = {
    "id": "C39",
    "level": "exploration",
    "technique": "post-conditions on compute_vjp/jvp_single/multi, vjp/jvp/batch_vjp/batch_jvp (with a gradient transform returning a "
                 "known explicit Jacobian) and classical_jacobian vs. explicit numpy contraction / analytic expression derivatives",
    "level_text": "Random explicit Jacobians in the documented nested layout are contracted by the real utilities and by numpy; the tape "
                  "level entry points are driven with a gradient transform that hands back the known Jacobian, covering shot vectors, "
                  "all-zero and partially zero (co)tangents (shortcut paths), tapes without trainable parameters and both reductions; "
                  "classical_jacobian is compared with analytic derivatives of generated pre-processing expressions under autograd, "
                  "jax and torch.",
    "level_note": "The explicit Jacobian is supplied by the harness (any callable is admitted as gradient_fn), so no device execution is "
                  "involved; gradient transforms themselves belong to C34/C37. Cotangents follow the workflow layout (tuple per "
                  "measurement, tuple per shot copy). float32 inputs are compared at 1e-5, everything else at 1e-9·max(1,‖ref‖). "
                  "TensorFlow is not installed.",
    "design_ref": "7/C39",
    "shards": {"quick": 2, "thorough": 16},
    "budget_s": {"quick": 70, "thorough": 330},
    "min_evals": {"quick": 1000, "thorough": 40000},
    "min_nontrivial": 200,
    "deciding": ["jp.compute_vjp", "jp.compute_jvp", "jp.vjp_tape", "jp.jvp_tape", "jp.classical_jacobian"],
    "rule": "random (measurement shapes, #parameters, shots, zero pattern, dtype/container/interface) → explicit Jacobian + (co)tangent; "
            "distinct = distinct content; non-trivial = at least two parameters or a measurement with shape, and a non-zero (co)tangent",
    "assumptions": ["numpy tensordot/einsum is correct", "the documented nested layout of Jacobians (measurements → parameters, shot "
                    "copies outermost) is the interface contract"],
}


def to_np(x):
    """nested tuples/lists of tensors -> same nesting of numpy arrays"""
    import numpy as np
    if isinstance(x, (tuple, list)):
        return tuple(to_np(v) for v in x)
    if hasattr(x, "detach"):
        x = x.detach().cpu().numpy()
    return np.asarray(x)


def same(np, got, ref, tol):
    """structural + numerical comparison; returns None or a description of the first difference"""
    if isinstance(ref, tuple):
        if not isinstance(got, tuple) or len(got) != len(ref):
            return f"structure: expected a tuple of {len(ref)}, got {type(got).__name__}" + (f" of {len(got)}" if isinstance(got, tuple) else f" shape {getattr(got, 'shape', None)}")
        for i, (g, r) in enumerate(zip(got, ref)):
            d = same(np, g, r, tol)
            if d:
                return f"[{i}] {d}"
        return None
    if isinstance(got, tuple):
        return f"structure: expected an array of shape {ref.shape}, got a tuple of {len(got)}"
    if tuple(got.shape) != tuple(ref.shape):
        return f"shape {tuple(got.shape)} != {tuple(ref.shape)}"
    if not np.allclose(got, ref, rtol=0, atol=tol * max(1.0, float(np.max(np.abs(ref))) if ref.size else 1.0)):
        return f"values {np.asarray(got).tolist()} != {ref.tolist()}"
    return None



def _cap_per_mechanism(ctx, cap=3):
    """Keep at most `cap` witnesses per (monitor, mechanism) so that a frequent finding cannot crowd out other mechanisms
    (the bus keeps 40 witnesses per shard); totals stay available as counters."""
    orig, seen = ctx.violation, {}

    def violation(monitor, message, case=None, mech=None, observed=None, expected=None):
        k = (monitor, mech)
        seen[k] = seen.get(k, 0) + 1
        ctx.count(f"violations:{mech}")
        if seen[k] <= cap:
            orig(monitor, message, case=case, mech=mech, observed=observed, expected=expected)
    ctx.violation = violation


def run(ctx):
    _cap_per_mechanism(ctx)
    import warnings

    import numpy as np
    import pennylane as qp
    from pennylane.gradients import (batch_jvp, batch_vjp, classical_jacobian, compute_jvp_multi, compute_jvp_single, compute_vjp_multi,
                                     compute_vjp_single, jvp, vjp)

    warnings.simplefilter("ignore")
    try:
        import jax
        import jax.numpy as jnp
        jax.config.update("jax_enable_x64", True)
    except Exception:  # noqa: BLE001
        jax = jnp = None
        ctx.uncovered("interface:jax", "jax not importable")
    torch = None
    if ctx.shard % 4 == 0:            # importing torch costs several seconds: only every fourth shard drives torch tensors
        try:
            import torch
        except Exception:  # noqa: BLE001
            ctx.uncovered("interface:torch", "torch not importable")

    def wrap(x, iface, dtype=None):
        a = np.asarray(x, dtype=dtype) if dtype is not None else np.asarray(x)
        if iface == "numpy":
            return a
        if iface == "autograd":
            return qp.numpy.array(a, requires_grad=False)
        if iface == "jax":
            return jnp.asarray(a)
        return torch.tensor(a)

    def rand_vals(rng, shape, zero=None):
        """values with hostile entries; zero in {'all', 'partial', None}"""
        v = rng.normal(size=shape) * [1.0, 1.0, 10.0, 1e-3][int(rng.integers(4))]
        if rng.random() < 0.3:
            v = np.round(v, 1)
        if zero == "all":
            v = np.zeros(shape)
        elif zero == "partial" and v.size:
            mask = rng.random(size=shape) < 0.5
            v = np.where(mask, 0.0, v)
        return v

    def pick_iface(rng):
        r = rng.random()
        if r < 0.7:
            return "numpy"
        if r < 0.8:
            return "autograd"
        if r < 0.9 and jnp is not None:
            return "jax"
        if torch is not None:
            return "torch"
        return "numpy"

    def zero_mode(rng):
        r = rng.random()
        return "all" if r < 0.12 else ("partial" if r < 0.4 else None)

    # ====================================================================================== A. compute_* directly
    def direct_case(i, rng):
        P = int(rng.integers(1, 5))
        M = int(rng.integers(1, 4))
        shapes = [() if rng.random() < 0.5 else (int(rng.integers(1, 6)),) for _ in range(M)]
        if rng.random() < 0.25:
            shapes = [shapes[0]] * M                         # uniform shapes: einsum fast path of compute_vjp_multi
        iface = pick_iface(rng)
        f32 = rng.random() < 0.1
        tol = 1e-5 if f32 else 1e-9
        J = [[rand_vals(rng, s) for _ in range(P)] for s in shapes]           # J[m][p] has the measurement's shape
        zm = zero_mode(rng)
        dy = [rand_vals(rng, s, zm) for s in shapes]
        tg = rand_vals(rng, (P,), zero_mode(rng))
        dt = np.float32 if f32 else None
        case = {"P": P, "shapes": shapes, "iface": iface, "float32": f32, "J": J, "dy": dy, "tangent": tg}
        nontriv = (P >= 2 or any(s for s in shapes))

        def jac_single(m):
            if P == 1 and rng.random() < 0.8:
                return wrap(J[m][0], iface)
            return tuple(wrap(J[m][p], iface) for p in range(P))

        # ---- vjp single (every measurement separately)
        for m in range(M):
            ref = np.array([float(np.sum(dy[m] * J[m][p])) for p in range(P)])
            jac = jac_single(m)
            d = wrap(dy[m], iface, dt)
            if dy[m].shape == () and rng.random() < 0.3:
                d = wrap(dy[m].reshape(1), iface, dt)                 # a (1,) cotangent for a scalar measurement is documented too
            num = int(np.size(dy[m])) if rng.random() < 0.3 else None
            ctx.case(fingerprint("vs", P, shapes[m], dy[m], np.array(J[m])), nontrivial=nontriv and bool(np.any(dy[m])), cls=f"vjp_single:P{min(P, 2)}:{'shape' if shapes[m] else 'scalar'}:{iface}")
            ctx.ev("jp.compute_vjp")
            try:
                got = to_np(compute_vjp_single(d, jac, num=num))
                diff = same(np, got.reshape(-1) if not isinstance(got, tuple) else got, ref, tol)
                if diff is None and tuple(got.shape) not in ((P,), (1, P)):
                    diff = f"shape {tuple(got.shape)}, expected ({P},)"
            except Exception as e:  # noqa: BLE001
                diff = f"raised {type(e).__name__}: {e}"
            if diff:
                ctx.violation("jp.compute_vjp", f"compute_vjp_single(dy shape {np.shape(d)}, jac for P={P}, measurement shape {shapes[m]}, {iface}): {diff}",
                              case=case, mech=f"compute_vjp_single:{'single' if P == 1 else 'multi'}-param:{'shape' if shapes[m] else 'scalar'}",
                              expected=ref)
        # ---- vjp multi
        if M >= 2:
            ref = np.array([float(sum(np.sum(dy[m] * J[m][p]) for m in range(M))) for p in range(P)])
            if P == 1:
                jac = tuple(wrap(J[m][0], iface) for m in range(M))
            else:
                jac = tuple(tuple(wrap(J[m][p], iface) for p in range(P)) for m in range(M))
            d = tuple(wrap(dy[m], iface, dt) for m in range(M))
            allz = not any(np.any(v) for v in dy)
            ctx.case(fingerprint("vm", P, shapes, np.concatenate([v.ravel() for v in dy])), nontrivial=not allz, cls=f"vjp_multi:P{min(P, 2)}:{iface}")
            ctx.ev("jp.compute_vjp")
            try:
                got = to_np(compute_vjp_multi(d, jac))
                diff = same(np, got.reshape(-1), ref, tol)
                if diff is None and tuple(got.shape) not in ((P,), (1, P)):
                    diff = f"shape {tuple(got.shape)}, expected ({P},)"
            except Exception as e:  # noqa: BLE001
                diff = f"raised {type(e).__name__}: {e}"
            if diff:
                ctx.violation("jp.compute_vjp", f"compute_vjp_multi(P={P}, measurement shapes {shapes}, {iface}): {diff}", case=case,
                              mech=f"compute_vjp_multi:{'single' if P == 1 else 'multi'}-param:{'uniform' if len(set(shapes)) == 1 else 'ragged'}", expected=ref)
        # ---- jvp single / multi
        tcont = int(rng.integers(3))
        t_in = wrap(tg, iface, dt) if tcont == 0 else ([wrap(tg[p], iface, dt) for p in range(P)] if tcont == 1 else tuple(wrap(tg[p], iface, dt) for p in range(P)))
        refs = [sum(tg[p] * J[m][p] for p in range(P)) for m in range(M)]
        ctx.case(fingerprint("jv", P, shapes, tg), nontrivial=nontriv and bool(np.any(tg)), cls=f"jvp:P{min(P, 2)}:{iface}")
        for m in range(M):
            ctx.ev("jp.compute_jvp")
            try:
                got = to_np(compute_jvp_single(t_in, jac_single(m)))
                diff = same(np, got, np.asarray(refs[m]), tol)
            except Exception as e:  # noqa: BLE001
                diff = f"raised {type(e).__name__}: {e}"
            if diff:
                ctx.violation("jp.compute_jvp", f"compute_jvp_single(tangent container {tcont}, P={P}, measurement shape {shapes[m]}, {iface}): {diff}",
                              case=case, mech=f"compute_jvp_single:{'single' if P == 1 else 'multi'}-param:{'shape' if shapes[m] else 'scalar'}",
                              expected=np.asarray(refs[m]))
        if M >= 2:
            ctx.ev("jp.compute_jvp")
            jac = tuple(jac_single(m) for m in range(M))
            try:
                got = to_np(compute_jvp_multi(t_in, jac))
                diff = same(np, got, tuple(np.asarray(r) for r in refs), tol)
            except Exception as e:  # noqa: BLE001
                diff = f"raised {type(e).__name__}: {e}"
            if diff:
                ctx.violation("jp.compute_jvp", f"compute_jvp_multi(P={P}, measurement shapes {shapes}, {iface}): {diff}", case=case,
                              mech="compute_jvp_multi", expected=[np.asarray(r) for r in refs])
        # ---- jvp with tensor-shaped parameters (documented in the technical description of compute_jvp_single)
        if i % 3 == 0:
            Pt = int(rng.integers(1, 4))
            lshapes = [tuple(int(v) for v in rng.integers(1, 4, size=int(rng.integers(0, 3)))) for _ in range(Pt)]
            if Pt > 1 and all(ls == () for ls in lshapes):
                lshapes[0] = (2,)
            s = shapes[0]
            Jt = [rand_vals(rng, s + ls) for ls in lshapes]
            tt = [rand_vals(rng, ls, zero_mode(rng)) for ls in lshapes]
            ref = sum(np.tensordot(Jt[p], tt[p], axes=len(lshapes[p])) for p in range(Pt))
            ctx.ev("jp.compute_jvp")
            try:
                if Pt == 1:
                    got = to_np(compute_jvp_single([wrap(tt[0], iface)], wrap(Jt[0], iface)))
                else:
                    got = to_np(compute_jvp_single([wrap(t, iface) for t in tt], tuple(wrap(j, iface) for j in Jt)))
                diff = same(np, got, np.asarray(ref), 1e-9)
            except Exception as e:  # noqa: BLE001
                diff = f"raised {type(e).__name__}: {e}"
            if diff:
                ctx.violation("jp.compute_jvp", f"compute_jvp_single with tensor parameters of shapes {lshapes}, return shape {s}, {iface}: {diff}",
                              case={"lshapes": lshapes, "s": s, "J": Jt, "t": tt}, mech="compute_jvp_single:tensor-parameters", expected=np.asarray(ref))

    # ====================================================================================== B. tape level with a known Jacobian
    def make_tape(rng, P, shots):
        nw = 3
        ops = [[qp.RX, qp.RY, qp.RZ][int(rng.integers(3))](float(rng.normal()), wires=int(rng.integers(nw))) for _ in range(P)]
        if rng.random() < 0.5:
            ops.insert(int(rng.integers(len(ops) + 1)), qp.CNOT([0, 1]))
        if P == 0 and not ops:
            ops = [qp.Hadamard(0)]
        M = int(rng.integers(1, 4))
        meas, shapes = [], []
        for _ in range(M):
            r = rng.random()
            if r < 0.4:
                meas.append(qp.expval([qp.Z, qp.X, qp.Y][int(rng.integers(3))](int(rng.integers(nw)))))
                shapes.append(())
            elif r < 0.55:
                meas.append(qp.var(qp.Z(int(rng.integers(nw)))))
                shapes.append(())
            elif r < 0.9:
                k = int(rng.integers(1, nw + 1))
                w = [int(v) for v in rng.permutation(nw)[:k]]
                meas.append(qp.probs(wires=w))
                shapes.append((2 ** k,))
            else:
                meas.append(qp.probs(op=qp.Z(0) @ qp.Z(1)))
                shapes.append((4,))
        tape = qp.tape.QuantumScript(ops, meas, shots=shots)
        tape.trainable_params = list(range(P))
        return tape, shapes

    def known_jacobian(rng, P, shapes, ncopies):
        """explicit Jacobian J[c][m][p] + its documented nested layout"""
        J = [[[rand_vals(rng, s) for _ in range(P)] for s in shapes] for _ in range(max(1, ncopies))]

        def lay_m(Jm):
            return Jm[0] if P == 1 else tuple(Jm)

        def lay_c(Jc):
            return lay_m(Jc[0]) if len(shapes) == 1 else tuple(lay_m(Jm) for Jm in Jc)
        layout = lay_c(J[0]) if ncopies == 0 else tuple(lay_c(Jc) for Jc in J)
        return J, layout

    SHOTS = [None, None, 100, (10, 10), (5, 10, 10), (7, 3)]

    def tape_case(i, rng):
        nt = int(rng.integers(1, 4))
        tapes, dys, tgs, grads, refs_v, refs_j, descr = [], [], [], {}, [], [], []
        for t in range(nt):
            P = int(rng.integers(0, 5)) if rng.random() < 0.85 else 0
            shots = SHOTS[int(rng.integers(len(SHOTS)))]
            tape, shapes = make_tape(rng, P, shots)
            nc = len(shots) if isinstance(shots, tuple) else 0
            J, layout = known_jacobian(rng, P, shapes, nc)
            grads[id(tape)] = layout
            zm_v, zm_j = zero_mode(rng), zero_mode(rng)
            dyc = [[rand_vals(rng, s, zm_v) for s in shapes] for _ in range(max(1, nc))]

            def lay_dy(dc):
                return dc[0] if len(shapes) == 1 else tuple(dc)
            dy = lay_dy(dyc[0]) if nc == 0 else tuple(lay_dy(dc) for dc in dyc)
            tg = rand_vals(rng, (P,), zm_j)
            tapes.append(tape)
            dys.append(dy)
            tgs.append(tg if rng.random() < 0.5 else [np.asarray(v) for v in tg])
            # references
            if P == 0:
                refs_v.append(None)
                zero = [tuple(np.zeros(s) for s in shapes) if len(shapes) > 1 else np.zeros(shapes[0]) for _ in range(max(1, nc))]
                refs_j.append(zero[0] if nc == 0 else tuple(zero))
            else:
                refs_v.append(np.array([float(sum(np.sum(dyc[c][m] * J[c][m][p]) for c in range(max(1, nc)) for m in range(len(shapes)))) for p in range(P)]))
                per = []
                for c in range(max(1, nc)):
                    rm = [np.asarray(sum(tg[p] * J[c][m][p] for p in range(P))) for m in range(len(shapes))]
                    per.append(rm[0] if len(shapes) == 1 else tuple(rm))
                refs_j.append(per[0] if nc == 0 else tuple(per))
            descr.append({"P": P, "shots": shots, "measurement_shapes": shapes, "measurements": [repr(m) for m in tape.measurements],
                          "zero_dy": zm_v, "zero_tangent": zm_j, "dy": dyc, "tangent": tg, "J": J})

        # The gradient transform hands back dummy gradient tapes (distinct objects carrying tokens) and a processing function
        # that insists on receiving exactly ITS tokens, in order: this monitors the result slicing of batch_vjp / batch_jvp.
        token_of, n_dummy, misrouted = {}, {}, []

        def gradient_fn(tape, **kwargs):
            n = n_dummy.setdefault(id(tape), int(rng.integers(0, 4)))
            dummies = [tape.copy() for _ in range(n)]
            mine = []
            for j, dtape in enumerate(dummies):
                token_of[id(dtape)] = ("token", "tape%d" % [id(t) for t in tapes].index(id(tape)), j, len(token_of))
                mine.append(token_of[id(dtape)])
            keep.extend(dummies)

            def post(results):
                if list(results) != mine:
                    misrouted.append((mine, list(results)))
                return grads[id(tape)]
            return dummies, post

        keep = []

        def run_fn(g_tapes, fn, **kw):
            """'execute' the gradient tapes: every tape is answered with its token"""
            return fn([token_of[id(tp)] for tp in g_tapes], **kw)

        case = {"tapes": descr}
        cls_parts = sorted({("shotvec" if isinstance(d["shots"], tuple) else "noshotvec") + ":" + ("P0" if d["P"] == 0 else "P+") for d in descr})
        ctx.case(fingerprint("tp", repr([(d["P"], d["shots"], d["measurement_shapes"]) for d in descr]), np.concatenate([np.ravel(d["tangent"]) for d in descr] + [np.zeros(1)])),
                 nontrivial=any(d["P"] >= 1 and (np.any(d["tangent"]) or d["zero_dy"] != "all") for d in descr), cls="tape:" + "+".join(cls_parts),
                 sample={"tapes": [{k: d[k] for k in ("P", "shots", "measurement_shapes", "zero_dy", "zero_tangent")} for d in descr]})

        def classify(d, kind, diff):
            allzero = (not any(np.any(v) for dc in d["dy"] for v in dc)) if kind == "vjp" else (not np.any(d["tangent"]))
            z = "all" if allzero else "some"
            sv = isinstance(d["shots"], tuple)
            if d["P"] == 0:
                return f"{kind}:no-trainable-params"
            if z == "all" and kind == "jvp" and sv and "structure" in diff:
                return "jvp:zero-tangent-shortcut:shot-vector-structure"
            if z == "all":
                return f"{kind}:zero-shortcut" + (":shot-vector" if sv else "")
            return f"{kind}:contraction" + (":shot-vector" if sv else "") + (":multi-measurement" if len(d["measurement_shapes"]) > 1 else "")

        # ---- single-tape entry points
        for t in range(nt):
            d = descr[t]
            ctx.ev("jp.vjp_tape")
            try:
                g_tapes, fn = vjp(tapes[t], dys[t], gradient_fn)
                got = run_fn(g_tapes, fn)
                if refs_v[t] is None:
                    diff = None if got is None else f"expected None for a tape without trainable parameters, got {got!r}"
                else:
                    got = to_np(got)
                    diff = same(np, got.reshape(-1), refs_v[t], 1e-9)
                    if diff is None and tuple(got.shape) not in ((d["P"],), (1, d["P"])):
                        diff = f"shape {tuple(got.shape)}, expected ({d['P']},)"
            except Exception as e:  # noqa: BLE001
                diff = f"raised {type(e).__name__}: {e}"
            if diff:
                ctx.violation("jp.vjp_tape", f"vjp(tape P={d['P']}, shots={d['shots']}, measurements {d['measurements']}, zero-pattern {d['zero_dy']}): {diff}",
                              case={"tape": d}, mech=classify(d, "vjp", diff), expected=refs_v[t])
            ctx.ev("jp.jvp_tape")
            try:
                g_tapes, fn = jvp(tapes[t], tgs[t], gradient_fn)
                got = to_np(run_fn(g_tapes, fn))
                diff = same(np, got, refs_j[t], 1e-9)
            except Exception as e:  # noqa: BLE001
                diff = f"raised {type(e).__name__}: {e}"
            if diff:
                ctx.violation("jp.jvp_tape", f"jvp(tape P={d['P']}, shots={d['shots']}, measurements {d['measurements']}, zero-pattern {d['zero_tangent']}): {diff}",
                              case={"tape": d}, mech=classify(d, "jvp", diff), expected=refs_j[t])
        # ---- batch entry points (results must be routed to the right tape, None/zeros for P = 0, both reductions)
        red = "append" if rng.random() < 0.6 else "extend"
        ctx.ev("jp.vjp_tape")
        try:
            g_tapes, fn = batch_vjp(tapes, dys, gradient_fn, reduction=red)
            got = run_fn(g_tapes, fn)
            if red == "append":
                exp = refs_v
                diff = None
                if len(got) != nt:
                    diff = f"{len(got)} results for {nt} tapes"
                else:
                    for t in range(nt):
                        if exp[t] is None:
                            if got[t] is not None:
                                diff = f"[{t}] expected None"
                        else:
                            dd = same(np, to_np(got[t]).reshape(-1), exp[t], 1e-9) if got[t] is not None else "None for a tape with parameters"
                            if dd:
                                diff = f"[{t}] {dd}"
            else:
                flat = np.concatenate([r for r in refs_v if r is not None] + [np.zeros(0)])
                g = np.concatenate([np.reshape(to_np(v), -1) for v in got] + [np.zeros(0)])
                diff = same(np, g, flat, 1e-9)
        except Exception as e:  # noqa: BLE001
            diff = f"raised {type(e).__name__}: {e}"
        if diff:
            ctx.violation("jp.vjp_tape", f"batch_vjp({nt} tapes, reduction={red}): {diff}", case=case,
                          mech="batch_vjp:" + ("|".join(sorted({classify(d, 'vjp', diff) for d in descr}))), expected=refs_v)
        ctx.ev("jp.jvp_tape")
        try:
            g_tapes, fn = batch_jvp(tapes, tgs, gradient_fn, reduction="append")
            got = to_np(run_fn(g_tapes, fn))
            diff = same(np, got, tuple(refs_j), 1e-9)
        except Exception as e:  # noqa: BLE001
            diff = f"raised {type(e).__name__}: {e}"
        if diff:
            # attribute to the tape the difference points at
            try:
                bad = descr[int(diff.split("]")[0].lstrip("["))]
            except Exception:  # noqa: BLE001
                bad = descr[0]
            ctx.violation("jp.jvp_tape", f"batch_jvp({nt} tapes): {diff}", case=case, mech=classify(bad, "jvp", diff), expected=list(refs_j))
        ctx.ev("jp.vjp_tape")
        if misrouted:
            ctx.violation("jp.vjp_tape", f"a processing function received results that are not the results of its own gradient tapes: expected tokens "
                          f"{misrouted[0][0]}, received {misrouted[0][1]} ({nt} tapes)", case=case, mech="batch:result-slicing")

    # ---- targeted: probs() without wires and the zero-tangent shortcut
    def probs_all_wires_case(rng):
        for shots, tz in ((None, True), (None, False), ((10, 10), True), ((10, 10), False)):
            ops = [qp.RX(0.3, 0), qp.RY(0.2, 1)]
            tape = qp.tape.QuantumScript(ops, [qp.probs()], shots=shots)
            tape.trainable_params = [0, 1]
            nc = len(shots) if shots else 0
            J = [[rand_vals(rng, (4,)) for _ in range(2)] for _ in range(max(1, nc))]
            layout = tuple(J[0]) if nc == 0 else tuple(tuple(Jc) for Jc in J)
            tg = np.zeros(2) if tz else rand_vals(rng, (2,)) + np.array([1.0, -2.0])
            per = [np.asarray(sum(tg[p] * J[c][p] for p in range(2))) for c in range(max(1, nc))]
            ref = per[0] if nc == 0 else tuple(per)
            ctx.ev("jp.jvp_tape")
            try:
                _, fn = jvp(tape, tg, lambda t, **kw: ([], lambda r: layout))
                diff = same(np, to_np(fn([])), ref, 1e-9)
            except Exception as e:  # noqa: BLE001
                diff = f"raised {type(e).__name__}: {e}"
            if diff:
                mech = ("jvp:zero-tangent-shortcut:shot-vector-structure" if (tz and shots and "structure" in diff) else
                        "jvp:zero-tangent-shortcut:probs-shape" if tz else "jvp:contraction:probs-all-wires")
                ctx.violation("jp.jvp_tape", f"jvp(tape with qp.probs() on 2 wires, shots={shots}, tangent {'zero' if tz else 'non-zero'}): {diff}",
                              case={"shots": shots, "zero_tangent": tz}, mech=mech, expected=ref)

    # ====================================================================================== C. classical_jacobian
    def gen_expr(rng, sizes, depth=0):
        """expression tree over leaves ('x', arg, idx) / ('c', value)"""
        r = rng.random()
        if depth >= 3 or r < 0.3:
            a = int(rng.integers(len(sizes)))
            return ("x", a, int(rng.integers(sizes[a])))
        if r < 0.45:
            return ("mulc", float(np.round(rng.normal(), 2)) or 0.5, gen_expr(rng, sizes, depth + 1))
        if r < 0.6:
            return ("add", gen_expr(rng, sizes, depth + 1), gen_expr(rng, sizes, depth + 1))
        if r < 0.75:
            return ("mul", gen_expr(rng, sizes, depth + 1), gen_expr(rng, sizes, depth + 1))
        if r < 0.9:
            return ("sin", gen_expr(rng, sizes, depth + 1))
        return ("sq", gen_expr(rng, sizes, depth + 1))

    def ev_expr(e, args, sin):
        k = e[0]
        if k == "x":
            return args[e[1]][e[2]]
        if k == "mulc":
            return e[1] * ev_expr(e[2], args, sin)
        if k == "add":
            return ev_expr(e[1], args, sin) + ev_expr(e[2], args, sin)
        if k == "mul":
            return ev_expr(e[1], args, sin) * ev_expr(e[2], args, sin)
        if k == "sin":
            return sin(ev_expr(e[1], args, sin))
        return ev_expr(e[1], args, sin) ** 2

    def d_expr(e, vals, a, idx):
        """analytic ∂e/∂x[a][idx] at float values (own evaluator)"""
        import math
        k = e[0]
        if k == "x":
            return 1.0 if (e[1], e[2]) == (a, idx) else 0.0
        if k == "mulc":
            return e[1] * d_expr(e[2], vals, a, idx)
        if k == "add":
            return d_expr(e[1], vals, a, idx) + d_expr(e[2], vals, a, idx)
        if k == "mul":
            return d_expr(e[1], vals, a, idx) * ev_expr(e[2], vals, math.sin) + ev_expr(e[1], vals, math.sin) * d_expr(e[2], vals, a, idx)
        if k == "sin":
            return math.cos(ev_expr(e[1], vals, math.sin)) * d_expr(e[1], vals, a, idx)
        return 2 * ev_expr(e[1], vals, math.sin) * d_expr(e[1], vals, a, idx)

    dev = qp.device("default.qubit", wires=2)

    def cjac_case(i, rng):
        nargs = int(rng.integers(1, 4))
        sizes = [int(rng.integers(1, 4)) for _ in range(nargs)]
        ngates = int(rng.integers(1, 5))
        gates = []
        for _ in range(ngates):
            if rng.random() < 0.25:
                gates.append(("Rot", [gen_expr(rng, sizes) for _ in range(3)]))
            else:
                gates.append((["RX", "RY", "RZ"][int(rng.integers(3))], [gen_expr(rng, sizes)]))
        exprs = [e for _, es in gates for e in es]
        vals = [[float(v) for v in np.round(rng.uniform(-2, 2, size=n), 3)] for n in sizes]
        r = rng.random()
        iface = "autograd" if r < 0.75 else ("jax" if r < 0.87 and jnp is not None else ("torch" if torch is not None else "autograd"))
        sin = {"autograd": qp.numpy.sin, "jax": (jnp.sin if jnp is not None else None), "torch": (torch.sin if torch is not None else None)}[iface]

        def circuit(*args):
            for w, (name, es) in enumerate(gates):
                getattr(qp, name)(*[ev_expr(e, args, sin) for e in es], wires=w % 2)
            return qp.expval(qp.Z(0))

        qnode = qp.QNode(circuit, dev, interface=iface if rng.random() < 0.5 else "auto")
        if iface == "autograd":
            args = [qp.numpy.array(v, requires_grad=True) for v in vals]
        elif iface == "jax":
            args = [jnp.asarray(v) for v in vals]
        else:
            args = [torch.tensor(v, dtype=torch.float64, requires_grad=True) for v in vals]
        ar = rng.random()
        if ar < 0.4:
            argnum = None
        elif ar < 0.7:
            argnum = int(rng.integers(nargs))
        else:
            argnum = sorted(int(v) for v in rng.permutation(nargs)[: int(rng.integers(1, nargs + 1))])
        def depends(e, argset):
            return (e[1] in argset) if e[0] == "x" else any(depends(c, argset) for c in e[1:] if isinstance(c, tuple))
        rows = exprs
        if iface == "jax":
            # under jax only gate arguments that are traced (= depend on a differentiated QNode argument) are trainable
            argset = {0} if argnum is None else ({argnum} if isinstance(argnum, int) else set(argnum))
            rows = [e for e in exprs if depends(e, argset)]
            if not rows:
                return
        full = [np.array([[d_expr(e, vals, a, j) for j in range(sizes[a])] for e in rows]) for a in range(nargs)]
        if argnum is None:
            if iface == "jax":
                ref = full[0]
            else:
                ref = full[0] if nargs == 1 and iface == "autograd" else tuple(full)
        elif isinstance(argnum, int):
            ref = full[argnum]
        else:
            ref = tuple(full[a] for a in argnum)
        case = {"gates": gates, "values": vals, "argnum": argnum, "interface": iface}
        ctx.case(fingerprint("cj", repr(gates), repr(vals), repr(argnum), iface), nontrivial=len(exprs) >= 2 or nargs >= 2, cls=f"classical_jacobian:{iface}:argnum={type(argnum).__name__}",
                 sample=case)
        ctx.ev("jp.classical_jacobian")
        try:
            got = to_np(classical_jacobian(qnode, argnum=argnum)(*args))
            diff = same(np, got, ref, 1e-9)
        except Exception as e:  # noqa: BLE001
            diff = f"raised {type(e).__name__}: {e}"
        if diff:
            ctx.violation("jp.classical_jacobian", f"classical_jacobian(argnum={argnum}, {iface}) of gate arguments {gates} at {vals}: {diff}", case=case,
                          mech=f"classical_jacobian:{iface}:argnum={type(argnum).__name__}", expected=ref)

    # ====================================================================================== drive
    N = ctx.n(800, 40000)
    for k in range(N):
        i = ctx.shard + k * ctx.nshards
        if ctx.only_case is not None and i != ctx.only_case:
            continue
        if k % 16 == 0 and not ctx.more():
            break
        ctx.case_index = i
        rng = ctx.case_rng(i)
        direct_case(i, rng)
        tape_case(i, rng)
        if k % 8 == 0:
            cjac_case(i, rng)
        if k % 200 == 0:
            probs_all_wires_case(rng)
