"""C37 — Higher-order derivatives are correct.

Deciding monitors (post-conditions on the REAL code):

* ``hess.tape``   — ``qp.gradients.param_shift_hessian`` applied to tapes (default shifts, custom ``diagonal_shifts`` /
  ``off_diagonal_shifts``, ``argnum`` as index list and as Boolean mask, supplied ``f0``): Hessian w.r.t. the trainable gate
  parameters vs the second-order reference of the gate-parameter cost function.
* ``hess.qnode``  — ``param_shift_hessian(qnode)(x)`` (hybrid: contracted with the classical Jacobian; driven with affine
  classical pre-processing only, for which J^T H J is the complete chain rule) vs the reference Hessian in x.
* ``hess.nested`` — nested automatic differentiation of QNodes with ``max_diff=2``: autograd ``qp.jacobian(qp.jacobian(.))``,
  ``jax.hessian`` / ``jax.jacobian(jax.jacobian(.))`` (and under jit), torch double backward, for
  diff_method in {parameter-shift, backprop}, any classical pre-processing, expval/var/probs lists.

Reference (R-DIFF on R-SV): 8th-order central second-derivative stencils (diagonal) and nested 8th-order first
derivatives (off-diagonal) of the independent simulator's cost function at two steps (self-check <= 1e-7).
"""
import numpy as np

from pv.ctx import fingerprint

META = {
    "id": "C37",
    "level": "exploration",
    "technique": "post-condition on param_shift_hessian and on nested autodiff Hessians of max_diff=2 QNodes vs second-order finite "
                 "differences of an independent reference simulator",
    "level_text": "Random circuits with 1-4 trainable parameters (shared parameters, multi-frequency gates, multi-parameter gates, expval/"
                  "probs/var lists) are differentiated twice by the real code (parameter-shift Hessian transform with default/custom shifts and "
                  "argnum masks; nested autograd/jax/torch differentiation under parameter-shift and backprop); every accepted result is "
                  "compared with an independent second-derivative reference. Held on the cases observed.",
    "level_note": "Trusts numpy/scipy and the pv/ref gate table. QNode-level param_shift_hessian is driven with affine pre-processing "
                  "only (its documentation restricts it: the hybrid contraction is J^T H J); tensorflow is not installed; finite shots not swept.",
    "shards": {"quick": 3, "thorough": 15},
    "budget_s": {"quick": 55, "thorough": 400},
    "min_evals": {"quick": 60, "thorough": 2000},
    "min_nontrivial": {"quick": 40, "thorough": 1200},
    "deciding": ["hess.tape", "hess.qnode", "hess.nested"],
    "allow_rejections": True,
    "rule": "case = (circuit spec, parameter point, configuration); distinct = distinct (spec, point, configuration); non-trivial = accepted "
            "and the reference Hessian has an entry of magnitude > 1e-3 (off-diagonal when there are >= 2 parameters)",
    "assumptions": ["reference gate table transcribes the documented unitaries (C02)", "second-order central differences at two steps agree to 1e-7 (self-checked per case)"],
}

TOL = 2e-6
SELF = 1e-7


def _mat_from_tape_hessian(h, nmeas, n):
    """nested tuples (measurements x i x j) of arrays with output dims -> (m_total, n, n)"""
    if nmeas == 1:
        h = (h,)
    blocks = []
    for hm in h:
        if n == 1:
            a = np.asarray(hm, dtype=float).reshape(-1)
            blocks.append(a[:, None, None])
            continue
        rows = []
        for i in range(n):
            rows.append(np.stack([np.asarray(hm[i][j], dtype=float).reshape(-1) for j in range(n)], axis=-1))
        blocks.append(np.stack(rows, axis=-2))  # (dim, n, n)
    return np.concatenate(blocks, axis=0)


LAYOUT = {"documented": 0, "output-axis-last": 0}


def _mat_from_qnode_hessian(h, nmeas, n, ref_blocks=None):
    """param_shift_hessian(qnode)(x) for ONE array argument.  Documented layout per measurement: (*output dims, n, n).  The
    real code returns vector-valued measurements (probs) as (n, n, dim); the property is about the VALUES of the second
    derivatives, so both layouts are accepted (the one that agrees with the reference block is taken) and counted."""
    if nmeas == 1:
        h = (h,)
    out = []
    for k, hm in enumerate(h):
        a = np.asarray(hm, dtype=float)
        if a.ndim <= 2:
            out.append(a.reshape(-1, n, n))
            continue
        doc = a.reshape(-1, n, n) if a.shape[-2:] == (n, n) else None
        alt = np.moveaxis(a, -1, 0).reshape(-1, n, n) if a.shape[:2] == (n, n) else None
        pick = doc if doc is not None else alt
        which = "documented" if doc is not None else "output-axis-last"
        if doc is not None and alt is not None and ref_blocks is not None and ref_blocks[k].shape == alt.shape:
            if np.max(np.abs(alt - ref_blocks[k])) < np.max(np.abs(doc - ref_blocks[k])):
                pick, which = alt, "output-axis-last"
        LAYOUT[which] += 1
        out.append(pick if pick is not None else a.reshape(-1, n, n))
    return np.concatenate(out, axis=0)


def make_case(C, rng, ci):
    labels = ["range", "perm", "str"][int(rng.integers(3))]
    affine = (ci % 2 == 0)     # affine pre-processing: admissible for the QNode-level transform
    kinds = [("expval",), ("expval", "probs"), ("expval", "probs", "var")][ci % 3]
    n_in = int(rng.integers(1, 5))
    spec = C.random_spec(rng, nw=int(rng.integers(1, 5)), n_in=n_in, n_gates=int(rng.integers(n_in, n_in + 3)), meas_kinds=kinds,
                         n_meas=int(rng.integers(1, 3)), labels=labels, pre=True, const_frac=0.1)
    if affine:   # replace non-affine expressions by affine ones
        for g in spec["gates"]:
            g["args"] = [e if e[0] in ("c", "x", "lin", "add") else ("lin", sorted(C.expr_inputs(e))[0], 2.0, 0.25) for e in g["args"]]
    return spec, affine


def run(ctx):
    import warnings

    import pennylane as qp

    from pv.checks.c34 import Incomparable, classify_exc, crash_mech, unbox
    from pv.gen import c34_circ as C
    from pv.ref import c34_diff as D

    warnings.filterwarnings("ignore")
    role = ("autograd", "jax", "torch")[ctx.shard % 3]
    if role == "jax":
        import jax
        import jax.numpy as jnp
        jax.config.update("jax_enable_x64", True)
    if role == "torch":
        import torch

    dev = qp.device("default.qubit")
    G = qp.gradients
    pnp = qp.numpy
    ncirc = ctx.n(120, 4000)
    base = ctx.shard * 100000
    min_circ = 4 if ctx.quick else 8

    def classify(iface, cfg, spec, default, exc=None, fn_nocache=None, Href=None):
        """mechanism tag from the circuit content / a differential re-run without the execution cache"""
        msg = str(exc) if exc is not None else ""
        obs_kinds = [m["obs"][0] for m in spec["meas"] if m["kind"] != "probs"]
        if cfg == "f0" and len(spec["meas"]) == 1:
            return "hessian-f0:single-measurement-not-wrapped"
        if "parameter-shift" in cfg or cfg.startswith("param_shift"):
            if any(m["kind"] == "var" and m["obs"][0] == "sum" for m in spec["meas"]):
                return "ps-var:sum-observable-treated-as-involutory"
            if iface == "jax" and exc is not None and any(k in ("sum", "herm", "proj") for k in obs_kinds):
                return "jax-nested-ps:observable-params-marked-trainable"
            if fn_nocache is not None and Href is not None:
                try:
                    H2 = np.asarray(fn_nocache(), dtype=float)
                    if H2.shape == Href.shape and np.all(np.abs(H2 - Href) <= TOL * max(1.0, float(np.max(np.abs(Href))))):
                        return "c05-cache-collision:2pi-shifted-tape-served-from-cache"
                except Exception:  # noqa: BLE001
                    pass
            if iface == "autograd" and len(spec["meas"]) > 1 and exc is None:
                return "autograd-nested-ps:multi-measurement-vjp-drops-trace"
        if iface == "torch" and "backprop" in cfg and "'numpy.ndarray' and 'Tensor'" in msg:
            return "torch-backprop:numpy-const-times-tensor"
        return default

    def judge(monitor, iface, cfg, fn, Href, spec, desc, x, extra=None, fn_nocache=None):
        case = {"spec": desc, "x": [float(v) for v in x], "config": cfg, "interface": iface, **(extra or {})}
        try:
            Hobs = fn()
        except Exception as e:  # noqa: BLE001
            if classify_exc(e) == "reject":
                ctx.reject(f"{iface}:{cfg}:{type(e).__name__}:{str(e)[:60]}")
                return None
            import traceback
            ctx.ev(monitor)
            ctx.violation(monitor, f"{iface}/{cfg}: {type(e).__name__}: {str(e)[:300]} on an admitted circuit",
                          case={**case, "tb": traceback.format_exc()[-900:]}, mech=classify(iface, cfg, spec, crash_mech(e, iface), exc=e))
            return None
        n = Href.shape[-1]
        off = Href.copy()
        if n >= 2:
            off[..., np.arange(n), np.arange(n)] = 0
        nontriv = bool(np.max(np.abs(off if n >= 2 else Href)) > 1e-3)
        ctx.case(fingerprint(repr(desc), [float(v) for v in x], iface, cfg, repr(extra)), nontrivial=nontriv, cls=f"{iface}:{cfg}", sample=case)
        ctx.ev(monitor)
        Hobs = np.asarray(Hobs, dtype=float)
        if Hobs.shape != Href.shape:
            ctx.violation(monitor, f"{iface}/{cfg}: Hessian shape {Hobs.shape} != reference {Href.shape}", case=case,
                          mech=f"shape:{iface.split('-')[0]}:{cfg}", observed=Hobs, expected=Href)
            return False
        tol = TOL * max(1.0, float(np.max(np.abs(Href))))
        err = np.abs(Hobs - Href)
        if not np.all(err <= tol):
            k = np.unravel_index(int(np.argmax(np.nan_to_num(err, nan=np.inf))), err.shape)
            where = "diagonal" if k[-1] == k[-2] else "off-diagonal"
            asym = float(np.max(np.abs(Hobs - np.swapaxes(Hobs, -1, -2))))
            ctx.violation(monitor, f"{iface}/{cfg}: Hessian entry {tuple(int(v) for v in k)} ({where}) = {Hobs[k]:.10g}, true second derivative "
                                   f"{Href[k]:.10g} (|diff| {err[k]:.3e} > {tol:.1e}); asymmetry of returned Hessian {asym:.2e}",
                          case=case, mech=classify(iface, cfg, spec, f"wrong-hessian:{iface.split('-')[0]}:{cfg}:{where}", fn_nocache=fn_nocache, Href=Href),
                          observed=Hobs, expected=Href)
            return False
        return True

    for ci in range(ncirc):
        if ci >= min_circ and not ctx.more():
            break
        idx = base + ci
        ctx.case_index = idx
        if ctx.only_case is not None and idx != ctx.only_case:
            continue
        rng = ctx.case_rng(idx)
        spec, affine = make_case(C, rng, ci)
        n_in = spec["n_in"]
        x = C.random_point(rng, n_in)
        desc = C.describe(spec)
        R = C.Ref(spec)
        nmeas = len(spec["meas"])
        theta = R.flat_gate_params(x)
        nth = len(theta)

        # ---------------------------------------------------------------- tape level + QNode-level transform (autograd role)
        if role == "autograd" and nth and nth <= 5:
            Hth = None
            with ctx.guard("reference.theta"):
                Hth, eth = D.hessian(R.f_theta, theta)
            if Hth is not None and eth <= SELF:
                train = list(range(nth))
                if nth > 1 and rng.random() < 0.4:
                    train = sorted(int(v) for v in rng.choice(nth, size=int(rng.integers(1, nth + 1)), replace=False))
                nt = len(train)
                Ht = Hth[:, train][:, :, train]

                def via(**kws):
                    def fn():
                        tape = C.make_tape(qp, spec, theta, trainable=train)
                        (xt,), _ = G.param_shift_hessian.expand_transform(tape)
                        if [o.name for o in xt.operations] != [o.name for o in tape.operations] or len(xt.trainable_params) != nt:
                            raise Incomparable("transform expands the tape")
                        kw = dict(kws)
                        if kw.pop("with_f0", False):   # f0 from a separate tape object (qp.execute re-marks trainable parameters in place)
                            kw["f0"] = qp.execute([C.make_tape(qp, spec, theta)], dev, diff_method=None)[0]
                        tapes, post = G.param_shift_hessian(tape, **kw)
                        res = qp.execute(tapes, dev, diff_method=None) if len(tapes) else ()
                        return _mat_from_tape_hessian(post(res), nmeas, nt)
                    return fn

                textra = {"trainable": train}
                judge("hess.tape", "tape", "default", via(), Ht, spec, desc, theta, textra)
                judge("hess.tape", "tape", "f0", via(with_f0=True), Ht, spec, desc, theta, textra)
                # custom shifts: one tuple per trainable parameter with as many entries as the parameter has frequencies
                try:
                    tape0 = C.make_tape(qp, spec, theta, trainable=train)
                    nfreq = []
                    for p in tape0.trainable_params:
                        op, _, pidx = tape0.get_operation(p)
                        nfreq.append(len(op.parameter_frequencies[pidx]))
                except Exception:  # noqa: BLE001
                    nfreq = None
                if nfreq:
                    def shifts():
                        out = []
                        for k in nfreq:
                            # distinct shifts in (0.3, 2.8) keep the generated rules well conditioned
                            s = np.sort(rng.uniform(0.35, 2.7, size=k))
                            while k > 1 and np.min(np.diff(s)) < 0.25:
                                s = np.sort(rng.uniform(0.35, 2.7, size=k))
                            out.append(tuple(float(round(v, 4)) for v in s))
                        return out
                    ds, os_ = shifts(), shifts()
                    judge("hess.tape", "tape", "diag-shifts", via(diagonal_shifts=ds), Ht, spec, desc, theta, {**textra, "diagonal_shifts": ds})
                    if nt > 1:
                        judge("hess.tape", "tape", "offdiag-shifts", via(off_diagonal_shifts=os_), Ht, spec, desc, theta, {**textra, "off_diagonal_shifts": os_})
                        judge("hess.tape", "tape", "both-shifts", via(diagonal_shifts=ds, off_diagonal_shifts=os_), Ht, spec, desc, theta,
                              {**textra, "diagonal_shifts": ds, "off_diagonal_shifts": os_})
                if nt > 1:
                    # argnum as index list: other rows/columns are zero
                    an = sorted(int(v) for v in rng.choice(nt, size=int(rng.integers(1, nt)), replace=False))
                    Han = np.zeros_like(Ht)
                    for i in an:
                        for j in an:
                            Han[:, i, j] = Ht[:, i, j]
                    judge("hess.tape", "tape", "argnum-list", via(argnum=an), Han, spec, desc, theta, {**textra, "argnum": an})
                    # Boolean mask (symmetric)
                    mask = rng.random((nt, nt)) < 0.6
                    mask = np.triu(mask) | np.triu(mask).T
                    if not mask.any():
                        mask[0, 0] = True
                    Hm = np.where(mask[None], Ht, 0.0)
                    judge("hess.tape", "tape", "argnum-mask", via(argnum=mask), Hm, spec, desc, theta, {**textra, "mask": mask.astype(int).tolist()})
            elif Hth is not None:
                ctx.inconclusive_case(f"theta hessian self-check {eth:.1e}")

        # ---------------------------------------------------------------- x-level reference
        Hx = None
        with ctx.guard("reference.x"):
            Hx, ex = D.hessian(R.f, x)
        if Hx is None:
            continue
        if ex > SELF:
            ctx.inconclusive_case(f"x hessian self-check {ex:.1e}")
            continue
        qf = C.make_qfunc(qp, spec, "array")

        if role == "autograd":
            if affine:
                def fn(**qkw):
                    qn = qp.QNode(qf, dev, diff_method="parameter-shift", max_diff=2, **qkw)
                    dims = [len(v) for v in R.measure(R.state_from_gate_params(R.gate_params(x)))]
                    offs = np.cumsum([0] + dims)
                    blocks = [Hx[offs[k]:offs[k + 1]] for k in range(nmeas)]
                    return _mat_from_qnode_hessian(G.param_shift_hessian(qn)(pnp.array(x, requires_grad=True)), nmeas, n_in, blocks)
                judge("hess.qnode", "autograd", "param_shift_hessian(qnode)", fn, Hx, spec, desc, x, fn_nocache=lambda fn=fn: fn(cache=False))
            for dm in ("parameter-shift", "backprop"):
                def fn(dm=dm, **qkw):
                    qn = qp.QNode(qf, dev, interface="autograd", diff_method=dm, max_diff=2, **qkw)

                    def F(a):
                        r = qn(a)
                        if isinstance(r, (tuple, list)):
                            return qp.math.hstack([qp.math.reshape(v, (-1,)) for v in r])
                        return qp.math.reshape(r, (-1,))
                    Hh, _ = unbox(qp.jacobian(qp.jacobian(F))(pnp.array(x, requires_grad=True)))
                    return np.asarray(Hh, dtype=float).reshape(-1, n_in, n_in)
                judge("hess.nested", "autograd", dm, fn, Hx, spec, desc, x, fn_nocache=lambda fn=fn: fn(cache=False))

        if role == "jax":
            allv = [("parameter-shift", "hessian", False), ("backprop", "hessian", False), ("parameter-shift", "jacjac", False),
                    ("backprop", "jacfwd-jacfwd", False), ("parameter-shift", "jacfwd-jacfwd", False)]
            variants = [allv[ci % 5], allv[(ci + 2) % 5]] if ctx.quick else allv
            if ci % 3 == 0:
                variants.append((("parameter-shift", "backprop")[(ci // 3) % 2], "hessian", True))
            for dm, how, jit in variants:
                def fn(dm=dm, how=how, jit=jit, **qkw):
                    qn = qp.QNode(qf, dev, interface="jax", diff_method=dm, max_diff=2, **qkw)
                    f = {"hessian": jax.hessian(qn), "jacjac": jax.jacobian(jax.jacobian(qn)), "jacfwd-jacfwd": jax.jacfwd(jax.jacfwd(qn))}[how]
                    if jit:
                        f = jax.jit(f)
                    Hh = f(jnp.array(x))
                    if nmeas == 1:
                        Hh = (Hh,)
                    return np.concatenate([np.asarray(hm, dtype=float).reshape(-1, n_in, n_in) for hm in Hh], axis=0)
                judge("hess.nested", "jax-jit" if jit else "jax", f"{dm}:{how}", fn, Hx, spec, desc, x, fn_nocache=lambda fn=fn: fn(cache=False))

        if role == "torch":
            for dm in ("parameter-shift", "backprop"):
                def fn(dm=dm, **qkw):
                    qn = qp.QNode(qf, dev, interface="torch", diff_method=dm, max_diff=2, **qkw)

                    def F(a):
                        r = qn(a)
                        if isinstance(r, (tuple, list)):
                            return torch.cat([v.reshape(-1) for v in r])
                        return r.reshape(-1)
                    xt = torch.tensor(np.asarray(x), dtype=torch.float64, requires_grad=True)
                    Hh = torch.autograd.functional.jacobian(lambda a: torch.autograd.functional.jacobian(F, a, create_graph=True), xt)
                    return Hh.detach().numpy().astype(float).reshape(-1, n_in, n_in)
                judge("hess.nested", "torch", dm, fn, Hx, spec, desc, x, fn_nocache=lambda fn=fn: fn(cache=False))
    ctx.note("qnode_hessian_layouts_seen", dict(LAYOUT))
