"""C43 — Tape-mode control flow equals plain Python control flow.

Deciding monitors:
* ``cf.direct``  – fine-grained differential on the three callables: ``qp.for_loop`` over random (start, stop, step) triples
  in every calling form and with 0–3 carried values must visit exactly ``list(range(start, stop, step))`` and return what the
  Python loop returns; ``qp.while_loop`` with counters / early exits; ``qp.cond`` with elif chains over random predicate
  vectors must run exactly the branch the Python ``if/elif/else`` runs (operators queued, values returned).
* ``cf.ops``     – whole generated programs (G-PROG: nested loops, loop-carried values, early-exit whiles, conds with elifs,
  operator-class branches, dynamic wires) recorded twice with ``make_qscript``: plain Python control flow vs the
  ``qp.*`` functional forms; operator lists must be identical (class, exact parameter bytes, wires, hyper-parameters, order)
  and the final carried values equal.
* ``cf.mcm``     – ``qp.cond`` on measurement values: the recorded tape, interpreted branch by branch by R-BR with the real
  ``Conditional.meas_val.concretize`` predicates, must equal (density matrix, 1e-9) the program in which the condition is a
  plain Python ``if`` on each branch's concrete outcomes (AST predicates), and the ``defer_measurements`` tape simulated by
  R-SV must give the same reduced state on the data wires.
"""
from __future__ import annotations

import numpy as np

from pv.ctx import fingerprint

META = {
    "id": "C43",
    "level": "exploration",
    "technique": "differential recording: qp.for_loop/while_loop/cond (capture off) vs the plain Python control flow of the same AST; "
                 "MCM conditions vs per-branch Python ifs through the R-BR interpreter",
    "level_text": "Every generated program is recorded with both control-flow renderings and the queues are compared "
                  "bit-exactly; the three callables are additionally driven directly over random bounds/predicates.",
    "level_note": "The Python rendering of the AST is the oracle (trusted interpreter of for/while/if). Catalyst/qjit and capture "
                  "mode are out of scope here (C42). MCM part trusts R-BR/R-SV.",
    "design_ref": "7/C43",
    "shards": {"quick": 2, "thorough": 16},
    "budget_s": {"quick": 40, "thorough": 300},
    "min_evals": {"quick": 20000, "thorough": 500000},
    "deciding": ["cf.direct", "cf.ops", "cf.mcm"],
    "rule": "random (start, stop, step) incl. negative steps, empty ranges, steps not dividing the range, numpy-integer bounds; "
            "random predicate vectors; G-PROG programs of depth ≤ 3; distinct = fingerprint of the case content; non-trivial = "
            "loop runs ≥ 1 iteration or a non-first branch is selected / program records ≥ 1 operator inside control flow",
    "assumptions": ["python interpreter of the AST is the specification of 'equivalent plain Python control flow'"],
}


def ops_struct(tape):
    from pv.gen.circ import op_struct

    return tuple(op_struct(o) for o in tape.operations)


def same_value(a, b):
    if isinstance(a, (tuple, list)) and isinstance(b, (tuple, list)):
        return len(a) == len(b) and all(same_value(x, y) for x, y in zip(a, b))
    if a is None or b is None:
        return a is b
    try:
        return type(a).__name__ == type(b).__name__ and bool(np.all(np.asarray(a) == np.asarray(b)))
    except Exception:  # noqa: BLE001
        return a == b


# ------------------------------------------------------------------------------------------------ direct
def direct_for(ctx, qp, rng):
    start, stop = int(rng.integers(-6, 9)), int(rng.integers(-6, 9))
    step = int([1, 1, 2, 3, -1, -2, -3, 4, -5, 7][int(rng.integers(10))])
    form = int(rng.integers(1, 4))
    ncar = int(rng.integers(0, 4))
    wrap = [int, int, np.int64, np.int32][int(rng.integers(4))]
    if form == 1:
        start, step = 0, 1
    elif form == 2:
        step = 1
    ref_idx = list(range(start, stop, step))
    init = [float(np.round(rng.normal(), 3)) for _ in range(ncar)]
    # python meaning
    vals = list(init)
    ref_log = []
    for i in range(start, stop, step):
        ref_log.append((i, tuple(vals)))
        vals = [v * 0.5 + i + k for k, v in enumerate(vals)]
    ref_ret = None if ncar == 0 else vals[0] if ncar == 1 else tuple(vals)
    if ncar and not ref_idx:
        ref_ret = init[0] if ncar == 1 else tuple(init)
    log = []

    def body(i, *vs):
        log.append((i, tuple(vs)))
        qp.RX(0.1 * i, wires=abs(i) % 3)
        out = [v * 0.5 + i + k for k, v in enumerate(vs)]
        return None if ncar == 0 else out[0] if ncar == 1 else tuple(out)

    bounds = [wrap(stop)] if form == 1 else [wrap(start), wrap(stop)] if form == 2 else [wrap(start), wrap(stop), wrap(step)]
    fp = fingerprint("for", start, stop, step, form, ncar, wrap.__name__)
    ctx.case(fp, nontrivial=len(ref_idx) > 0, cls=f"for/form{form}/carried{ncar}")
    ctx.ev("cf.direct")
    case = {"kind": "for_loop", "bounds": [int(b) for b in bounds], "form": form, "carried": ncar, "bound_type": wrap.__name__}
    try:
        with qp.queuing.AnnotatedQueue() as q:
            ret = qp.for_loop(*bounds)(body)(*init)
    except Exception as e:  # noqa: BLE001
        ctx.violation("cf.direct", f"for_loop{tuple(bounds)} raised {type(e).__name__}: {e}", case=case, mech=f"for-raise:{type(e).__name__}")
        return
    got_idx = [int(i) for i, _ in log]
    if got_idx != ref_idx:
        ctx.violation("cf.direct", f"for_loop{tuple(bounds)} visited {got_idx[:12]}, range gives {ref_idx[:12]}", case=case,
                      mech="for-index-sequence", observed=got_idx, expected=ref_idx)
        return
    if [v for _, v in log] != [v for _, v in ref_log]:
        ctx.violation("cf.direct", f"for_loop{tuple(bounds)}: carried values fed to the body differ", case=case, mech="for-carried-values",
                      observed=log[:4], expected=ref_log[:4])
        return
    if not same_value(ret, ref_ret):
        ctx.violation("cf.direct", f"for_loop{tuple(bounds)} with {ncar} carried values returned {ret!r}, python loop leaves {ref_ret!r}", case=case,
                      mech=f"for-return:{ncar}:{'empty' if not ref_idx else 'nonempty'}", observed=repr(ret), expected=repr(ref_ret))
        return
    ops = qp.tape.QuantumScript.from_queue(q).operations
    if len(ops) != len(ref_idx) or any(o.wires[0] != abs(i) % 3 for o, i in zip(ops, ref_idx)):
        ctx.violation("cf.direct", f"for_loop{tuple(bounds)} queued {len(ops)} ops for {len(ref_idx)} iterations", case=case, mech="for-queue")


def direct_while(ctx, qp, rng):
    ncar = int(rng.integers(1, 4))
    limit = int(rng.integers(-1, 7))
    inc = int(rng.integers(1, 4))
    thr = float(np.round(rng.uniform(0.5, 6), 2))
    early = rng.random() < 0.5 and ncar >= 2
    init = [int(rng.integers(0, 3))] + [float(np.round(rng.uniform(0, 1), 3)) for _ in range(ncar - 1)]

    def cond_py(c, *rest):
        return c < limit and (not early or rest[0] < thr)

    def step_py(c, *rest):
        return (c + inc,) + tuple(r * 1.5 + 0.25 * c for r in rest)

    vals = tuple(init)
    n_it = 0
    ref_log = []
    while cond_py(*vals):
        ref_log.append(vals)
        vals = step_py(*vals)
        n_it += 1
    ref_ret = vals[0] if ncar == 1 else tuple(vals)
    log = []

    def body(*vs):
        log.append(tuple(vs))
        qp.RY(0.3 * vs[0], wires=vs[0] % 2)
        out = step_py(*vs)
        return out[0] if ncar == 1 else out

    fp = fingerprint("while", ncar, limit, inc, thr, early, init)
    ctx.case(fp, nontrivial=n_it > 0, cls=f"while/carried{ncar}/{'early' if early else 'counter'}")
    ctx.ev("cf.direct")
    case = {"kind": "while_loop", "limit": limit, "inc": inc, "thr": thr, "early": bool(early), "init": init}
    try:
        with qp.queuing.AnnotatedQueue() as q:
            ret = qp.while_loop(cond_py)(body)(*init)
    except Exception as e:  # noqa: BLE001
        ctx.violation("cf.direct", f"while_loop raised {type(e).__name__}: {e}", case=case, mech=f"while-raise:{type(e).__name__}")
        return
    if log != ref_log:
        ctx.violation("cf.direct", f"while_loop ran {len(log)} iterations with {log[:3]}, python while {len(ref_log)} with {ref_log[:3]}", case=case,
                      mech="while-iterations", observed=log[:6], expected=ref_log[:6])
        return
    if not same_value(ret, ref_ret):
        ctx.violation("cf.direct", f"while_loop returned {ret!r}, python while leaves {ref_ret!r}", case=case,
                      mech=f"while-return:{ncar}:{'empty' if n_it == 0 else 'nonempty'}", observed=repr(ret), expected=repr(ref_ret))
        return
    if len(qp.tape.QuantumScript.from_queue(q).operations) != n_it:
        ctx.violation("cf.direct", "while_loop queue length differs from the iteration count", case=case, mech="while-queue")


def direct_cond(ctx, qp, rng):
    nel = int(rng.integers(0, 4))
    has_else = rng.random() < 0.6
    kinds = [bool, bool, np.bool_, int]
    preds = [kinds[int(rng.integers(4))](rng.random() < 0.35) for _ in range(nel + 1)]
    style = ["args", "decorator", "single-pair"][int(rng.integers(3))]
    if style == "single-pair" and nel != 1:
        style = "args"
    arg = float(np.round(rng.normal(), 3))
    # python meaning
    taken = None
    for j, p in enumerate(preds):
        if p:
            taken = j
            break
    if taken is None and has_else:
        taken = "else"
    ref_ret = None if taken is None else (arg + (100 if taken == "else" else taken))
    log = []

    def mk(j):
        def fn(a):
            log.append(j)
            qp.RZ(a, wires=(0 if j == "else" else j))
            return a + (100 if j == "else" else j)
        return fn

    fp = fingerprint("cond", [bool(p) for p in preds], has_else, style, [type(p).__name__ for p in preds])
    ctx.case(fp, nontrivial=taken not in (None, 0), cls=f"cond/{style}/elifs{nel}/{'else' if has_else else 'noelse'}")
    ctx.ev("cf.direct")
    case = {"kind": "cond", "preds": [bool(p) for p in preds], "pred_types": [type(p).__name__ for p in preds], "else": bool(has_else), "style": style}
    try:
        with qp.queuing.AnnotatedQueue() as q:
            if style == "decorator":
                cc = qp.cond(preds[0])(mk(0))
                for j in range(1, nel + 1):
                    cc = cc.else_if(preds[j])(mk(j))
                if has_else:
                    cc = cc.otherwise(mk("else"))
            elif style == "single-pair":
                cc = qp.cond(preds[0], mk(0), mk("else") if has_else else None, elifs=(preds[1], mk(1)))
            else:
                cc = qp.cond(preds[0], mk(0), mk("else") if has_else else None, elifs=[(preds[j], mk(j)) for j in range(1, nel + 1)])
            ret = cc(arg)
    except Exception as e:  # noqa: BLE001
        ctx.violation("cf.direct", f"cond raised {type(e).__name__}: {e}", case=case, mech=f"cond-raise:{type(e).__name__}:{style}")
        return
    exp_log = [] if taken is None else [taken]
    if log != exp_log:
        ctx.violation("cf.direct", f"cond ran branches {log}, python if/elif/else runs {exp_log}", case=case, mech=f"cond-branch:{style}",
                      observed=log, expected=exp_log)
        return
    if not same_value(ret, ref_ret):
        ctx.violation("cf.direct", f"cond returned {ret!r}, expected {ref_ret!r}", case=case, mech=f"cond-return:{style}", observed=repr(ret), expected=repr(ref_ret))
        return
    ops = qp.tape.QuantumScript.from_queue(q).operations
    if len(ops) != len(exp_log):
        ctx.violation("cf.direct", f"cond queued {len(ops)} operators, expected {len(exp_log)}", case=case, mech=f"cond-queue:{style}")


def direct_cond_opargs(ctx, qp, rng):
    """Operators passed as *arguments* to a conditional function are de-queued and only the branch's own operators remain."""
    p = bool(rng.random() < 0.5)
    ctx.ev("cf.direct")
    ctx.case(fingerprint("cond-oparg", p), nontrivial=True, cls="cond/operator-argument")
    with qp.queuing.AnnotatedQueue() as q:
        qp.cond(p, qp.adjoint, qp.pow)(qp.RX(0.3, 0)) if p else qp.cond(p, qp.adjoint, lambda op: qp.pow(op, 2))(qp.RX(0.3, 0))
    ops = qp.tape.QuantumScript.from_queue(q).operations
    with qp.queuing.AnnotatedQueue() as q2:
        if p:
            qp.adjoint(qp.RX(0.3, 0))
        else:
            qp.pow(qp.RX(0.3, 0), 2)
    ref = qp.tape.QuantumScript.from_queue(q2).operations
    if [repr(o) for o in ops] != [repr(o) for o in ref]:
        ctx.violation("cf.direct", f"cond with an operator argument queued {ops}, python if queues {ref}", case={"pred": p}, mech="cond-operator-argument")


# ------------------------------------------------------------------------------------------------ programs
def program_case(ctx, qp, rng, idx):
    from pv.gen import c43_prog as P

    g = P.Gen(rng, capture=False, max_depth=3, allow_symbolic=rng.random() < 0.3)
    prog = g.program()
    kinds = P.count_kinds(prog["stmts"])
    wrap = [None, None, np.int64][int(rng.integers(3))]
    fp = fingerprint(repr(prog), repr(wrap))
    res = {}

    def rec(fn, key):
        def f():
            res[key] = fn()
        return qp.tape.make_qscript(f)()

    err_a = err_b = None
    ta = tb = None
    try:
        ta = rec(lambda: P.run_python(qp, prog), "a")
    except Exception as e:  # noqa: BLE001
        err_a = e
    try:
        tb = rec(lambda: P.run_qp(qp, prog, bound_wrap=wrap), "b")
    except Exception as e:  # noqa: BLE001
        err_b = e
    nops = len(ta.operations) if ta is not None else 0
    nontriv = nops > 0 and any(k in kinds for k in ("for", "while", "if"))
    ctx.case(fp, nontrivial=nontriv, cls="program/" + "+".join(sorted(k for k in kinds if k in ("for", "while", "if", "adjoint", "ctrl"))),
             sample={"source": P.emit_source(prog).splitlines()[2:14], "args": prog["args"], "ops": nops})
    ctx.count("programs")
    ctx.ev("cf.ops")
    case = {"args": prog["args"], "source": P.emit_source(prog).splitlines()[2:40], "bound_wrap": getattr(wrap, "__name__", None)}
    if err_a is not None or err_b is not None:
        if err_a is not None and err_b is not None and type(err_a) is type(err_b):
            ctx.count("both_raise_same")
            return
        ctx.violation("cf.ops", f"python form: {type(err_a).__name__ if err_a else 'ok'} ({err_a}); qp form: {type(err_b).__name__ if err_b else 'ok'} ({err_b})",
                      case=case, mech="program-exception-mismatch")
        return
    sa, sb = ops_struct(ta), ops_struct(tb)
    if sa != sb:
        k = next((i for i, (x, y) in enumerate(zip(sa, sb)) if x != y), min(len(sa), len(sb)))
        ctx.violation("cf.ops", f"queues differ at position {k}: python {ta.operations[k] if k < len(ta.operations) else 'END'} vs qp "
                      f"{tb.operations[k] if k < len(tb.operations) else 'END'} (lengths {len(sa)}/{len(sb)})",
                      case=case, mech="program-queue:" + ("length" if len(sa) != len(sb) else "content"),
                      observed=[repr(o) for o in tb.operations[max(0, k - 2):k + 3]], expected=[repr(o) for o in ta.operations[max(0, k - 2):k + 3]])
        return
    for v in ("x", "y"):
        if not same_value(res["a"][v], res["b"][v]):
            ctx.violation("cf.ops", f"final value of {v}: python {res['a'][v]!r} vs qp {res['b'][v]!r}", case=case, mech="program-carried-value")
            return


# ------------------------------------------------------------------------------------------------ MCM conditions
def mcm_case(ctx, qp, rng, idx):
    from pv.gen import c21_dyn as D
    from pv.ref import bridge, sv
    from pv.ref import c21_branch as br

    nested = rng.random() < 0.1
    prog = D.gen_program(rng, max_mcm=3, nested_prob=0.5 if nested else 0.0, p_postselect=0.15)
    wires = prog["wires"]
    fp = fingerprint(repr(prog))
    tape = qp.tape.make_qscript(lambda: D.run_pennylane(qp, prog))()
    R_py = br.enumerate_branches(D.rbr_program(prog), wires)  # python-if meaning on each branch
    nconds = D.n_conds(prog["stmts"])
    ctx.case(fp, nontrivial=len(R_py.branches) >= 2 and nconds > 0, cls="mcm/" + ("nested" if D.has_nested(prog["stmts"]) else "flat"),
             sample={"program": D.describe(prog), "branches": len(R_py.branches)})
    if not R_py.defined or R_py.Z < 1e-6:
        ctx.reject("postselect-zero-probability")
        return
    case = {"program": D.describe(prog), "wires": wires}
    # (1) the recorded Conditional ops, evaluated with their own predicates
    stats = {}
    R_tape = br.enumerate_branches(br.program_from_ops(tape.operations, stats=stats), wires)
    ctx.ev("cf.mcm")
    rho_py, rho_tape = R_py.density(), R_tape.density()
    if abs(R_py.Z - R_tape.Z) > 1e-9 or np.linalg.norm(rho_py - rho_tape) > 1e-9:
        ctx.violation("cf.mcm", f"recorded Conditional operators act differently from python ifs on the outcomes: ‖Δρ‖={np.linalg.norm(rho_py - rho_tape):.3g}, "
                      f"Z {R_tape.Z} vs {R_py.Z}", case=case, mech="cond-mcm-recorded-semantics")
        return
    # (2) deferral
    try:
        (dt,), _ = qp.defer_measurements(tape)
        wo = list(dt.wires) + [w for w in tape.wires if w not in dt.wires]  # wires that were only measured stay in |0>
        gates, _ = bridge.tape_gates(dt.operations)
        st = sv.run(gates, wo)
    except Exception as e:  # noqa: BLE001
        ctx.ev("cf.mcm")
        ctx.violation("cf.mcm", f"defer_measurements / its simulation raised {type(e).__name__}: {e}", case=case,
                      mech="defer-crash" + ("-nested" if D.has_nested(prog["stmts"]) else ""))
        return
    ctx.ev("cf.mcm")
    nrm = float(np.vdot(st, st).real)
    if nrm < 1e-12:
        return
    # data wires = wires the recorded tape really uses (defer_measurements numbers its auxiliary wires after the largest
    # integer label *of the tape*, which may coincide with an unused label of the generator's register)
    used = [w for w in wires if w in tape.wires]
    rho_d = sv.reduced_dm(sv.density(st / np.sqrt(nrm)), wo, used)
    rho_py = sv.reduced_dm(rho_py, wires, used)
    wires = used
    # the measured wires of the deferred circuit are not collapsed; compare on observables diagonal in the measured
    # wires' basis is not enough in general, so compare the reduced state after dephasing the measured, un-reused wires
    # — equivalently compare full reduced density matrices only when every measured wire is reset or measured last.
    # Robust choice: compare the joint distribution + reduced states of wires that are never measured.
    never = [w for w in wires if not any(s[0] == "m" and s[2] == w for s in prog["stmts"])]
    if never:
        a = sv.reduced_dm(rho_d, wires, never)
        b = sv.reduced_dm(rho_py, wires, never)
        if np.linalg.norm(a - b) > 1e-9:
            nestedp = D.has_nested(prog["stmts"])
            ctx.violation("cf.mcm", f"deferred circuit differs from the classically controlled one on the unmeasured wires {never}: ‖Δρ‖={np.linalg.norm(a - b):.3g}",
                          case=case, mech="deferred-nested-conditional-inner-predicate-dropped" if nestedp else "cond-mcm-vs-deferred")
            return
    p_d = np.real(np.diag(rho_d))
    p_py = np.real(np.diag(rho_py))
    if np.linalg.norm(p_d - p_py) > 1e-9:
        nestedp = D.has_nested(prog["stmts"])
        ctx.violation("cf.mcm", f"computational-basis distribution of the deferred circuit differs: {p_d} vs {p_py}", case=case,
                      mech="deferred-nested-conditional-inner-predicate-dropped" if nestedp else "cond-mcm-vs-deferred")


def run(ctx):
    import warnings

    import pennylane as qp

    warnings.filterwarnings("ignore")
    rng = ctx.rng
    nd = ctx.n(40000, 1200000)
    for i in range(nd):
        if i % 256 == 0 and not ctx.more():
            break
        ctx.case_index = i
        r = rng.random()
        if r < 0.45:
            direct_for(ctx, qp, rng)
        elif r < 0.7:
            direct_while(ctx, qp, rng)
        elif r < 0.97:
            direct_cond(ctx, qp, rng)
        else:
            direct_cond_opargs(ctx, qp, rng)
    # documented domain edge: step 0 is a ValueError of range()
    try:
        qp.for_loop(0, 3, 0)(lambda i: None)()
        ctx.violation("cf.direct", "for_loop with step 0 did not raise (python range raises ValueError)", mech="for-step-zero")
    except ValueError:
        ctx.reject("for-step-zero")
    except Exception as e:  # noqa: BLE001
        ctx.violation("cf.direct", f"for_loop with step 0 raised {type(e).__name__}, python range raises ValueError", mech="for-step-zero")
    npg = ctx.n(4000, 160000)
    for i in range(npg):
        if i % 16 == 0 and not ctx.more():
            break
        ctx.case_index = 10_000_000 + ctx.shard * 1_000_000 + i
        program_case(ctx, qp, np.random.default_rng([ctx.seed, 43, ctx.shard, i]), i)
    nm = ctx.n(700, 24000)
    for i in range(nm):
        if i % 8 == 0 and not ctx.more():
            break
        ctx.case_index = 20_000_000 + ctx.shard * 1_000_000 + i
        with ctx.guard("cf.mcm"):
            mcm_case(ctx, qp, np.random.default_rng([ctx.seed, 4343, ctx.shard, i]), i)
