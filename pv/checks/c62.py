"""C62 — Quantum-chemistry Hamiltonians are physically correct.

Deciding monitors (post-conditions on the real ``qp.qchem`` functions; oracle = an independent PySCF calculation (R-CHEM) and Fock-space
matrices written from first principles (R-FOCK, pv/ref/c69_lattice.annihilators)):

* ``ham.hermitian``   all Pauli coefficients of ``molecular_hamiltonian`` are real.
* ``ham.fci``         lowest eigenvalue of H restricted to the (N_e, S_z = 0) sector == PySCF FCI (full space) / CASCI (active space) energy for
                      the same geometry (Bohr), basis, charge and active space: |dE| <= 1e-6 Ha for the differentiable-HF back-end (own integral
                      engine + SCF converged to 1e-8 in the density matrix; observed 1e-10..2e-8), 1e-7 Ha for the pyscf and openfermion back-ends (Pauli coefficients are truncated at 1e-10 resp. 1e-8 by the converters; observed 1e-10..2e-8);
                      number of qubits = 2 x active orbitals.
* ``ham.symmetry``    [H, N] = [H, S_z] = [H, S^2] = 0 with N, S_z, S^2 built from ladder matrices by the harness, and ``particle_number`` /
                      ``spinz`` / ``spin2`` of the repository equal those matrices.
* ``ham.hf``          ``hf_state`` has the documented occupation (active electrons in the lowest spin orbitals) and <HF|H|HF> == PySCF RHF total energy.
* ``excitations``     every single/double excitation of ``qchem.excitations`` goes from occupied to virtual spin orbitals and conserves S_z (delta_sz=0).
* ``taper``           ``symmetry_generators`` commute with H; the tapered Hamiltonian in ``optimal_sector`` has the same ground-state energy as H
                      in the N_e sector (1e-8) and ``taper_hf`` gives the Hartree-Fock energy; other mappings (parity, Bravyi-Kitaev): same spectrum.
"""
import math
import os

import numpy as np

from pv.ctx import fingerprint
from pv.ref.c60_limit import violation as _violation

META = {
    "id": "C62",
    "level": "exploration",
    "technique": "runtime post-conditions on qchem.molecular_hamiltonian / hf_state / excitations / particle_number / spin2 / spinz / taper vs. an "
                 "independent PySCF RHF+FCI/CASCI calculation and first-principles Fock-space matrices",
    "level_text": "Small molecules (H2 in sto-3g and 6-31g, H3+, HeH+, H4 chains/rectangles, LiH and BeH+ with active spaces) at random geometries "
                  "within +-40 % of equilibrium go through all three back-ends (dhf, pyscf, openfermion); the sector ground-state energy, the HF energy, "
                  "symmetries, tapering and excitation lists are compared with independent references; held on the molecules observed.",
    "level_note": "Trusts PySCF (RHF conv_tol 1e-12, FCI/CASCI) and numpy/scipy eigensolvers. Only closed-shell singlets (the dhf and pyscf back-ends "
                  "reject open shells by documentation); basis sets limited to the built-in sto-3g / 6-31g data (no downloads); at most 12 qubits. "
                  "Dipole observables are compared only through the HF expectation value against PySCF's dipole (sign/unit convention: atomic units).",
    "shards": {"quick": 3, "thorough": 16},
    "budget_s": {"quick": 150, "thorough": 600},
    "min_evals": {"quick": 300, "thorough": 2500},
    "deciding": ["ham.hermitian", "ham.fci", "ham.symmetry", "ham.hf", "excitations", "taper"],
    "rule": "case = (molecule, geometry, charge, basis, active space, back-end, mapping); distinct = distinct tuple with geometry bytes; non-trivial = "
            "Hamiltonian with >= 4 qubits (at least two spatial orbitals)",
    "assumptions": ["PySCF RHF/FCI/CASCI energies are correct references", "geometries are passed to PySCF in Bohr, the default unit of qchem.Molecule"],
}

TOL_DHF = 1e-6
TOL_PYSCF = 1e-7


# ----------------------------------------------------------------------------------------------- molecules
def geometry(rng, name):
    """(symbols, coordinates in Bohr, charge, electrons)"""
    s = lambda: float(rng.uniform(0.6, 1.4))  # noqa: E731  +-40 % around equilibrium
    if name == "H2":
        return ["H", "H"], [[0, 0, 0], [0, 0, 1.40 * s()]], 0
    if name == "HeH+":
        return ["He", "H"], [[0, 0, 0], [0, 0, 1.46 * s()]], 1
    if name == "H3+":
        d = 1.65 * s()
        ang = math.radians(float(rng.uniform(40, 100)))
        return ["H", "H", "H"], [[0, 0, 0], [0, 0, d], [0, d * s() * math.sin(ang), d * s() * math.cos(ang)]], 1
    if name == "H4chain":
        d = [1.5 * s() for _ in range(3)]
        return ["H"] * 4, [[0, 0, 0], [0, 0, d[0]], [0, 0, d[0] + d[1]], [0, 0, d[0] + d[1] + d[2]]], 0
    if name == "H4rect":
        a, b = 1.6 * s(), 2.4 * s()
        return ["H"] * 4, [[0, 0, 0], [0, 0, a], [0, b, 0], [0, b, a]], 0
    if name == "LiH":
        return ["Li", "H"], [[0, 0, 0], [0, 0, 3.0 * s()]], 0
    if name == "BeH+":
        return ["Be", "H"], [[0, 0, 0], [0, 0, 2.5 * s()]], 1
    if name == "H2O":
        r, th = 1.81 * float(rng.uniform(0.8, 1.2)), math.radians(float(rng.uniform(95, 115)))
        return ["O", "H", "H"], [[0, 0, 0], [0, r * math.sin(th / 2), r * math.cos(th / 2)], [0, -r * math.sin(th / 2), r * math.cos(th / 2)]], 0
    raise KeyError(name)


def plan(quick):
    """[(molecule, basis, (active_electrons, active_orbitals) or None)]"""
    p = [("H2", "sto-3g", None), ("H2", "6-31g", None), ("HeH+", "sto-3g", None), ("H3+", "sto-3g", None), ("H4chain", "sto-3g", None), ("H4rect", "sto-3g", None),
         ("LiH", "sto-3g", (2, 2)), ("LiH", "sto-3g", (2, 3)), ("LiH", "sto-3g", (4, 4)), ("LiH", "sto-3g", (2, 5)), ("BeH+", "sto-3g", (2, 3)), ("H3+", "sto-3g", (2, 2)),
         ("H4chain", "sto-3g", (2, 2)), ("H4chain", "sto-3g", (2, 3)), ("H4rect", "sto-3g", (4, 3)), ("HeH+", "6-31g", None), ("H2", "6-31g", (2, 3))]
    if not quick:
        p += [("LiH", "sto-3g", None), ("LiH", "sto-3g", (4, 5)), ("H2O", "sto-3g", (4, 4)), ("H2O", "sto-3g", (2, 3)), ("H3+", "6-31g", (2, 4)), ("BeH+", "sto-3g", (4, 4))]
    return p


# ----------------------------------------------------------------------------------------------- matrices
def sparse_from_pauli(terms, n):
    """scipy CSR matrix from [(coeff, {qubit: letter})], action on basis states (first qubit most significant)."""
    import scipy.sparse as sp

    dim = 2**n
    k = np.arange(dim)
    rows, cols, data = [], [], []
    for c, word in terms:
        flip = 0
        ph = np.full(dim, complex(c))
        for p, l in word.items():
            bit = (k >> (n - 1 - p)) & 1
            if l == "X":
                flip |= 1 << (n - 1 - p)
            elif l == "Y":
                flip |= 1 << (n - 1 - p)
                ph = ph * (1j * (1 - 2 * bit))
            elif l == "Z":
                ph = ph * (1 - 2 * bit)
        rows.append(k ^ flip)
        cols.append(k)
        data.append(ph)
    if not rows:
        return sp.csr_matrix((dim, dim), dtype=complex)
    return sp.coo_matrix((np.concatenate(data), (np.concatenate(rows), np.concatenate(cols))), shape=(dim, dim)).tocsr()


def pauli_terms(H, n):
    ps = H.pauli_rep
    if ps is None:
        return None
    out = []
    for pw, c in ps.items():
        word = {}
        for w, l in pw.items():
            if l == "I":
                continue
            wi = int(w)
            if wi != w or not 0 <= wi < n:
                raise KeyError(w)
            word[wi] = l
        out.append((complex(c), word))
    return out


def occupations(n):
    k = np.arange(2**n)
    bits = (k[:, None] >> (n - 1 - np.arange(n))[None, :]) & 1
    return bits


def fock_observables(n):
    """Diagonal N, S_z and dense S^2 on n spin orbitals (even = alpha, odd = beta), from first principles."""
    from pv.ref import c69_lattice as RL

    bits = occupations(n)
    N = bits.sum(axis=1).astype(float)
    Sz = 0.5 * (bits[:, 0::2].sum(axis=1) - bits[:, 1::2].sum(axis=1))
    S2 = None
    if n <= 8:
        A = RL.annihilators(n)
        Ad = [a.conj().T for a in A]
        Sp = sum(Ad[2 * p] @ A[2 * p + 1] for p in range(n // 2))  # S+ = sum_p a^dag_{p alpha} a_{p beta}
        Sm = Sp.conj().T
        S2 = Sm @ Sp + np.diag(Sz * (Sz + 1))
    return N, Sz, S2


def pyscf_reference(symbols, coords, charge, basis, active):
    from pyscf import fci, gto, mcscf, scf

    m = gto.M(atom=[(s, tuple(float(v) for v in x)) for s, x in zip(symbols, coords)], unit="Bohr", basis=basis, charge=charge, spin=0, verbose=0)
    mf = scf.RHF(m)
    mf.conv_tol = 1e-12
    mf.kernel()
    if not mf.converged:
        return None
    # make sure the RHF solution is the aufbau ground state used by everybody (stability is not an issue for these small closed shells)
    if active is None:
        e = fci.FCI(mf).kernel()[0]
        ne, norb = m.nelectron, m.nao
    else:
        ne, norb = active
        mc = mcscf.CASCI(mf, norb, ne)
        mc.verbose = 0
        mc.fcisolver.conv_tol = 1e-12
        e = mc.kernel()[0]
    dip = mf.dip_moment(unit="AU", verbose=0)
    return {"e_hf": float(mf.e_tot), "e_fci": float(e), "ne": int(ne), "norb": int(norb), "nelectron": int(m.nelectron), "nao": int(m.nao), "dipole": np.asarray(dip, dtype=float)}


# ----------------------------------------------------------------------------------------------- one case
def chem_case(ctx, qp, rng, gi, molname, basis, active):
    symbols, coords, charge = geometry(rng, molname)
    if rng.random() < 0.6:
        # energies are invariant under rigid motions, the integral code (p-type functions, Hermite-Coulomb recursions per axis) is not written
        # per axis symmetrically: put the molecule at a generic orientation and origin instead of along z in the y-z plane
        Q, Rr = np.linalg.qr(rng.normal(size=(3, 3)))
        Q = Q * np.sign(np.diag(Rr))
        if np.linalg.det(Q) < 0:
            Q[:, 0] = -Q[:, 0]
        coords = (np.asarray(coords, dtype=float) @ Q.T + rng.uniform(-1.0, 1.0, size=3)).tolist()
    coords = np.array(coords, dtype=float)
    ref = pyscf_reference(symbols, coords, charge, basis, active)
    if ref is None:
        ctx.inconclusive_case(f"PySCF RHF did not converge for {molname}")
        return
    ne, norb = ref["ne"], ref["norb"]
    n = 2 * norb
    info0 = {"molecule": molname, "symbols": symbols, "coordinates_bohr": coords, "charge": charge, "basis": basis, "active": active}
    bits = occupations(n)
    N, Sz, S2 = fock_observables(n)
    sector = np.nonzero((N == ne) & (Sz == 0))[0]
    work = os.path.join(os.path.dirname(os.path.dirname(os.path.dirname(os.path.abspath(__file__)))), "evidence", ".work", "C62", f"of_{ctx.shard}")
    os.makedirs(work, exist_ok=True)
    methods = ["dhf", "pyscf", "openfermion"]
    jw = {}
    for method in methods:
        info = {**info0, "method": method, "mapping": "jordan_wigner"}

        def viol(mon, msg, mech, obs=None, exp=None, info=info):
            _violation(ctx, mon, msg, case=info, mech=mech, observed=obs, expected=exp)

        ctx.case(fingerprint(molname, basis, active, method, coords.round(8).tobytes()), nontrivial=n >= 4, cls=f"{molname}/{basis}/{method}",
                 sample={k: v for k, v in info.items()} if rng.random() < 0.05 else None)
        ae, ao = (active if active is not None else (None, None))
        try:
            mol = qp.qchem.Molecule(symbols, coords, charge=charge, basis_name=basis)
            H, nq = qp.qchem.molecular_hamiltonian(mol, method=method, active_electrons=ae, active_orbitals=ao, outpath=work)
        except Exception as e:  # noqa: BLE001
            ctx.ev("ham.fci")
            viol("ham.fci", f"molecular_hamiltonian({molname}, {basis}, active={active}, method={method}) raised {type(e).__name__}: {str(e)[:200]}",
                 f"raises:{method}:{type(e).__name__}")
            continue
        ctx.ev("ham.fci")
        if int(nq) != n:
            viol("ham.fci", f"{method}: Hamiltonian on {nq} qubits but the active space {active} of {molname}/{basis} has {norb} orbitals = {n} spin orbitals",
                 "pyscf-backend:active-space-ignored-without-core" if (method == "pyscf" and active is not None and active[0] == ref["nelectron"] and int(nq) == 2 * ref["nao"])
                 else f"qubits:{method}", int(nq), n)
            continue
        try:
            terms = pauli_terms(H, n)
        except KeyError as e:
            viol("ham.fci", f"{method}: Hamiltonian acts on unexpected wire {e}", f"wires:{method}")
            continue
        if terms is None:
            ctx.inconclusive_case(f"{method}: Hamiltonian has no pauli_rep")
            continue
        ctx.ev("ham.hermitian")
        imag = max([abs(c.imag) for c, _ in terms] + [0.0])
        if imag > 1e-10:
            viol("ham.hermitian", f"{method}: complex Pauli coefficient (|Im| = {imag:.2e}): Hamiltonian not Hermitian", f"hermitian:{method}")
        Hs = sparse_from_pauli(terms, n)
        jw[method] = Hs
        # ---- symmetries with first-principles N, S_z (diagonal) and S^2
        ctx.ev("ham.symmetry")
        coo = Hs.tocoo()
        nz = np.abs(coo.data) > 1e-6  # Pauli coefficients below 1e-8 / 1e-10 are truncated by the converters: cancellations are exact only to ~1e-8
        if np.any(N[coo.row[nz]] != N[coo.col[nz]]):
            viol("ham.symmetry", f"{method}: H does not conserve the particle number", f"symmetry:N:{method}")
        if np.any(Sz[coo.row[nz]] != Sz[coo.col[nz]]):
            viol("ham.symmetry", f"{method}: H does not conserve S_z", f"symmetry:Sz:{method}")
        if S2 is not None:
            Hd = Hs.toarray()
            c = Hd @ S2 - S2 @ Hd
            if np.max(np.abs(c)) > 1e-6 * max(1.0, np.max(np.abs(Hd))):
                viol("ham.symmetry", f"{method}: [H, S^2] != 0 (max entry {np.max(np.abs(c)):.2e})", f"symmetry:S2:{method}")
        # ---- sector ground state vs FCI / CASCI
        Hsec = Hs[sector][:, sector].toarray()
        e0 = float(np.linalg.eigvalsh((Hsec + Hsec.conj().T) / 2)[0])
        tol = TOL_DHF if method == "dhf" else (TOL_PYSCF if method == "pyscf" else 1e-7)  # openfermion truncates coefficients at 1e-8
        ctx.ev("ham.fci")
        # CASCI energies are not invariant under the residual orbital error of the back-end's own SCF (PySCF default conv_tol 1e-9 inside
        # PennyLane vs 1e-12 here): first-order sensitivity, observed up to 1.1e-8 -> 1e-6; full-space FCI is orbital invariant
        tol_e = tol if active is None else max(tol, 1e-6)
        if abs(e0 - ref["e_fci"]) > tol_e:
            viol("ham.fci", f"{method}: ground-state energy in the (N={ne}, Sz=0) sector {e0:.10f} Ha differs from PySCF {'FCI' if active is None else 'CASCI'} "
                            f"{ref['e_fci']:.10f} Ha by {e0 - ref['e_fci']:+.3e} ({molname}/{basis}, active={active}, charge {charge})", f"fci:{method}", e0, ref["e_fci"])
        # ---- Hartree-Fock state
        ctx.ev("ham.hf")
        hf = np.asarray(qp.qchem.hf_state(ne, n))
        if hf.shape != (n,) or int(hf.sum()) != ne or not np.array_equal(hf, np.array([1] * ne + [0] * (n - ne))):
            viol("ham.hf", f"hf_state({ne}, {n}) = {hf.tolist()} is not the aufbau occupation", "hf_state:occupation")
        else:
            idx = int("".join(map(str, hf.tolist())), 2)
            ehf = float(Hs[idx, idx].real)
            if abs(ehf - ref["e_hf"]) > tol:
                viol("ham.hf", f"{method}: <HF|H|HF> = {ehf:.10f} Ha differs from the PySCF RHF energy {ref['e_hf']:.10f} Ha by {ehf - ref['e_hf']:+.3e} "
                               f"({molname}/{basis}, active={active})", f"hf-energy:{method}", ehf, ref["e_hf"])
    if not jw:
        return
    method0 = "dhf" if "dhf" in jw else next(iter(jw))
    Hs = jw[method0]
    info = {**info0, "method": method0}

    def viol(mon, msg, mech, obs=None, exp=None):
        _violation(ctx, mon, msg, case=info, mech=mech, observed=obs, expected=exp)

    # ---------------- repository observables vs first-principles matrices
    ctx.ev("ham.symmetry")
    try:
        Nop, Szop, S2op = qp.qchem.particle_number(n), qp.qchem.spinz(n), qp.qchem.spin2(ne, n)
        dN = sparse_from_pauli(pauli_terms(Nop, n), n).toarray()
        dSz = sparse_from_pauli(pauli_terms(Szop, n), n).toarray()
        if np.max(np.abs(dN - np.diag(N))) > 1e-9:
            viol("ham.symmetry", f"particle_number({n}) differs from sum_p a_p^dag a_p", "observable:particle_number")
        if np.max(np.abs(dSz - np.diag(Sz))) > 1e-9:
            viol("ham.symmetry", f"spinz({n}) differs from (N_alpha - N_beta)/2", "observable:spinz")
        if S2 is not None:
            dS2 = sparse_from_pauli(pauli_terms(S2op, n), n).toarray()
            # documented: S^2 = 3/4 N + two-body terms with N the NUMBER of electrons, i.e. the total-spin operator of the N-electron sector
            sub = np.nonzero(N == ne)[0]
            if np.max(np.abs(dS2[np.ix_(sub, sub)] - S2[np.ix_(sub, sub)])) > 1e-9:
                viol("ham.symmetry", f"spin2({ne}, {n}) differs from S_- S_+ + S_z (S_z + 1) on the {ne}-electron sector", "observable:spin2")
    except Exception as e:  # noqa: BLE001
        viol("ham.symmetry", f"particle_number/spinz/spin2 raised {type(e).__name__}: {str(e)[:200]}", f"raises:observables:{type(e).__name__}")
    # ---------------- excitations
    ctx.ev("excitations")
    try:
        singles, doubles = qp.qchem.excitations(ne, n)
        occ, virt = set(range(ne)), set(range(ne, n))
        bad = None
        for r, p in singles:
            if r not in occ or p not in virt or (r % 2) != (p % 2):
                bad = ("single", [r, p])
        for ex in doubles:
            s, r, q, p = ex
            if not {s, r} <= occ or not {q, p} <= virt or len({s, r, q, p}) != 4 or ((s % 2) + (r % 2)) != ((q % 2) + (p % 2)):
                bad = ("double", list(ex))
        # completeness: all S_z-conserving occupied->virtual singles and doubles
        exp_s = sum(1 for r in occ for p in virt if r % 2 == p % 2)
        exp_d = sum(1 for s in occ for r in occ if s < r for q in virt for p in virt if q < p and (s % 2 + r % 2) == (q % 2 + p % 2))
        if bad:
            viol("excitations", f"excitations({ne}, {n}) contains a {bad[0]} excitation {bad[1]} that is not occupied->virtual with delta S_z = 0", "excitations:invalid")
        elif len(singles) != exp_s or len(doubles) != exp_d or len({tuple(x) for x in singles}) != len(singles) or len({tuple(x) for x in doubles}) != len(doubles):
            viol("excitations", f"excitations({ne}, {n}): {len(singles)} singles / {len(doubles)} doubles, expected {exp_s} / {exp_d} distinct S_z-conserving ones", "excitations:count")
    except Exception as e:  # noqa: BLE001
        viol("excitations", f"excitations({ne}, {n}) raised {type(e).__name__}: {str(e)[:200]}", f"raises:excitations:{type(e).__name__}")
    # ---------------- tapering (on the dhf Hamiltonian), <= 8 qubits for the dense comparison
    if n <= 8:
        ctx.ev("taper")
        try:
            mol = qp.qchem.Molecule(symbols, coords, charge=charge, basis_name=basis)
            ae, ao = (active if active is not None else (None, None))
            H, _ = qp.qchem.molecular_hamiltonian(mol, method=method0, active_electrons=ae, active_orbitals=ao, outpath=work)
            gens = qp.symmetry_generators(H)
            Hd = Hs.toarray()
            for g in gens:
                G = sparse_from_pauli(pauli_terms(g, n), n).toarray()
                if np.max(np.abs(G @ Hd - Hd @ G)) > 1e-8:
                    viol("taper", "a symmetry generator does not commute with the Hamiltonian", "taper:generator")
                    break
            px = qp.paulix_ops(gens, n)
            sec = qp.qchem.optimal_sector(H, gens, ne)
            Ht = qp.taper(H, gens, px, sec)
            hsec = Hs[sector][:, sector].toarray()
            ew, ev = np.linalg.eigh((hsec + hsec.conj().T) / 2)
            e_ref = float(ew[0])
            # premise of optimal_sector: the sector is read off the Hartree-Fock determinant, so it contains the true ground state only if that
            # state has the same generator eigenvalues as HF (not the case e.g. for near-square H4, where HF and the ground state differ in symmetry)
            gs = np.zeros(2**n, dtype=complex)
            gs[sector] = ev[:, 0]
            hfi0 = int("".join(map(str, [1] * ne + [0] * (n - ne))), 2)
            same_sym = len(ew) == 1 or ew[1] - ew[0] > 1e-6
            hf_vals = []
            for g in gens:
                G = sparse_from_pauli(pauli_terms(g, n), n)
                hv = float(G[hfi0, hfi0].real)
                hf_vals.append(int(round(hv)))
                if abs(float(np.vdot(gs, G @ gs).real) - hv) > 1e-6:
                    same_sym = False
            if [int(x) for x in sec] != hf_vals:
                viol("taper", f"optimal_sector returned {list(sec)} but the Hartree-Fock determinant has generator eigenvalues {hf_vals}", "taper:sector")
            if not same_sym:
                ctx.count("guard:ground_state_not_in_hf_sector")
            if len(Ht.wires):
                Mt = np.asarray(qp.matrix(Ht, wire_order=sorted(Ht.wires)))
                e_t = float(np.linalg.eigvalsh((Mt + Mt.conj().T) / 2)[0])
            else:
                Mt = None
                e_t = float(sum(c.real for c, w in pauli_terms(Ht, n) if not w))
            # the tapered operator is one symmetry block of H: all its eigenvalues are eigenvalues of H, and the block chosen by optimal_sector
            # contains the ground state of the N_e-electron problem (states with N_e +- 2 electrons may share the block, so its minimum can be lower)
            e_all = np.linalg.eigvalsh((Hd + Hd.conj().T) / 2)
            spec_t = np.linalg.eigvalsh((Mt + Mt.conj().T) / 2) if Mt is not None else np.array([e_t])
            if same_sym and np.min(np.abs(spec_t - e_ref)) > 1e-8:
                viol("taper", f"tapered Hamiltonian (sector {list(sec)}) does not contain the N_e={ne} ground energy {e_ref:.10f} (its lowest eigenvalue is {e_t:.10f})",
                     "taper:energy", e_t, e_ref)
            elif max(np.min(np.abs(e_all - x)) for x in spec_t) > 1e-8:
                viol("taper", "tapered Hamiltonian has an eigenvalue that is not an eigenvalue of the original Hamiltonian", "taper:spectrum")
            hf_t = np.asarray(qp.qchem.taper_hf(gens, px, sec, ne, n))
            if Mt is not None and hf_t.shape == (len(Ht.wires),):
                idx = int("".join(map(str, hf_t.tolist())), 2)
                ehf_t = float(Mt[idx, idx].real)
                hfi = int("".join(map(str, [1] * ne + [0] * (n - ne))), 2)
                if abs(ehf_t - float(Hd[hfi, hfi].real)) > 1e-8:
                    viol("taper", f"taper_hf state has energy {ehf_t:.10f} in the tapered Hamiltonian, HF energy is {Hd[hfi, hfi].real:.10f}", "taper:hf", ehf_t, float(Hd[hfi, hfi].real))
        except Exception as e:  # noqa: BLE001
            viol("taper", f"tapering pipeline raised {type(e).__name__}: {str(e)[:200]} ({molname}/{basis}, active={active})", f"raises:taper:{type(e).__name__}")
    # ---------------- other mappings: same spectrum (<= 8 qubits)
    if n <= 8 and rng.random() < 0.6:
        mapping = ["parity", "bravyi_kitaev"][int(rng.integers(2))]
        method = methods[int(rng.integers(3))]
        if method in jw:
            ctx.ev("ham.fci")
            try:
                mol = qp.qchem.Molecule(symbols, coords, charge=charge, basis_name=basis)
                ae, ao = (active if active is not None else (None, None))
                Hm, nq = qp.qchem.molecular_hamiltonian(mol, method=method, active_electrons=ae, active_orbitals=ao, mapping=mapping, outpath=work)
                Mm = sparse_from_pauli(pauli_terms(Hm, n), n).toarray()
                e1 = np.linalg.eigvalsh((Mm + Mm.conj().T) / 2)
                Hj = jw[method].toarray()
                e2 = np.linalg.eigvalsh((Hj + Hj.conj().T) / 2)
                if np.max(np.abs(e1 - e2)) > 1e-8:
                    viol("ham.fci", f"{method} with mapping {mapping}: spectrum differs from the Jordan-Wigner Hamiltonian's (max |dE| = {np.max(np.abs(e1 - e2)):.2e})",
                         f"mapping:{mapping}:{method}")
            except Exception as e:  # noqa: BLE001
                viol("ham.fci", f"{method} with mapping {mapping} raised {type(e).__name__}: {str(e)[:200]}", f"raises:mapping:{mapping}:{type(e).__name__}")
    # ---------------- dipole: HF expectation value vs PySCF (full space only)
    if active is None and n <= 8:
        try:
            mol = qp.qchem.Molecule(symbols, coords, charge=charge, basis_name=basis)
            D = qp.qchem.dipole_moment(mol)()
            hfi = int("".join(map(str, [1] * ne + [0] * (n - ne))), 2)
            vals = []
            for d in D:
                t = pauli_terms(d, n)
                vals.append(float(sparse_from_pauli(t, n)[hfi, hfi].real) if t else 0.0)
            ctx.ev("dipole.hf")
            if np.max(np.abs(np.array(vals) - ref["dipole"])) > 1e-5 and np.max(np.abs(np.array(vals) + ref["dipole"])) > 1e-5:
                ctx.note_add("dipole_mismatch", f"{molname}/{basis}: <HF|D|HF> = {np.round(vals, 6).tolist()} vs PySCF {np.round(ref['dipole'], 6).tolist()}")
        except Exception as e:  # noqa: BLE001
            ctx.note_add("dipole_errors", f"{type(e).__name__}: {str(e)[:120]}")


# ----------------------------------------------------------------------------------------------- driver
def run(ctx):
    import warnings

    import pennylane as qp

    warnings.filterwarnings("ignore")
    work = plan(ctx.quick)
    reps = 2 if ctx.quick else 8
    items = [(m, b, a, r) for r in range(reps) for (m, b, a) in work]
    for k, (molname, basis, active, r) in enumerate(items):
        if k % ctx.nshards != ctx.shard:
            continue
        if not ctx.more():
            return
        gi = k
        if ctx.only_case is not None and gi != ctx.only_case:
            continue
        ctx.case_index = gi
        with ctx.guard("chem", "harness error"):
            chem_case(ctx, qp, ctx.case_rng(gi), gi, molname, basis, active)
