"""C28 — Noisy evolution stays physical and matches the Kraus definition.

Deciding monitors on the REAL code:

* ``kraus.complete`` – post-condition on ``Channel.kraus_matrices()`` / ``compute_kraus_matrices`` of every built-in
  channel class over grids (incl. the endpoints 0 and 1, p0+p1 = 1, T2 <= T1 / T2 > T1 / T2 = 2·T1, tg = 0) and random
  points of the documented parameter domain: Σ K†K = I within 1e-10.
* ``kraus.formula`` – the Choi matrix of the returned Kraus list equals the Choi matrix of the documented Kraus formulas
  (pv/ref/c28_dm.py; ThermalRelaxationError with T2 > T1 is documented by its Choi matrix) within 2e-6.  (Choi, not the
  Kraus list itself: a Kraus list is unique only up to an isometry, and the implementation adds a documented 1e-14
  stabiliser under its square roots.)
* ``dm.kernel`` – post-condition on every ``qubit_mixed.apply_operation`` call made by default.mixed: ρ_out = Σ KρK†
  computed by R-DM with explicit embedding and plain matrix products.
* ``dm.result`` / ``dm.physical`` – results of ``qp.execute([noisy tape], default.mixed)`` (state, density matrices on
  wire subsets, expval, var, probs, purity, entropy, mutual information) equal the R-DM functionals, and every returned
  density matrix is Hermitian, trace one and positive semidefinite (1e-10).
"""
import itertools
import warnings

import numpy as np

from pv.ctx import fingerprint

META = {
    "id": "C28",
    "level": "exploration",
    "technique": "post-conditions on Channel.kraus_matrices (completeness, Choi matrix vs documented formulas) + reference-model differential of default.mixed (every kernel call and every result) against an independent Kraus-sum density-matrix simulator + physicality invariants",
    "level_text": "All ten built-in channel classes over boundary grids and random points; random noisy circuits over 1-5 labelled wires with "
                  "channels (incl. random CPTP QubitChannels from Stinespring dilations), state preparations, broadcast gate parameters and "
                  "permuted device wires executed on the real default.mixed; each kernel call and each result compared with R-DM. Held on the cases observed.",
    "level_note": "Trusts numpy and the transcription of the documented Kraus formulas in pv/ref/c28_dm.py; channels are compared through their Choi "
                  "matrices (tolerance 2e-6 on channel action absorbs the implementation's 1e-14 square-root stabiliser = 1e-7 in an amplitude at the end points; completeness and physicality use 1e-10). Channels with broadcast parameters are "
                  "not generated (no channel documents broadcasting). Unitary gate matrices come from R-GATES (independent fraction reported).",
    "shards": {"quick": 3, "thorough": 9},
    "budget_s": {"quick": 110, "thorough": 180},
    "min_evals": {"quick": 1200, "thorough": 8000},
    "deciding": ["kraus.complete", "kraus.formula", "dm.kernel", "dm.result", "dm.physical"],
    "rule": "case = (channel class, parameter point) or (noisy circuit spec, device wires, interface); distinct = content fingerprint; non-trivial = "
            "channel parameter strictly inside the domain or on a boundary other than the identity channel / circuit whose reference state is mixed (purity < 1 - 1e-6) or entangled",
    "assumptions": ["documented Kraus formulas transcribed faithfully", "Choi matrix with column-major vec identifies a channel"],
}

TOL = 1e-10
# The implementation adds a documented stabiliser of 1e-14 under every square root (ops/channel.py::_SQRT_STABILITY_EPS), i.e. up to
# 1e-7 in a Kraus amplitude at the end points of the domain; comparisons of channel *action* therefore use 2e-6 (stated bound),
# completeness / physicality keep 1e-10.
TOL_ACTION = 2e-6
ALLOWED = ("DeviceError", "DecompositionError", "DecompositionUndefinedError", "WireError")
ONE_PARAM = ["AmplitudeDamping", "PhaseDamping", "DepolarizingChannel", "BitFlip", "PhaseFlip"]
EDGE = [0.0, 1.0, 0.5, 1e-12, 1 - 1e-12, 0.75, 1e-7, 0.25]


# ----------------------------------------------------------------------------- part A: channel table
def channel_points(rng, quick):
    """(name, params, hyper) over grids + random points of the documented domains."""
    pts = []
    nr = 6 if quick else 60
    for name in ONE_PARAM:
        for p in EDGE + [float(x) for x in rng.uniform(0, 1, size=nr)]:
            pts.append((name, [p], {}))
    grid2 = [0.0, 1.0, 0.5, 1e-12, 1 - 1e-12]
    for g, p in itertools.product(grid2, grid2):
        pts.append(("GeneralizedAmplitudeDamping", [g, p], {}))
    for _ in range(nr):
        pts.append(("GeneralizedAmplitudeDamping", [float(rng.uniform(0, 1)), float(rng.uniform(0, 1))], {}))
    for p0, p1 in [(0, 0), (1, 0), (0, 1), (0.5, 0.5), (0.3, 0.7), (1e-12, 0), (0.25, 0.25), (0.999999, 1e-6)]:
        pts.append(("ResetError", [float(p0), float(p1)], {}))
    for _ in range(nr):
        a = float(rng.uniform(0, 1))
        pts.append(("ResetError", [a, float(rng.uniform(0, 1 - a))], {}))
    words = ["X", "Y", "Z", "I", "XY", "ZZ", "IX", "YI", "XYZ", "ZIY", "YYY", "IIZ"] + (["XZYI", "YXIZ"] if not quick else [])
    for w in words:
        for p in [0.0, 1.0, 0.37, 1e-12] + [float(rng.uniform(0, 1))]:
            pts.append(("PauliError", [p], {"operators": w}))
    # thermal relaxation: regimes T2 < T1, T2 = T1, T1 < T2 < 2 T1, T2 = 2 T1; tg = 0 / small / large; pe ends
    for pe in [0.0, 1.0, 0.1, 0.5]:
        for t1, t2 in [(1.2, 0.7), (1.0, 1.0), (1.2, 1.3), (1.0, 2.0), (50.0, 70.0), (1e-3, 1.5e-3), (2.0, 1e-3)]:
            for tg in [0.0, 0.1, 1.0, 25.0]:
                pts.append(("ThermalRelaxationError", [pe, t1, t2, tg], {}))
    for _ in range(nr * 2):
        t1 = float(rng.uniform(0.05, 5))
        t2 = float(rng.uniform(0.02, 2 * t1))
        pts.append(("ThermalRelaxationError", [float(rng.uniform(0, 1)), t1, t2, float(rng.uniform(0, 3))], {}))
    return pts


def build_channel(qp, name, params, hyper, wires, conv=lambda x: x):
    ps = [conv(p) for p in params]
    if name == "PauliError":
        return qp.PauliError(hyper["operators"], ps[0], wires=wires)
    return getattr(qp, name)(*ps, wires=wires)


def trivial_channel(name, params):
    if name == "ThermalRelaxationError":
        return params[3] == 0.0
    if name == "ResetError":
        return params[0] == 0 and params[1] == 0
    if name == "GeneralizedAmplitudeDamping":
        return params[0] == 0
    return params[0] == 0


def check_channel(ctx, qp, D, name, params, hyper, K_real, how, info):
    from pv.ref import c26_ref as R
    Ks = [R._np(k).astype(complex) for k in K_real]
    ctx.ev("kraus.complete")
    d = D.completeness_defect(Ks)
    ok = True
    if not d <= TOL:
        ok = False
        ctx.violation("kraus.complete", f"{name}{params} ({how}): sum K^dagger K deviates from the identity by {d:.3e}", case=info,
                      mech=f"incomplete:{name}" + (":large-t2" if name == "ThermalRelaxationError" and params[2] > params[1] else ""), observed=d)
    ctx.ev("kraus.formula")
    if name == "ThermalRelaxationError" and params[2] > params[1]:
        Cref = D.thermal_choi(*params)
    else:
        Cref = D.choi(D.kraus(name, params, hyper))
    C = D.choi(Ks)
    e = float(np.max(np.abs(C - Cref))) if C.shape == Cref.shape else float("inf")
    if not e <= TOL_ACTION:
        ok = False
        ctx.violation("kraus.formula", f"{name}{params} ({how}): Choi matrix of the returned Kraus operators differs from the documented channel by {e:.3e}",
                      case=info, mech=f"formula:{name}" + (":large-t2" if name == "ThermalRelaxationError" and params[2] > params[1] else ""),
                      observed=C, expected=Cref)
    return ok


def part_channels(ctx, qp, D):
    rng = ctx.stream(3)
    pts = channel_points(rng, ctx.quick)
    conv = interfaces(qp)
    for idx, (name, params, hyper) in enumerate(ctx.my(pts)):
        if not ctx.more():
            break
        nw = len(hyper["operators"]) if name == "PauliError" else 1
        wires = ["a", 3, "q", 0][:nw]
        info = {"channel": name, "params": params, "hyper": hyper}
        ctx.case(fingerprint("chan", name, [round(p, 13) for p in params], sorted(hyper.items())), nontrivial=not trivial_channel(name, params),
                 cls=f"channel:{name}", sample=info)
        try:
            op = build_channel(qp, name, params, hyper, wires)
            K = op.kraus_matrices()
        except Exception as e:  # noqa: BLE001
            ctx.ev("kraus.complete")
            ctx.violation("kraus.complete", f"{name}{params}: kraus_matrices raised {type(e).__name__}: {str(e)[:200]} inside the documented domain",
                          case=info, mech=f"raises:{name}")
            continue
        check_channel(ctx, qp, D, name, params, hyper, K, "op.kraus_matrices()", info)
        # static path + other interfaces (same numbers expected)
        if idx % 3 == 0:
            for iface, cv in conv.items():
                if iface == "numpy":
                    continue
                try:
                    K2 = build_channel(qp, name, params, hyper, wires, cv).kraus_matrices()
                except Exception as e:  # noqa: BLE001
                    ctx.ev("kraus.complete")
                    ctx.violation("kraus.complete", f"{name}{params}: kraus_matrices raised {type(e).__name__}: {str(e)[:160]} with {iface} parameters",
                                  case={**info, "interface": iface}, mech=f"raises:{name}:{iface}")
                    continue
                ctx.cover(f"kraus-iface:{iface}")
                check_channel(ctx, qp, D, name, params, hyper, K2, f"{iface} parameters", {**info, "interface": iface})
    # out-of-domain parameters must be rejected (documented ValueError), never silently accepted
    if ctx.shard == 0:
        bad = [("AmplitudeDamping", [1.2], {}), ("BitFlip", [-0.1], {}), ("PhaseFlip", [1.0000001], {}), ("DepolarizingChannel", [-1e-9], {}),
               ("PhaseDamping", [2.0], {}), ("GeneralizedAmplitudeDamping", [0.5, 1.5], {}), ("ResetError", [0.7, 0.6], {}),
               ("PauliError", [1.3], {"operators": "X"}), ("ThermalRelaxationError", [0.1, 1.0, 2.5, 0.1], {}), ("ThermalRelaxationError", [0.1, 1.0, 0.5, -0.1], {})]
        for name, params, hyper in bad:
            ctx.ev("kraus.domain")
            try:
                build_channel(qp, name, params, hyper, [0]).kraus_matrices()
            except ValueError:
                ctx.count(f"documented_rejection.out-of-domain:{name}")
                continue
            except Exception as e:  # noqa: BLE001
                ctx.note_add("out_of_domain_other_errors", f"{name}{params}: {type(e).__name__}")
                continue
            ctx.note_add("out_of_domain_accepted", f"{name}{params}")
    # QubitChannel: the data are the Kraus operators; non trace-preserving input must be refused
    for j in range(4 if ctx.quick else 30):
        k = int(rng.integers(1, 3))
        Ks = D.random_cptp(rng, k, int(rng.integers(1, 5)))
        info = {"channel": "QubitChannel", "n_kraus": len(Ks), "wires": k}
        ctx.case(fingerprint("qchan", [K.tobytes() for K in Ks]), True, cls="channel:QubitChannel", sample=info)
        op = qp.QubitChannel(Ks, wires=list(range(k)))
        ctx.ev("kraus.complete")
        got = [np.asarray(x) for x in op.kraus_matrices()]
        d = D.completeness_defect(got)
        ctx.ev("kraus.formula")
        e = float(np.max(np.abs(D.choi(got) - D.choi(Ks))))
        if not d <= TOL or not e <= TOL:
            ctx.violation("kraus.formula", f"QubitChannel does not return the Kraus operators it was given (defect {d:.2e}, Choi difference {e:.2e})",
                          case=info, mech="formula:QubitChannel")
        try:
            qp.QubitChannel([1.1 * K for K in Ks], wires=list(range(k)))
            ctx.note_add("non_tp_accepted", f"QubitChannel accepted a non trace-preserving list ({k} wires)")
        except ValueError:
            ctx.count("documented_rejection.non-trace-preserving:QubitChannel")


# ----------------------------------------------------------------------------- part B: noisy circuits
def interfaces(qp):
    from pennylane import numpy as pnp
    conv = {"numpy": lambda x: x, "autograd": lambda x: pnp.array(x, requires_grad=True)}
    try:
        import jax
        import jax.numpy as jnp
        if jax.config.jax_enable_x64:
            conv["jax"] = lambda x: jnp.array(x)
    except Exception:  # noqa: BLE001
        pass
    try:
        import torch
        conv["torch"] = lambda x: torch.tensor(x, dtype=torch.float64)
    except Exception:  # noqa: BLE001
        pass
    return conv


MIXED_ALLOW = ("special", "rot", "d1", "d2", "d3", "d4", "cnot", "mcx", "qu", "diag", "cqu", "multirz", "pcphase", "gphase", "noop", "sym", "paulirot")


def rand_channel_spec(rng, D, wires):
    n = len(wires)
    r = rng.random()
    pick = lambda k: [wires[int(i)] for i in rng.choice(n, size=k, replace=False)]  # noqa: E731
    pv = lambda: float([0.0, 1.0, 1e-9][int(rng.integers(3))]) if rng.random() < 0.15 else float(rng.uniform(0, 1))  # noqa: E731
    if r < 0.5:
        return {"t": "chan", "name": ONE_PARAM[int(rng.integers(len(ONE_PARAM)))], "params": [pv()], "wires": pick(1), "hyper": {}}
    if r < 0.6:
        return {"t": "chan", "name": "GeneralizedAmplitudeDamping", "params": [pv(), pv()], "wires": pick(1), "hyper": {}}
    if r < 0.7:
        a = pv()
        return {"t": "chan", "name": "ResetError", "params": [a, float(rng.uniform(0, 1 - a))], "wires": pick(1), "hyper": {}}
    if r < 0.8:
        k = int(rng.integers(1, min(n, 3) + 1))
        return {"t": "chan", "name": "PauliError", "params": [pv()], "wires": pick(k), "hyper": {"operators": "".join(rng.choice(list("XYZI"), size=k))}}
    if r < 0.9:
        t1 = float(rng.uniform(0.2, 3))
        t2 = float(rng.uniform(0.1, 2 * t1))
        # tg <= 6 T2: the region tg >> T2 with T2 > T1 is exercised (and fails) in the channel table, not here
        return {"t": "chan", "name": "ThermalRelaxationError", "params": [float(rng.uniform(0, 1)), t1, t2, float(rng.uniform(0, min(2, 6 * t2)))], "wires": pick(1), "hyper": {}}
    k = int(rng.integers(1, min(n, 2) + 1))
    return {"t": "qchan", "K": D.random_cptp(rng, k, int(rng.integers(1, 5))), "wires": pick(k)}


def build_ops(qp, gen, specs, conv=lambda x: x):
    out = []
    for s in specs:
        if s["t"] == "chan":
            out.append(build_channel(qp, s["name"], s["params"], s["hyper"], s["wires"]))
        elif s["t"] == "qchan":
            out.append(qp.QubitChannel(s["K"], wires=s["wires"]))
        else:
            out.append(gen.build_op(qp, s, conv))
    return out


def spec_wires(gen, s):
    return list(s["wires"]) if s["t"] in ("chan", "qchan") else gen.spec_wires(s)


def rand_noisy_case(rng, gen, D, quick):
    nw = int(rng.integers(1, 6)) if rng.random() < 0.9 else int(rng.integers(6, 8))
    base = gen.rand_case(rng, nw=nw, n_ops=int(rng.integers(1, 9)), batch_p=0.2, prep_p=0.3, allow=MIXED_ALLOW,
                         meas_kinds=("state", "dm", "expval", "var", "probs", "purity", "vn", "mi"),
                         obs_kinds=("pauli", "sprod", "sum", "lc", "herm", "proj", "id", "hadamard"),
                         dev_wires_mode=["same", "perm", "superset", "same"][int(rng.integers(4))])
    ops = list(base["ops"])
    start = 1 if ops and ops[0]["t"] in ("basis", "prep") else 0
    for _ in range(int(rng.integers(1, 5))):
        pos = int(rng.integers(start, len(ops) + 1))
        ops.insert(pos, rand_channel_spec(rng, D, base["wires"]))
    base["ops"] = ops
    if len(base["dev_wires"]) > 7:
        base["dev_wires"] = list(base["wires"])
    return base


class MixedKernelMonitor:
    def __init__(self, ctx, qp, D):
        self.ctx, self.qp, self.D = ctx, qp, D
        self.active = False
        self.case = None
        self.ind = [0, 0]

    def install(self):
        import sys

        import pennylane.devices.qubit_mixed.apply_operation  # noqa: F401
        import pennylane.devices.qubit_mixed.measure  # noqa: F401
        import pennylane.devices.qubit_mixed.simulate  # noqa: F401
        AO = sys.modules["pennylane.devices.qubit_mixed.apply_operation"]
        self.orig = AO.apply_operation
        for mname in ("pennylane.devices.qubit_mixed.simulate", "pennylane.devices.qubit_mixed.measure"):
            mod = sys.modules[mname]
            if getattr(mod, "apply_operation", None) is self.orig:
                setattr(mod, "apply_operation", self.wrapper)
            else:
                self.ctx.inconclusive_case(f"kernel hook: {mname}.apply_operation is not the dispatcher")

    def wrapper(self, op, state, is_state_batched=False, debugger=None, **kw):
        pre_bs = getattr(op, "batch_size", None) if self.active else None
        out = self.orig(op, state, is_state_batched=is_state_batched, debugger=debugger, **kw)
        if self.active:
            try:
                self.check(op, state, out, bool(is_state_batched), pre_bs)
            except Exception as e:  # noqa: BLE001
                self.ctx.count("kernel.monitor_error")
                self.ctx.note_add("kernel_monitor_errors", f"{type(op).__name__}: {type(e).__name__}: {str(e)[:120]}")
        return out

    def check(self, op, state, out, sb, pre_bs):
        from pv.ref import c26_ref as R
        qp, ctx, D = self.qp, self.ctx, self.D
        name = type(op).__name__
        if qp.math.is_abstract(state) or qp.math.is_abstract(out) or any(qp.math.is_abstract(d) for d in op.data):
            ctx.count("kernel.skipped_abstract")
            return
        if name in ("QubitDensityMatrix", "MidMeasure", "Conditional"):
            ctx.count("kernel.skipped_special")
            return
        S, O = R._np(state), R._np(out)
        n = (S.ndim - int(sb)) // 2
        try:
            bo = R.batch_size_of(op) if name != "QubitChannel" else None
        except R.NoRef:
            bo = None
        Bout = S.shape[0] if sb else bo
        order = list(range(n))
        try:
            refs, ind = [], True
            for b in range(Bout or 1):
                rin = (S[b] if sb else S).reshape(2**n, 2**n)
                rr, fr = D.run([op], order, b if bo is not None else None, init=rin)
                ind &= fr == 1.0
                refs.append(rr.reshape([2] * (2 * n)))
            ref = np.stack(refs) if Bout is not None else refs[0]
        except Exception as e:  # noqa: BLE001
            ctx.count("kernel.noref")
            ctx.note_add("kernel_noref", f"{name}: {type(e).__name__}: {str(e)[:80]}")
            return
        self.ind[0] += bool(ind)
        self.ind[1] += 1
        ctx.ev("dm.kernel")
        fn = self.orig.dispatch(type(op)).__name__
        iface = qp.math.get_interface(state)
        kind = "channel" if hasattr(op, "kraus_matrices") and name not in ("QubitUnitary",) and type(op).__mro__[1].__name__ == "Channel" else "gate"
        ctx.cover(f"kernel:{fn}:{kind}:{min(len(op.wires), 4)}q" + ("+statebatch" if sb else "") + ("+opbatch" if bo else ""))
        ctx.cover(f"kernel-iface:{iface}")
        ok = O.shape == ref.shape
        err = float(np.max(np.abs(O - ref))) if ok else float("inf")
        tol = TOL_ACTION if kind == "channel" else TOL
        if not ok or not err <= tol * max(1.0, float(np.max(np.abs(ref)))):
            mech = f"kernel:{fn}:{name if fn == 'apply_operation' else ''}".rstrip(":")
            if bo is not None and pre_bs is None:
                mech = "batch-size-none:symbolic-op"
            elif name == "Prod":
                mech = "prod-matrix"
            elif bo == 1 and not sb and O.shape == ref.shape[1:]:
                mech = "batch1:default.mixed"  # size-1 broadcast dimension dropped by the kernel
            elif iface == "torch" and err < 1e-5 and single_precision_eigvals(qp, op):
                mech = "precision:torch-complex64-eigvals"
            ctx.violation("dm.kernel", f"qubit_mixed kernel {fn} ({iface}) applied {name} on wires {list(op.wires)} of a {n}-wire density matrix: "
                          f"output differs from sum K rho K^dagger by {err:.3e} (shape {O.shape} vs {ref.shape})",
                          case={"op": name, "wires": list(op.wires), "state_batched": sb, "interface": iface, "spec": self.case}, mech=mech)


def preprocessed_ops(qp, dev, ops, ms):
    """Operators the device really applies (after its own decomposition) — for tagging only."""
    try:
        program, _ = dev.preprocess()
        tapes, _ = program([qp.tape.QuantumScript(ops, ms)])
        return [o for t in tapes for o in t.operations]
    except Exception:  # noqa: BLE001
        return list(ops)


def single_precision_eigvals(qp, op):
    """Mechanism classifier (tagging only): operator with 64-bit torch parameters whose eigvals() come back as complex64."""
    try:
        return "complex64" in str(op.eigvals().dtype)
    except Exception:  # noqa: BLE001
        return False


def reference(qp, gen, D, spec, order):
    from pv.ref import c26_ref as R
    ops = build_ops(qp, gen, spec["ops"])
    ms = gen.build_meas(qp, spec["meas"])
    B = spec["batch"]
    per_b, fr, nontriv = [], [], False
    for b in range(B or 1):
        rho, frac = D.run(ops, order, b if B else None)
        fr.append(frac)
        pur = float(np.real(np.trace(rho @ rho)))
        nontriv |= pur < 1 - 1e-6 or int((np.abs(np.diag(rho)) > 1e-6).sum()) >= 2
        vals = []
        for mp in ms:
            v, ind = R.measure(mp, rho, order, is_dm=True)
            vals.append(np.asarray(v))
        per_b.append(vals)
    ref = [np.stack([per_b[b][k] for b in range(B)]) for k in range(len(ms))] if B else per_b[0]
    return ref, float(np.mean(fr)), bool(nontriv)


def part_circuits(ctx, qp, D):
    from pv.checks import c26 as C26
    from pv.gen import c26_gen as gen
    from pv.ref import c26_ref as R
    mon = MixedKernelMonitor(ctx, qp, D)
    mon.install()
    conv = interfaces(qp)
    N = ctx.n(150, 12000)
    ifaces = ["numpy"] * 12 + ["autograd"] * 3 + ["jax"] * 2 + ["torch"] * 3
    fr_sum = fr_n = 0.0
    for i in range(N):
        if not ctx.more():
            break
        gi = i * ctx.nshards + ctx.shard
        if ctx.only_case is not None and gi != ctx.only_case:
            continue
        ctx.case_index = gi
        rng = ctx.case_rng(gi)
        try:
            spec = rand_noisy_case(rng, gen, D, ctx.quick)
        except Exception as e:  # noqa: BLE001
            ctx.inconclusive_case(f"generator failed: {type(e).__name__}: {e}")
            continue
        iface = ifaces[int(rng.integers(len(ifaces)))]
        if iface not in conv:
            iface = "numpy"
        order = spec["dev_wires"]
        desc = gen.describe(spec)
        info = {"spec": desc, "interface": iface, "case_index": gi}
        mon.case = desc
        try:
            ref, frac, nontriv = reference(qp, gen, D, spec, order)
        except Exception as e:  # noqa: BLE001
            ctx.inconclusive_case(f"reference failed: {type(e).__name__}: {e}")
            continue
        fr_sum += frac
        fr_n += 1
        ctx.case(fingerprint(repr(desc), [np.asarray(p).tobytes() for s in spec["ops"] for p in s.get("params", [])], iface), nontrivial=nontriv,
                 cls=f"circuit-iface:{iface}", sample=info)
        for s in spec["ops"]:
            ctx.cover("op:" + (s.get("name") or s["t"]))
        ops = build_ops(qp, gen, spec["ops"], conv[iface])
        ms = gen.build_meas(qp, spec["meas"])
        dev = qp.device("default.mixed", wires=spec["dev_wires"])

        memo = {}

        def retag(mech, spec=spec, info=info, memo=memo, iface=iface, ops=ops, ms=ms, dev=dev):
            if "m" not in memo:
                memo["m"] = None
                unit = {**spec, "ops": [s for s in spec["ops"] if s["t"] not in ("chan", "qchan")]}
                if spec["batch"] == 1:
                    memo["m"] = "batch1:default.mixed"
                elif iface == "torch" and (mech.startswith("unphysical") or mech.startswith("result")) and any(single_precision_eigvals(qp, o) for o in preprocessed_ops(qp, dev, ops, ms)):
                    memo["m"] = "precision:torch-complex64-eigvals"
                elif C26.stale_batch_ops(qp, unit):
                    memo["m"] = "batch-size-none:symbolic-op"
                else:
                    bp = C26.bad_prods(qp, unit, conv.get(iface) if iface != "numpy" else None)
                    if bp:
                        memo["m"] = "prod-matrix:" + bp[0][0] + (f":{iface}" if bp[0][0] == "interface-cast" else "")
            return memo["m"] or mech

        mon.active = True
        try:
            res = qp.execute([qp.tape.QuantumScript(ops, ms)], dev, diff_method="backprop" if iface != "numpy" else None)[0]
        except Exception as e:  # noqa: BLE001
            mon.active = False
            en = type(e).__name__
            if en in ALLOWED:
                ctx.reject(en)
                ctx.note_add("rejection_messages", f"case {gi}: {en}: {str(e)[:140]}")
                continue
            ctx.ev("dm.result")
            ctx.violation("dm.result", f"default.mixed raised {en}: {str(e)[:300]} on a noisy circuit of supported operations ({iface})", case=info,
                          mech=retag(f"raises:{en}:{iface}:{'batch' if spec['batch'] else 'nobatch'}"))
            continue
        finally:
            mon.active = False
        # entropies of nearly-pure states amplify the 1e-7 end-point stabiliser (-x log x): stated bound 2e-5 for vn / mutual information
        C26.compare(ctx, "dm.result", res, ref, spec, info, f"default.mixed[{iface}]", retag, tol=TOL_ACTION)
        # physicality of every returned density matrix
        rr = (res,) if len(ms) == 1 else res
        for k, m in enumerate(spec["meas"]):
            if m["m"] not in ("state", "dm"):
                continue
            try:
                A = R._np(rr[k])
            except Exception:  # noqa: BLE001
                continue
            mats = A if spec["batch"] and A.ndim == 3 else [A]
            for M in mats:
                ctx.ev("dm.physical")
                defects = D.physical_defects(M)
                if defects:
                    ctx.violation("dm.physical", f"default.mixed[{iface}] returned an unphysical density matrix for measurement {k} ({m['m']}): " + "; ".join(defects),
                                  case=info, mech=retag("unphysical:" + defects[0].split(" (")[0].split(" ")[0] + ":" + m["m"]), observed=M)
                    break
    if fr_n:
        ctx.note("independent_fraction_results", round(fr_sum / fr_n, 4))
    if mon.ind[1]:
        ctx.note("independent_fraction_kernel_refs", round(mon.ind[0] / mon.ind[1], 4))


def run(ctx):
    import pennylane as qp

    from pv.ref import c28_dm as D

    warnings.filterwarnings("ignore")
    if ctx.only_case is None:
        part_channels(ctx, qp, D)
    part_circuits(ctx, qp, D)
