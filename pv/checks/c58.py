"""C58 — Block-encoding, oracle and algorithm templates implement their operators.

Deciding monitor ``tmpl.matrix``: for every template instance the matrix obtained from the real code — ``qp.matrix(op, wire_order)``
(path ``matrix``), the product of the operations queued by every applicable registered decomposition rule (``rule:<name>``) and
``op.decomposition()`` (``decomposition``) — is compared with a numpy reference written from the documented definition:

Select = Σ|i><i|⊗U_i (identity on unused control values) · SelectPauliRot = Σ|i><i|⊗R_axis(θ_i) · QROM|i>|0>|work=0> = |i>|b_i>|work=0> ·
QFT = DFT matrix · AQFT = QFT circuit with at most ``order`` controlled phase shifts per qubit · Permute = tensor transposition ·
FlipSign = I − 2|n><n| · Reflection = −I + (1 − e^{iα}) U P₀ U† · GroverOperator = 2|s><s| − I · AmplitudeAmplification =
(Reflection·O)^iters · ControlledSequence = Π_k C_k(U^{2^{n−1−k}}) · QuantumPhaseEstimation on eigenstates with t-bit phases reads the
phase exactly · PrepSelPrep: ⟨0|·|0⟩ block = H/λ · Qubitization = Prep†·Sel·Prep·(2|0><0|−I) (block H/λ, unitary, spectrum
e^{±i arccos(E/λ)}) · BlockEncode = documented 2×2 block matrix (top-left = A) · FABLE: 2^s·Re(top-left block) = A within tol ·
TrotterProduct = [S_m(t/n)]^n (product formula written independently; order 1 accepted in either factor order) ·
ApproxTimeEvolution = [Π_j e^{−i c_j P_j t/n}]^n · CommutingEvolution = e^{−iHt} · QSVT (qp.qsvt) block = P(A).
"""
import itertools

import numpy as np

from pv.ctx import fingerprint

META = {
    "id": "C58",
    "level": "exploration",
    "technique": "post-condition on qp.matrix(template) and on the matrices of its registered decomposition rules vs. numpy references "
                 "built from the documented definitions (reference-model monitor)",
    "level_text": "Random unitaries lists, data tables, Pauli-sum Hamiltonians, angles, polynomials, iteration counts and wire layouts "
                  "(incl. work wires and odd labels) are fed to each template; the dense matrix of the template and of each of its "
                  "decomposition rules is compared with a directly constructed reference (exactly, or within the documented bound for "
                  "FABLE with tol>0 / QSVT angle solving); held on the instances observed.",
    "level_note": "Trusts numpy/scipy (expm, sqrtm) and the gate table pv/ref/gates.py for the sub-operators. Dense comparison limits "
                  "instances to <= 9 wires. Not covered (listed): QDrift (random product, no deterministic operator), QuantumMonteCarlo, "
                  "GQSP, BasisRotation (generator formula in the docstring is ambiguous about the index range), HilbertSchmidt, "
                  "fixed-point AmplitudeAmplification, QRAM variants, qchem templates.",
    "shards": {"quick": 3, "thorough": 16},
    "budget_s": {"quick": 100, "thorough": 480},
    "min_evals": {"quick": 400, "thorough": 8000},
    "min_nontrivial": {"quick": 80, "thorough": 1000},
    "deciding": ["tmpl.matrix"],
    "rule": "case = (template, hyper-parameters, wire layout); one evaluation = one (case, path); distinct = distinct (template, rounded "
            "parameters); non-trivial = reference differs from the identity",
    "assumptions": ["references transcribe the docstrings"],
}

TOL = 1e-8


def labels(r, n, avoid=()):
    style = r.random()
    if style < 0.4:
        pool = list(range(24))
    elif style < 0.75:
        pool = [int(x) for x in r.permutation(24)]
    else:
        pool = [f"w{int(x)}" if x % 2 else int(x) for x in r.permutation(24)]
    pool = [p for p in pool if p not in avoid]
    return pool[:n]


def dft(n):
    N = 2**n
    j, k = np.meshgrid(np.arange(N), np.arange(N), indexing="ij")
    return np.exp(2j * np.pi * j * k / N) / np.sqrt(N)


def run(ctx):
    import warnings

    import pennylane as qp
    import scipy.linalg as sla
    from pennylane.decomposition.utils import _get_decomp_args

    from pv.ref import bridge, gates as G, sv

    warnings.filterwarnings("ignore")
    from pv.ref.c53_limit import limit_repeats
    limit_repeats(ctx)
    PAULI = {"I": np.eye(2, dtype=complex), "X": G.X, "Y": G.Y, "Z": G.Z}

    def rule_name(rule):
        for attr in ("name", "__name__"):
            v = getattr(rule, attr, None)
            if isinstance(v, str):
                return v
        return getattr(getattr(rule, "_impl", None), "__name__", repr(rule)[:40])

    def rand_op(r, wires):
        """small operator on a subset of `wires` with a tabulated matrix; returns (op, matrix on op.wires)."""
        k = int(r.integers(0, 8))
        w = [wires[int(i)] for i in r.permutation(len(wires))]
        th = float(r.uniform(-np.pi, np.pi))
        if k == 0:
            op = qp.RX(th, wires=w[0])
        elif k == 1:
            op = qp.RY(th, wires=w[0])
        elif k == 2:
            op = qp.RZ(th, wires=w[0])
        elif k == 3:
            op = [qp.X, qp.Y, qp.Z, qp.Hadamard, qp.S, qp.T][int(r.integers(0, 6))](wires=w[0])
        elif k == 4 and len(w) >= 2:
            op = [qp.CNOT, qp.CZ, qp.SWAP][int(r.integers(0, 3))](wires=w[:2])
        elif k == 5 and len(w) >= 2:
            op = qp.IsingXX(th, wires=w[:2])
        elif k == 6:
            op = qp.PhaseShift(th, wires=w[0])
        else:
            op = qp.Rot(th, float(r.uniform(-3, 3)), float(r.uniform(-3, 3)), wires=w[0])
        M, _ = bridge.op_matrix(op)
        return op, np.asarray(M, dtype=complex)

    def full(M, opw, order):
        return sv.embed(M, list(opw), list(order))

    def pauli_word_matrix(word, order):
        M = np.ones((1, 1), dtype=complex)
        for w in order:
            M = np.kron(M, PAULI[word.get(w, "I")])
        return M

    def rand_pauli_ham(r, wires, nterms, commuting=False):
        """list of (coeff, word dict) with distinct words; qp operator built from it."""
        words, tries = [], 0
        while len(words) < nterms and tries < 200:
            tries += 1
            if commuting:
                letters = "Z" if r.random() < 0.8 else "I"
                w = {x: "Z" for x in wires if r.random() < 0.6}
            else:
                w = {x: "XYZ"[int(r.integers(0, 3))] for x in wires if r.random() < 0.6}
            if w and w not in words:
                words.append(w)
        coeffs = [float(np.round(r.uniform(-1.5, 1.5), 3)) or 0.5 for _ in words]
        ops = []
        for w in words:
            fs = [getattr(qp, l)(x) for x, l in w.items()]
            ops.append(fs[0] if len(fs) == 1 else qp.prod(*fs))
        return coeffs, words, ops

    # ------------------------------------------------------------------ generic comparison engine
    def compare(name, op_fn, order, ref, info, block=None, tol=TOL, phase_free=False, nontrivial=True, scale=1.0, real_block=False,
                skip_rules=False, classifier=None, work=()):
        """ref: full matrix on `order` (block=None) or the top-left block (block=dim) that must equal scale*M[:dim,:dim]."""
        info = {"template": name, **info, "wire_order": [str(w) for w in order]}
        if len(order) > 9:
            ctx.count(f"skipped_too_wide:{name}")
            return None
        ctx.case(fingerprint(name, sorted((k, repr(v)) for k, v in info.items() if k != "wire_order"), np.round(np.asarray(ref), 8)),
                 nontrivial=nontrivial, cls=name, sample=info)
        try:
            op = op_fn()
        except Exception as e:  # noqa: BLE001
            ctx.violation("tmpl.matrix", f"{name}: constructor raised {type(e).__name__}: {str(e)[:300]}", case=info, mech=f"ctor:{name}:{type(e).__name__}")
            return None

        def judge(M, path):
            ctx.ev("tmpl.matrix")
            M = np.asarray(M, dtype=complex)
            dimN = 2 ** len(order)
            if M.shape != (dimN, dimN):
                ctx.violation("tmpl.matrix", f"{name} [{path}]: matrix has shape {M.shape}, expected {(dimN, dimN)}", case={**info, "path": path},
                              mech=f"shape:{name}:{path.split('#')[0]}")
                return
            if block is None:
                A, R = M, ref
                if work:
                    # work wires are only specified for |0> inputs: compare the columns with all work wires in |0>
                    pos = [list(order).index(x) for x in work]
                    n_ = len(order)
                    cols = [c for c in range(dimN) if all(((c >> (n_ - 1 - p_)) & 1) == 0 for p_ in pos)]
                    A, R = M[:, cols], np.asarray(ref)[:, cols]
            else:
                A = scale * M[:block, :block]
                if real_block:
                    A = A.real
                R = ref
            err = float(np.max(np.abs(A - R)))
            why = "value"
            if err > tol and (phase_free or True):
                ov = np.vdot(R.reshape(-1), A.reshape(-1))
                ph = ov / abs(ov) if abs(ov) > 1e-12 else 1.0
                err_ph = float(np.max(np.abs(A - ph * R)))
                if err_ph <= tol:
                    why = "global-phase"
                    if phase_free:
                        err = err_ph
            if err > tol:
                mech = classifier(path, why) if classifier else None
                ctx.violation("tmpl.matrix", f"{name} [{path}]: matrix differs from the documented operator by {err:.3e} ({why}; tolerance {tol:.1e})",
                              case={**info, "path": path}, observed=A, expected=R, mech=mech or f"{why}:{name}:{path.split('#')[0]}")
                return
            if True:
                # unitarity of the full matrix
                if np.max(np.abs(M.conj().T @ M - np.eye(dimN))) > 1e-7:
                    ctx.violation("tmpl.matrix", f"{name} [{path}]: matrix is not unitary", case={**info, "path": path}, mech=f"nonunitary:{name}:{path.split('#')[0]}")

        def attempt(path, fn):
            try:
                M = fn()
            except Exception as e:  # noqa: BLE001
                msg = str(e)
                if "DynamicWire" in msg or "dynamic" in msg.lower() or "Allocat" in type(e).__name__ or "allocat" in msg.lower():
                    ctx.count(f"skipped_dynamic_wires:{name}:{path.split('#')[0]}")
                    return
                mech = classifier(path, f"raise:{type(e).__name__}") if classifier else None
                ctx.violation("tmpl.matrix", f"{name} [{path}]: raised {type(e).__name__}: {msg[:300]}", case={**info, "path": path},
                              mech=mech or f"raise:{name}:{path.split('#')[0]}:{type(e).__name__}")
                return
            ctx.cover(f"{name}:{path.split('#')[0]}")
            judge(M, path)

        attempt("matrix", lambda: qp.matrix(op, wire_order=list(order)))
        if not skip_rules:
            try:
                rules = list(qp.list_decomps(op))
                params, args, kwargs = _get_decomp_args(op)
            except Exception:  # noqa: BLE001
                rules = []
            for rule in rules:
                try:
                    if not rule.is_applicable(**params):
                        continue
                except Exception:  # noqa: BLE001
                    pass

                def rule_matrix(rule=rule):
                    with qp.queuing.AnnotatedQueue() as q:
                        rule(*args, **kwargs)
                    tape = qp.tape.QuantumScript.from_queue(q)
                    return qp.matrix(tape, wire_order=list(order))

                attempt(f"rule:{rule_name(rule)}", rule_matrix)
            if getattr(op, "has_decomposition", False):
                attempt("decomposition", lambda: qp.matrix(qp.tape.QuantumScript(op.decomposition()), wire_order=list(order)))
        return op

    # ------------------------------------------------------------------ cases
    def c_qft(r):
        n = int(r.integers(1, 6))
        w = labels(r, n)
        compare("QFT", lambda: qp.QFT(wires=w), w, dft(n), {"n": n})

    def c_aqft(r):
        n = int(r.integers(2, 6))
        order_ = int(r.integers(1, n + 1))
        w = labels(r, n)
        # standard QFT circuit, at most `order_` controlled phase shifts per qubit (the largest angles), then bit reversal
        U = np.eye(2**n, dtype=complex)
        pos = list(range(n))
        for i in range(n):
            U = full(G.H, [i], pos) @ U
            for k, j in enumerate(range(i + 1, n)):
                if k >= order_:
                    break
                ph = np.diag([1, 1, 1, np.exp(2j * np.pi / 2 ** (k + 2))])
                U = full(ph, [j, i], pos) @ U
        for i in range(n // 2):
            U = full(G.ref_matrix("SWAP", [], 2, {}), [i, n - 1 - i], pos) @ U
        compare("AQFT", lambda: qp.AQFT(order=order_, wires=w), w, U, {"n": n, "order": order_})

    def c_permute(r):
        n = int(r.integers(2, 6))
        w = labels(r, n)
        perm = [w[int(i)] for i in r.permutation(n)]
        # output wire w[i] carries what was on wire perm[i]:  out[a_0..a_{n-1}] = in[b], b[index(perm[i])] = a_i
        dim = 2**n
        P = np.zeros((dim, dim), dtype=complex)
        for idx in range(dim):
            b = [(idx >> (n - 1 - q)) & 1 for q in range(n)]       # input bits on wires w
            a = [b[w.index(perm[i])] for i in range(n)]             # output bits on wires w
            P[int("".join(map(str, a)), 2), idx] = 1
        compare("Permute", lambda: qp.Permute(perm, wires=w), w, P, {"perm": [str(x) for x in perm], "wires": [str(x) for x in w]},
                nontrivial=perm != w)

    def c_flipsign(r):
        n = int(r.integers(1, 6))
        w = labels(r, n)
        k = int(r.integers(0, 2**n))
        D = np.eye(2**n, dtype=complex)
        D[k, k] = -1
        arg = k if r.random() < 0.5 else [(k >> (n - 1 - q)) & 1 for q in range(n)]
        compare("FlipSign", lambda: qp.FlipSign(arg, wires=w), w, D, {"n": n, "state": k, "as_int": isinstance(arg, int)})

    def c_grover(r):
        n = int(r.integers(2, 6))
        w = labels(r, n)
        nwork = int(r.integers(0, 3))
        ww = labels(r, nwork, avoid=w)
        s = np.ones(2**n) / np.sqrt(2**n)
        Gm = 2 * np.outer(s, s) - np.eye(2**n)
        order = w + ww
        compare("GroverOperator", lambda: qp.GroverOperator(wires=w, work_wires=ww or None), order, full(Gm, w, order), {"n": n, "nwork": nwork}, work=ww)

    def prep_unitary(r, w):
        """state-preparation operator U with a known matrix (product of a few tabulated ops)."""
        ops, M = [], np.eye(2 ** len(w), dtype=complex)
        for _ in range(int(r.integers(1, 4))):
            o, m = rand_op(r, w)
            ops.append(o)
            M = full(m, o.wires, w) @ M
        for x in w:  # make sure every wire is touched so that U.wires == w (as a set)
            if all(x not in o.wires for o in ops):
                th = float(r.uniform(-3, 3))
                ops.append(qp.RY(th, wires=x))
                M = full(G.ref_matrix("RY", [th], 1, {}), [x], w) @ M
        U = qp.prod(*ops[::-1]) if len(ops) > 1 else ops[0]
        return U, M

    def c_reflection(r):
        n = int(r.integers(1, 4))
        w = labels(r, n)
        U, M = prep_unitary(r, w)
        alpha = float(r.choice([np.pi, r.uniform(-np.pi, np.pi), np.pi / 2]))
        uw = list(U.wires)
        Mu = full(M, w, uw)
        sub = None
        if n >= 2 and r.random() < 0.4:
            kk = int(r.integers(1, n))
            sub = [uw[int(i)] for i in sorted(r.permutation(n)[:kk])]
        rw = sub or uw
        P0 = np.zeros((2 ** len(rw), 2 ** len(rw)), dtype=complex)
        P0[0, 0] = 1
        P0f = full(P0, rw, uw)
        R = -np.eye(2**n) + (1 - np.exp(1j * alpha)) * (Mu @ P0f @ Mu.conj().T)
        kw = {} if sub is None else {"reflection_wires": sub}
        compare("Reflection", lambda: qp.Reflection(U, alpha, **kw), uw, R, {"n": n, "alpha": alpha, "reflection_wires": None if sub is None else [str(x) for x in sub]})

    def c_ampamp(r):
        n = int(r.integers(1, 4))
        w = labels(r, n)
        U, M = prep_unitary(r, w)
        uw = list(U.wires)
        Mu = full(M, w, uw)
        k = int(r.integers(0, 2**n))
        O = qp.FlipSign(k, wires=uw)
        D = np.eye(2**n, dtype=complex)
        D[k, k] = -1
        iters = int(r.integers(1, 4))
        P0 = np.zeros((2**n, 2**n), dtype=complex)
        P0[0, 0] = 1
        R = -np.eye(2**n) + 2 * (Mu @ P0 @ Mu.conj().T)
        step = R @ D
        ref = np.linalg.matrix_power(step, iters)
        compare("AmplitudeAmplification", lambda: qp.AmplitudeAmplification(U, O, iters=iters), uw, ref, {"n": n, "iters": iters, "marked": k},
                phase_free=True)

    def c_select(r):
        nc = int(r.integers(1, 4))
        nt = int(r.integers(1, 3))
        cw = labels(r, nc)
        tw = labels(r, nt, avoid=cw)
        K = int(r.integers(1, 2**nc + 1))
        ops, mats = [], []
        for _ in range(K):
            o, m = rand_op(r, tw)
            ops.append(o)
            mats.append(full(m, o.wires, tw))
        nwork = int(r.integers(0, 3))
        ww = labels(r, nwork, avoid=cw + tw)
        order = cw + tw + ww
        dimt = 2**nt
        S = np.zeros((2**nc * dimt, 2**nc * dimt), dtype=complex)
        for i in range(2**nc):
            S[i * dimt:(i + 1) * dimt, i * dimt:(i + 1) * dimt] = mats[i] if i < K else np.eye(dimt)
        # some target wires may be untouched by all ops: the template then has fewer wires – compare on the full order anyway
        compare("Select", lambda: qp.Select(ops, control=cw, work_wires=ww or None), order, full(S, cw + tw, order),
                {"nc": nc, "nt": nt, "K": K, "ops": [o.name for o in ops], "nwork": nwork}, work=ww)

    def c_select_pauli_rot(r):
        nc = int(r.integers(0, 4))
        cw = labels(r, nc)
        tw = labels(r, 1, avoid=cw)
        axis = "XYZ"[int(r.integers(0, 3))]
        ang = r.uniform(-2 * np.pi, 2 * np.pi, size=2**nc)
        zmask = r.random()
        if zmask < 0.25:
            ang[r.permutation(2**nc)[: max(1, 2**nc // 2)]] = 0.0
        elif zmask < 0.35:
            ang[:] = 0.0
        order = cw + tw
        S = np.zeros((2 ** (nc + 1), 2 ** (nc + 1)), dtype=complex)
        for i in range(2**nc):
            S[2 * i:2 * i + 2, 2 * i:2 * i + 2] = G.ref_matrix("R" + axis, [float(ang[i])], 1, {})

        def cls(path, why):
            if why.startswith("raise:") and np.all(ang == 0.0):
                return "SelectPauliRot:all-zero-angles-raises"
            return None

        compare("SelectPauliRot", lambda: qp.SelectPauliRot(ang, control_wires=cw, target_wire=tw[0], rot_axis=axis), order, S,
                {"nc": nc, "axis": axis, "angles": ang.tolist()}, nontrivial=bool(np.any(ang != 0)), classifier=cls)

    def c_qrom(r):
        nc = int(r.integers(1, 4))
        nt = int(r.integers(1, 3))
        K = int(r.integers(1, 2**nc + 1))
        data = [int(x) for x in r.integers(0, 2**nt, size=K)]
        bitstrings = [format(x, f"0{nt}b") for x in data]
        cw = labels(r, nc)
        tw = labels(r, nt, avoid=cw)
        nwork = int(r.choice([0, 0, nt, 2 * nt]))
        if nc + nt + nwork > 8:
            nwork = nt
        ww = labels(r, nwork, avoid=cw + tw)
        clean = bool(r.random() < 0.7)
        order = cw + tw + ww
        info = {"nc": nc, "nt": nt, "K": K, "data": data, "nwork": nwork, "clean": clean}
        ctx.case(fingerprint("QROM", sorted(info.items(), key=str)), nontrivial=any(data), cls="QROM", sample=info)
        try:
            op = qp.QROM(bitstrings, control_wires=cw, target_wires=tw, work_wires=ww or None, clean=clean)
        except Exception as e:  # noqa: BLE001
            ctx.violation("tmpl.matrix", f"QROM: constructor raised {type(e).__name__}: {str(e)[:200]}", case=info, mech=f"ctor:QROM:{type(e).__name__}")
            return
        paths = {"matrix": lambda: qp.matrix(op, wire_order=order)}
        try:
            params, args, kwargs = _get_decomp_args(op)
            for rule in qp.list_decomps(op):
                if rule.is_applicable(**params):
                    def rm(rule=rule):
                        with qp.queuing.AnnotatedQueue() as q:
                            rule(*args, **kwargs)
                        return qp.matrix(qp.tape.QuantumScript.from_queue(q), wire_order=order)
                    paths[f"rule:{rule_name(rule)}"] = rm
        except Exception:  # noqa: BLE001
            pass
        for path, fn in paths.items():
            try:
                M = np.asarray(fn())
            except Exception as e:  # noqa: BLE001
                ctx.violation("tmpl.matrix", f"QROM [{path}]: raised {type(e).__name__}: {str(e)[:200]}", case={**info, "path": path},
                              mech=f"raise:QROM:{path}:{type(e).__name__}")
                continue
            ctx.ev("tmpl.matrix")
            ctx.cover(f"QROM:{path}")
            N = len(order)
            for i in range(K):
                col = M[:, i << (N - nc)]
                want_ct = (i << nt) | data[i]
                if clean or not ww:
                    amp = col[want_ct << nwork]
                    ok = abs(amp - 1) < 1e-8
                else:
                    # clean=False: work wires may be altered; index and target registers must hold |i>|b_i> with total probability 1
                    p = np.abs(col.reshape(2 ** (nc + nt), 2**nwork)) ** 2
                    ok = abs(p[want_ct].sum() - 1) < 1e-8
                if not ok:
                    ctx.violation("tmpl.matrix", f"QROM [{path}]: |{i}>|0> is not mapped to |{i}>|{bitstrings[i]}>" + (" with clean work wires" if clean else ""),
                                  case={**info, "path": path, "index": i}, mech=f"value:QROM:{path.split('#')[0]}:{'clean' if clean else 'dirty'}")
                    break

    def c_ctrlseq(r):
        nc = int(r.integers(1, 4))
        nt = int(r.integers(1, 3))
        cw = labels(r, nc)
        tw = labels(r, nt, avoid=cw)
        base, m = rand_op(r, tw)
        bw = list(base.wires)
        order = cw + bw
        dimt = 2 ** len(bw)
        U = np.eye(2 ** len(order), dtype=complex)
        for k, c in enumerate(cw):
            P = np.linalg.matrix_power(m, 2 ** (nc - 1 - k))
            C = np.eye(2 * dimt, dtype=complex)
            C[dimt:, dimt:] = P
            U = full(C, [c] + bw, order) @ U
        compare("ControlledSequence", lambda: qp.ControlledSequence(base, control=cw), order, U, {"nc": nc, "base": base.name})

    def c_qpe(r):
        t = int(r.integers(1, 5))
        nt = int(r.integers(1, 3))
        ew = labels(r, t)
        tw = labels(r, nt, avoid=ew)
        ks = [int(x) for x in r.integers(0, 2**t, size=2**nt)]
        diag = np.exp(2j * np.pi * np.array(ks) / 2**t)
        Umat = np.diag(diag)
        j = int(r.integers(0, 2**nt))
        info = {"t": t, "nt": nt, "phases_k": ks, "eigenstate": j}
        ctx.case(fingerprint("QPE", t, nt, ks, j), nontrivial=ks[j] != 0, cls="QuantumPhaseEstimation", sample=info)
        try:
            dev = qp.device("default.qubit", wires=ew + tw)
            bits = [(j >> (nt - 1 - q)) & 1 for q in range(nt)]
            unitary = qp.QubitUnitary(Umat, wires=tw) if r.random() < 0.5 else qp.DiagonalQubitUnitary(diag, wires=tw)
            tape = qp.tape.QuantumScript([qp.BasisState(np.array(bits), wires=tw), qp.QuantumPhaseEstimation(unitary, estimation_wires=ew)],
                                         [qp.probs(wires=ew)])
            p = np.asarray(qp.execute([tape], dev)[0]).reshape(-1)
        except Exception as e:  # noqa: BLE001
            ctx.violation("tmpl.matrix", f"QuantumPhaseEstimation raised {type(e).__name__}: {str(e)[:200]}", case=info, mech=f"raise:QPE:{type(e).__name__}")
            return
        ctx.ev("tmpl.matrix")
        ctx.cover("QuantumPhaseEstimation:native")
        if abs(p[ks[j]] - 1) > 1e-8:
            ctx.violation("tmpl.matrix", f"QPE: eigenphase {ks[j]}/2^{t} is read as {int(np.argmax(p))} with probability {p.max():.4f}", case=info,
                          mech="value:QuantumPhaseEstimation")

    def lcu_case(r):
        nsys = int(r.integers(1, 3))
        sw = labels(r, nsys)
        K = int(r.integers(2, 6))
        coeffs, words, ops = rand_pauli_ham(r, sw, K)
        K = len(words)
        if K < 2:
            return None
        if r.random() < 0.3:
            coeffs = [abs(c) for c in coeffs]
        nc = max(1, int(np.ceil(np.log2(K))))
        cw = labels(r, nc, avoid=sw)
        H = sum(c * pauli_word_matrix(w, sw) for c, w in zip(coeffs, words))
        lam = sum(abs(c) for c in coeffs)
        return sw, cw, coeffs, words, ops, H, lam

    def c_prepselprep(r):
        got = lcu_case(r)
        if got is None:
            return
        sw, cw, coeffs, words, ops, H, lam = got
        order = cw + sw
        form = int(r.integers(0, 2))
        if r.random() < 0.35:
            # complex LCU coefficients: the block is still sum_k c_k U_k / sum_k |c_k| (the phases are absorbed into the unitaries)
            coeffs = [complex(c * np.exp(1j * r.uniform(-np.pi, np.pi))) for c in coeffs]
            H = sum(c * pauli_word_matrix(w, sw) for c, w in zip(coeffs, words))
            ctx.count("prepselprep.complex_coeffs")
        mk = (lambda: qp.PrepSelPrep(qp.dot(coeffs, ops), control=cw)) if form == 0 else (lambda: qp.PrepSelPrep(qp.ops.LinearCombination(coeffs, ops), control=cw))
        compare("PrepSelPrep", mk, order, H / lam, {"coeffs": coeffs, "words": [str(w) for w in words], "form": form}, block=2 ** len(sw))

    def c_qubitization(r):
        got = lcu_case(r)
        if got is None:
            return
        sw, cw, coeffs, words, ops, H, lam = got
        order = cw + sw
        nc, dims = len(cw), 2 ** len(sw)
        info = {"coeffs": coeffs, "words": [str(w) for w in words]}
        # documented product: Q = (Prep† Sel Prep) · (2|0><0| - I).  Prep is only fixed up to its first column, so the first factor is
        # taken from the real PrepSelPrep (whose block is checked against H/λ here and in c_prepselprep); the reflection is ours.
        try:
            PSP = np.asarray(qp.matrix(qp.PrepSelPrep(qp.dot(coeffs, ops), control=cw), wire_order=order))
        except Exception as e:  # noqa: BLE001
            ctx.violation("tmpl.matrix", f"PrepSelPrep raised {type(e).__name__}: {str(e)[:200]}", case=info, mech=f"raise:PrepSelPrep:{type(e).__name__}")
            return
        ctx.ev("tmpl.matrix")
        if np.max(np.abs(PSP[:dims, :dims] - H / lam)) > TOL:
            ctx.violation("tmpl.matrix", "PrepSelPrep block != H/λ", case=info, mech="value:PrepSelPrep:matrix")
            return
        P0 = np.zeros((2**nc, 2**nc), dtype=complex)
        P0[0, 0] = 1
        Rf = full(2 * P0 - np.eye(2**nc), cw, order)
        ref_full = PSP @ Rf

        def cls(path, why):
            return None

        op = compare("Qubitization", lambda: qp.Qubitization(qp.dot(coeffs, ops), control=cw), order, ref_full, info, classifier=cls)
        if op is not None:
            try:
                M = np.asarray(qp.matrix(op, wire_order=order))
                ctx.ev("tmpl.spectrum")
                ev = np.linalg.eigvals(M)
                Es = np.linalg.eigvalsh(H / lam)
                want = np.concatenate([np.exp(1j * np.arccos(np.clip(Es, -1, 1))), np.exp(-1j * np.arccos(np.clip(Es, -1, 1)))])
                miss = [w_ for w_ in want if np.min(np.abs(ev - w_)) > 1e-6]
                if miss:
                    ctx.violation("tmpl.spectrum", f"Qubitization: e^(±i arccos(E/λ)) missing from the spectrum ({len(miss)} of {len(want)})",
                                  case=info, mech="spectrum:Qubitization")
            except Exception as e:  # noqa: BLE001
                ctx.inconclusive_case(f"Qubitization spectrum: {type(e).__name__}: {e}")

    def c_blockencode(r):
        nw = int(r.integers(1, 4))
        w = labels(r, nw)
        dim = 2**nw
        shape_kind = int(r.integers(0, 3))
        if shape_kind == 0:
            n_, m_ = dim // 2, dim // 2
        elif shape_kind == 1:
            n_, m_ = int(r.integers(1, dim // 2 + 1)), int(r.integers(1, dim // 2 + 1))
        else:
            n_ = m_ = int(r.integers(1, dim // 2 + 1))
        if n_ + m_ > dim or max(n_, m_) * 2 > dim and n_ != m_:
            n_ = m_ = max(1, dim // 2)
        A = (r.normal(size=(n_, m_)) + (1j * r.normal(size=(n_, m_)) if r.random() < 0.5 else 0)) * float(r.choice([0.2, 0.5, 1.0]))
        if A.shape == (1, 1) and abs(A[0, 0]) > 1:
            A = A / (abs(A[0, 0]) * 1.5)     # scalars are normalised by |a| in the code (the note describes matrices): keep |a| <= 1
        A_in = A
        # documented normalisation: A is divided by max(1, max(||A A^dagger||, ||A^dagger A||)) (the code's norm is the infinity norm)
        nrm = max(np.linalg.norm(A @ A.conj().T, np.inf), np.linalg.norm(A.conj().T @ A, np.inf))
        A = A / max(1.0, nrm)
        info = {"shape": [n_, m_], "nw": nw, "complex": bool(np.iscomplexobj(A)), "normalised": bool(nrm > 1)}
        ref = A
        # only the top-left block is asserted for rectangular inputs (padding convention not part of the formula); square: full formula
        if n_ == m_ and 2 * n_ == dim:
            Ad = A.conj().T
            U = np.block([[A, sla.sqrtm(np.eye(n_) - A @ Ad)], [sla.sqrtm(np.eye(n_) - Ad @ A), -Ad]])
            compare("BlockEncode", lambda: qp.BlockEncode(A_in, wires=w), w, U, info, tol=1e-7)
        else:
            ctx.case(fingerprint("BE", np.round(A, 8), nw), nontrivial=True, cls="BlockEncode", sample=info)
            try:
                M = np.asarray(qp.matrix(qp.BlockEncode(A_in, wires=w), wire_order=w))
            except Exception as e:  # noqa: BLE001
                if isinstance(e, ValueError):
                    ctx.reject("BlockEncode:shape")
                    return
                ctx.violation("tmpl.matrix", f"BlockEncode raised {type(e).__name__}: {str(e)[:200]}", case=info, mech=f"raise:BlockEncode:{type(e).__name__}")
                return
            ctx.ev("tmpl.matrix")
            ctx.cover("BlockEncode:matrix")
            if np.max(np.abs(M[:n_, :m_] - A)) > 1e-7 or np.max(np.abs(M.conj().T @ M - np.eye(dim))) > 1e-7:
                ctx.violation("tmpl.matrix", "BlockEncode: top-left block is not A or the matrix is not unitary", case=info, mech="value:BlockEncode:rect")

    def c_fable(r):
        n = int(r.integers(1, 3))
        dim = 2**n
        A = r.uniform(-1, 1, size=(dim, dim)) * float(r.choice([0.3, 1.0]))
        if r.random() < 0.3:
            A[np.abs(A) < 0.5] = 0.0
        w = labels(r, 2 * n + 1)
        tol = 0.0 if r.random() < 0.6 else float(r.choice([1e-3, 1e-2]))
        # FABLE drops rotation angles below tol: documented as approximate; bound used: dim^2 * tol (each dropped angle changes entries by <= tol)
        bound = 1e-7 if tol == 0 else dim * dim * tol * 2
        def cls_fable(path, why):
            if why == "raise:AttributeError" and path.startswith("rule:") and tol > 0:
                return "FABLE:rule-with-tol-raises-AttributeError"
            return None

        compare("FABLE", lambda: qp.FABLE(A, wires=w, tol=tol), w, A, {"n": n, "tol": tol, "A": np.round(A, 4).tolist()}, block=dim, scale=dim,
                real_block=True, tol=bound, classifier=cls_fable)

    def trotter_ref(coeffs, mats, t, n, order):
        def S(m, tt):
            if m == 1:
                U = np.eye(mats[0].shape[0], dtype=complex)
                for c, P in zip(coeffs, mats):
                    U = U @ sla.expm(1j * tt * c * P)
                return U
            if m == 2:
                U = np.eye(mats[0].shape[0], dtype=complex)
                for c, P in zip(coeffs, mats):
                    U = U @ sla.expm(1j * tt / 2 * c * P)
                for c, P in zip(coeffs[::-1], mats[::-1]):
                    U = U @ sla.expm(1j * tt / 2 * c * P)
                return U
            p = 1 / (4 - 4 ** (1 / (m - 1)))
            A_ = S(m - 2, p * tt)
            B_ = S(m - 2, (1 - 4 * p) * tt)
            return A_ @ A_ @ B_ @ A_ @ A_
        return np.linalg.matrix_power(S(order, t / n), n)

    def c_trotter(r):
        nw = int(r.integers(1, 4))
        w = labels(r, nw)
        coeffs, words, ops = rand_pauli_ham(r, w, int(r.integers(2, 5)))
        if len(words) < 2:
            return
        t = float(np.round(r.uniform(-2, 2), 3)) or 0.7
        n = int(r.integers(1, 4))
        order_ = int(r.choice([1, 2, 2, 4]))
        mats = [pauli_word_matrix(wd, w) for wd in words]
        ref = trotter_ref(coeffs, mats, t, n, order_)
        info = {"coeffs": coeffs, "words": [str(x) for x in words], "time": t, "n": n, "order": order_}
        if order_ == 1:
            # the documented product Π_j e^{itO_j} does not say which factor acts first: accept either order
            ref_rev = trotter_ref(coeffs[::-1], mats[::-1], t, n, 1)
            ctx.case(fingerprint("Trotter", sorted(info.items(), key=str)), nontrivial=True, cls="TrotterProduct", sample=info)
            try:
                op = qp.TrotterProduct(qp.dot(coeffs, ops), t, n=n, order=1)
                Ms = {"matrix": qp.matrix(op, wire_order=w), "decomposition": qp.matrix(qp.tape.QuantumScript(op.decomposition()), wire_order=w)}
            except Exception as e:  # noqa: BLE001
                ctx.violation("tmpl.matrix", f"TrotterProduct raised {type(e).__name__}: {str(e)[:200]}", case=info, mech=f"raise:TrotterProduct:{type(e).__name__}")
                return
            for path, M in Ms.items():
                ctx.ev("tmpl.matrix")
                ctx.cover(f"TrotterProduct:{path}")
                if min(np.max(np.abs(M - ref)), np.max(np.abs(M - ref_rev))) > TOL:
                    ctx.violation("tmpl.matrix", f"TrotterProduct(order=1) [{path}] differs from [Π_j e^(i t/n O_j)]^n in either factor order", case=info,
                                  mech=f"value:TrotterProduct:{path}:order1")
        else:
            compare("TrotterProduct", lambda: qp.TrotterProduct(qp.dot(coeffs, ops), t, n=n, order=order_), w, ref, info)

    def c_approx_evolution(r):
        nw = int(r.integers(1, 4))
        w = labels(r, nw)
        commuting = r.random() < 0.5
        coeffs, words, ops = rand_pauli_ham(r, w, int(r.integers(1, 5)), commuting=commuting)
        if not words:
            return
        t = float(np.round(r.uniform(-2, 2), 3)) or 0.4
        n = int(r.integers(1, 4))
        mats = [pauli_word_matrix(wd, w) for wd in words]
        Hm = sum(c * P for c, P in zip(coeffs, mats))
        info = {"coeffs": coeffs, "words": [str(x) for x in words], "time": t, "n": n, "commuting": bool(commuting)}
        H = qp.ops.LinearCombination(coeffs, ops)
        if commuting:
            compare("CommutingEvolution", lambda: qp.CommutingEvolution(H, t), w, sla.expm(-1j * t * Hm), info, skip_rules=False)
            compare("ApproxTimeEvolution", lambda: qp.ApproxTimeEvolution(H, t, n), w, sla.expm(-1j * t * Hm), info)
        else:
            step_f = np.eye(2**nw, dtype=complex)
            for c, P in zip(coeffs, mats):
                step_f = sla.expm(-1j * c * P * t / n) @ step_f      # first term acts first
            step_b = np.eye(2**nw, dtype=complex)
            for c, P in zip(coeffs, mats):
                step_b = step_b @ sla.expm(-1j * c * P * t / n)      # first term acts last
            refs = [np.linalg.matrix_power(step_f, n), np.linalg.matrix_power(step_b, n)]
            ctx.case(fingerprint("ATE", sorted(info.items(), key=str)), nontrivial=True, cls="ApproxTimeEvolution", sample=info)
            try:
                op = qp.ApproxTimeEvolution(H, t, n)
                Ms = {"matrix": qp.matrix(op, wire_order=w), "decomposition": qp.matrix(qp.tape.QuantumScript(op.decomposition()), wire_order=w)}
            except Exception as e:  # noqa: BLE001
                ctx.violation("tmpl.matrix", f"ApproxTimeEvolution raised {type(e).__name__}: {str(e)[:200]}", case=info, mech=f"raise:ApproxTimeEvolution:{type(e).__name__}")
                return
            for path, M in Ms.items():
                ctx.ev("tmpl.matrix")
                ctx.cover(f"ApproxTimeEvolution:{path}")
                if min(np.max(np.abs(M - refs[0])), np.max(np.abs(M - refs[1]))) > TOL:
                    ctx.violation("tmpl.matrix", f"ApproxTimeEvolution [{path}] differs from [Π_j e^(-i c_j P_j t/n)]^n in either factor order", case=info,
                                  mech=f"value:ApproxTimeEvolution:{path}")

    def c_qsvt(r):
        # qp.qsvt(A, poly, encoding_wires, block_encoding="embedding"): top-left block of the circuit matrix = P(A) (real polynomials of definite parity)
        deg = int(r.integers(1, 5))
        poly = np.zeros(deg + 1)
        idx = np.arange(deg % 2, deg + 1, 2)
        poly[idx] = r.uniform(-1, 1, size=len(idx))
        if poly[deg] == 0:
            poly[deg] = 0.3
        xs = np.linspace(-1, 1, 201)
        mx = np.max(np.abs(np.polyval(poly[::-1], xs)))
        poly = poly / (mx * float(r.uniform(1.2, 2.0)))
        a = float(r.uniform(-0.9, 0.9))
        info = {"poly": np.round(poly, 5).tolist(), "a": a}
        ctx.case(fingerprint("QSVT", np.round(poly, 6), round(a, 6)), nontrivial=True, cls="QSVT", sample=info)
        try:
            op = qp.qsvt(a, poly, encoding_wires=[0], block_encoding="embedding")
            M = np.asarray(qp.matrix(op, wire_order=[0]))
        except Exception as e:  # noqa: BLE001
            inhom = isinstance(e, ValueError) and "inhomogeneous" in str(e)
            ctx.violation("tmpl.matrix", f"qp.qsvt raised {type(e).__name__}: {str(e)[:200]}", case=info,
                          mech="QSVT:angle-solver-complementary-poly-length" if inhom else f"raise:QSVT:{type(e).__name__}")
            return
        ctx.ev("tmpl.matrix")
        ctx.cover("QSVT:matrix")
        want = float(np.polyval(poly[::-1], a))
        if abs(M[0, 0].real - want) > 1e-5:
            ctx.violation("tmpl.matrix", f"QSVT: Re <0|U|0> = {M[0, 0].real:.6f}, P(a) = {want:.6f}", case=info, mech="value:QSVT")

    makers = [("QFT", c_qft, 1), ("AQFT", c_aqft, 2), ("Permute", c_permute, 2), ("FlipSign", c_flipsign, 1), ("GroverOperator", c_grover, 2),
              ("Reflection", c_reflection, 3), ("AmplitudeAmplification", c_ampamp, 2), ("Select", c_select, 4), ("SelectPauliRot", c_select_pauli_rot, 3),
              ("QROM", c_qrom, 4), ("ControlledSequence", c_ctrlseq, 2), ("QuantumPhaseEstimation", c_qpe, 2), ("PrepSelPrep", c_prepselprep, 3),
              ("Qubitization", c_qubitization, 3), ("BlockEncode", c_blockencode, 2), ("FABLE", c_fable, 2), ("TrotterProduct", c_trotter, 4),
              ("TimeEvolution", c_approx_evolution, 3), ("QSVT", c_qsvt, 1)]
    sched = [m for m in makers for _ in range(m[2])]
    for nm, why in (("QDrift", "random product formula: no deterministic operator to compare with"),
                    ("QuantumMonteCarlo", "estimate within a statistical bound; not built"),
                    ("GQSP", "not built"), ("BasisRotation", "documented generator formula ambiguous about the index range of the sum"),
                    ("HilbertSchmidt", "not built"), ("AmplitudeAmplification(fixed_point)", "not built"), ("BBQRAM/SelectOnlyQRAM/HybridQRAM", "not built"),
                    ("qchem templates", "covered by C62 if at all")):
        ctx.uncovered(nm, why)
    total = ctx.n(330, 9000)
    for i in range(total):
        if not ctx.more():
            break
        gi = i * ctx.nshards + ctx.shard
        ctx.case_index = gi
        r = ctx.case_rng(gi)
        name, fn, _ = sched[gi % len(sched)]
        try:
            fn(r)
        except Exception as e:  # noqa: BLE001
            import traceback
            ctx.inconclusive_case(f"harness error in {name}: {type(e).__name__}: {str(e)[:150]} @ {traceback.format_exc()[-250:]}")
