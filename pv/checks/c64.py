"""C64 — Dataset attributes survive HDF5 round trips.

Deciding monitors: ``c64.value`` (harness-written type-aware deep equality between a model dict and what the real
``Dataset`` returns, per attribute and per view), ``c64.view`` (attribute-name set of every live / freshly opened view
against the model), ``c64.info`` (attribute metadata doc / py_type / extra survive) and ``c64.history`` (post-conditions
of write/open/read modes: "w" truncates, "a" keeps, conflicts ignored unless overwrite, "w-" refuses, read-only views
refuse and leave the file intact, "copy" views are detached).

Workload: (A) single-value round trips cycling deterministically through every attribute kind (scalars, strings, None,
arrays, sparse classes, molecules, operators through the default pytree codec, every class in
``DatasetOperator.supported_ops()`` through the explicit legacy codec, measurements, tapes, JSON, containers, nested
datasets, declared-field datasets); (B) random histories of create / set / delete / in-place container edits / write
(modes, attribute subsets, overwrite) / read / open (r, a, w, w-, copy) / nesting / attribute copies on scratch files.
"""
import copy as _copy
import os
import shutil
import warnings

import numpy as np

from pv.ctx import fingerprint

META = {
    "id": "C64",
    "level": "exploration",
    "technique": "recorded histories on scratch HDF5 files + model dict, harness-written type-aware deep equality on every live and freshly opened view",
    "level_text": "Random nested values of every supported attribute type are pushed through the real Dataset API (create, write in modes w/w-/a, "
                  "open in modes r/a/w/w-/copy, read, overwrite, delete, in-place list/dict edits, nesting, attribute copies); after every step the "
                  "touched live views and a freshly opened view of every touched file are compared attribute-wise with a Python model (values generated "
                  "twice from the same seed so the real code never sees the model objects).",
    "level_note": "Equality is the harness' own: arrays dtype+shape+values (NaN-aware), scalars by value and numpy dtype, operators by class / wire labels with "
                  "label types and order / exact parameter bits / normalised hyper-parameters / nested structure plus a matrix (kraus, state) differential, "
                  "sparse by class+shape+dtype+dense values, molecules field-wise. The explicit legacy DatasetOperator codec is compared semantically for "
                  "Sum/Prod/SProd/LinearCombination (it simplifies before storing) and by value for parameters (it stacks them into one array). dict key order "
                  "is not demanded (HDF5 groups iterate by name). Remote qp.data.load is out of scope (offline). Re-assigning an existing attribute raises in "
                  "this tree (h5py 'name already exists'); that is recorded as a rejection, and atomicity (old value intact) is checked instead.",
    "shards": {"quick": 4, "thorough": 8},
    "budget_s": {"quick": 40, "thorough": 170},
    "min_evals": {"quick": 1500, "thorough": 20000},
    "min_nontrivial": {"quick": 100, "thorough": 1000},
    "deciding": ["c64.value", "c64.view", "c64.info", "c64.history"],
    "rule": "case = one single-value round trip or one random history (4-14 steps) on scratch files; distinct = fingerprint of the step trace and the content of "
            "every generated value; non-trivial = at least one view was re-opened from a file on disk",
    "allow_rejections": True,
    "assumptions": ["h5py/HDF5 store bytes faithfully", "the Python model of the documented write/open/read mode semantics is correct",
                    "qp.matrix is deterministic (it is used on both sides of the operator differential, not as a reference)"],
}

ROOT = os.path.dirname(os.path.dirname(os.path.dirname(os.path.abspath(__file__))))

# single-value kinds visited round-robin (legacy operator codec repeated so that every supported class is reached in the quick tier)
SINGLE_KINDS = ["scalar", "str", "none", "array", "sparse", "molecule", "operator", "dsop", "list", "tuple", "dict", "operator", "dsop", "measurement", "tape",
                "json", "dataset", "declared", "dsop", "operator", "explicit", "dsop", "hostile", "scalar", "array", "dsop"]

CONTAINER_TAGS = ("list:", "tuple:", "dict:", "dataset:")


class Skip(Exception):
    pass


class Thunk:
    """Deferred construction of the object handed to the real code (so that constructor exceptions are classified in ``assign``)."""

    def __init__(self, fn):
        self.fn = fn


def run(ctx):
    warnings.filterwarnings("ignore")
    np.seterr(all="ignore")
    import pennylane as qp

    from pv.checks import c64_vals as V

    work = os.path.join(ROOT, "evidence", ".work", "C64", f"s{ctx.shard}")
    shutil.rmtree(work, ignore_errors=True)
    os.makedirs(work, exist_ok=True)
    H = Harness(ctx, qp, V, work)
    sup = sorted(c.__name__ for c in qp.data.DatasetOperator.supported_ops())
    H.sup = sup
    N = ctx.n(420, 40000)
    try:
        for j in range(N):
            i = j * ctx.nshards + ctx.shard  # global case index (replayable)
            if ctx.only_case is not None and i != ctx.only_case:
                continue
            if not ctx.more():
                break
            ctx.case_index = i
            rng = ctx.case_rng(i)
            H.begin(i, rng)
            try:
                if i % 3 == 2:
                    H.history()
                else:
                    H.single(SINGLE_KINDS[(i // 3 * 2 + i % 3) % len(SINGLE_KINDS)], i)
            except Skip:
                pass
            except Exception as e:  # noqa: BLE001 - harness error: never a silent skip
                import traceback
                if H.broken:  # an attribute of this case was already reported as unreadable; Dataset.write()/identifiers then re-raise the same error
                    ctx.count("cases_cut_short_after_reported_read_failure")
                    H.end()
                    continue
                ctx.inconclusive_case(f"case {i}: harness error {type(e).__name__}: {e} @ {traceback.format_exc()[-500:]} trace={H.trace[-4:]}")
            H.end()
        if ctx.shard == 0:
            covered = set(ctx.classes)
            for name in sup:
                if f"dsop:{name}" not in covered and not ctx.quick:
                    ctx.uncovered(f"dsop:{name}", "not drawn")
            if V_FAIL:
                ctx.note("generator_fallbacks", sorted(V_FAIL)[:40])
    finally:
        shutil.rmtree(work, ignore_errors=True)


V_FAIL = set()


class Harness:
    def __init__(self, ctx, qp, V, work):
        self.ctx, self.qp, self.V, self.work = ctx, qp, V, work
        self.Dataset = qp.data.Dataset
        self.Decl = make_declared(qp)
        self.sup = []
        self._nfile = 0

    # ------------------------------------------------------------------ per-case state
    def begin(self, i, rng):
        self.i, self.rng = i, rng
        self.trace = []
        self.keys = []
        self.mems = []      # [real Dataset, DSModel, label]
        self.files = {}     # path -> DSModel
        self.reopened = False
        self.reported = set()
        self.broken = set()
        self.mech_prefix = ""
        self.counter = 0
        self.kind = "?"

    def end(self):
        for m in self.mems:
            try:
                m[0].close()
            except Exception:  # noqa: BLE001
                pass
        self.mems = []
        for p in list(self.files):
            try:
                os.remove(p)
            except OSError:
                pass
        for f in os.listdir(self.work):
            try:
                os.remove(os.path.join(self.work, f))
            except OSError:
                pass
        if self.trace:
            fp = fingerprint(self.kind, repr(self.trace), repr(self.keys))
            self.ctx.case(fp, nontrivial=self.reopened, cls=self.kind,
                          sample={"case": self.i, "kind": self.kind, "trace": self.trace[:16]})

    def newpath(self):
        self._nfile += 1
        return os.path.join(self.work, f"c{self.i}_{self._nfile}.h5")

    def log(self, s):
        self.trace.append(s)

    # ------------------------------------------------------------------ values
    def twin(self, fn):
        """Generate the same value twice from one seed: (model copy, copy for the real code)."""
        seed = int(self.rng.integers(2**62))
        try:
            m = fn(np.random.default_rng(seed))
            r = fn(np.random.default_rng(seed))
        except Exception as e:  # noqa: BLE001 - PennyLane refused to construct the instance: not this property's business
            V_FAIL.add(f"{type(e).__name__}: {str(e)[:80]}")
            m, r = seed % 1000, seed % 1000
        return m, r

    def gen_entry(self, kind=None, allow_ds=True):
        """(Entry for the model, object to assign to the real dataset)."""
        V, qp, rng = self.V, self.qp, self.rng
        if kind is None:
            r = rng.random()
            kind = "dsop" if r < 0.07 else "json" if r < 0.1 else None
        if kind == "dsop":
            name = self.sup[int(rng.integers(len(self.sup)))]
            return self.dsop_entry(name)
        if kind == "json":
            m, r = self.twin(V.g_json)
            return V.Entry(m, codec="json", via="explicit"), Thunk(lambda: qp.data.DatasetJSON(r))
        if kind in (None, "list", "tuple", "dict", "dataset"):
            m, r = self.twin(lambda g: V.g_value(g, 0 if kind is None else 1, kind=kind, allow_ds=allow_ds))
        else:
            m, r = self.twin(lambda g: V.g_leaf(g, kind))
        via = rng.random()
        if via < 0.6:
            return V.Entry(m), Thunk(lambda: V.realize(r))
        doc = ["doc string", "", "Ünicode döc ✓", "multi\nline", "x" * 200][int(rng.integers(5))]
        if via < 0.85:
            extra = {}
            if rng.random() < 0.5:
                extra = [{"units": "eV"}, {"version": 3}, {"scale": 0.5, "tag": "ü"}, {"grid": np.arange(3)}][int(rng.integers(4))]
            return V.Entry(m, doc=doc, extra=extra, via="attribute"), Thunk(lambda: qp.data.attribute(V.realize(r), doc=doc, **extra))
        cls = self.explicit_class(m)
        if cls is None:
            return V.Entry(m), Thunk(lambda: V.realize(r))
        return V.Entry(m, doc=doc, via="explicit"), Thunk(lambda: cls(V.realize(r), qp.data.AttributeInfo(doc=doc)))

    def explicit_class(self, m):
        D = self.qp.data
        k = self.V.kind_of(m)
        return {"scalar": D.DatasetScalar if not isinstance(m, np.bool_) else D.DatasetArray, "str": D.DatasetString, "array": D.DatasetArray,
                "list": D.DatasetList, "tuple": D.DatasetTuple, "dict": D.DatasetDict, "sparse": D.DatasetSparseArray, "molecule": D.DatasetMolecule,
                "operator": D.DatasetPyTree, "measurement": D.DatasetPyTree, "tape": D.DatasetPyTree}.get(k)

    def dsop_entry(self, name):
        V = self.V
        m, r = self.twin(lambda g: V.make_supported_op(g, name))
        self.ctx.cover(f"dsop:{name}")
        return V.Entry(m, codec="operator", via="explicit"), Thunk(lambda: self.qp.data.DatasetOperator(r))

    # ------------------------------------------------------------------ assignment with classification of exceptions
    def assign(self, ds, model, name, entry, real, where):
        """``ds.name = real``; updates the model on success.  Returns True on success."""
        ctx, V, qp = self.ctx, self.V, self.qp
        kind = V.kind_of(entry.value)
        self.keys.append((name, entry.codec, fingerprint(repr(V.vkey(entry.value)))))
        try:
            setattr(ds, name, real.fn() if isinstance(real, Thunk) else real)
        except Exception as e:  # noqa: BLE001
            self.cleanup_failed(ds, model, name)
            cname = type(entry.value).__name__
            msg = f"{type(e).__name__}: {e}"
            if entry.codec == "operator":
                if isinstance(e, TypeError) and "is not supported" in str(e):
                    ctx.reject(f"dsop-unsupported:{cname}")
                    return False
                self.violate("c64.value", f"roundtrip:DatasetOperator:write-raises:{cname}", f"{where}: DatasetOperator({V._short(entry.value)}) raised {msg}",
                             {"attr": name, "value": V._short(entry.value)})
                return False
            if kind in ("operator", "measurement", "tape") or self.contains_pytree(entry.value):
                top = cname if kind in ("operator", "measurement", "tape") else "nested"
                refusal = isinstance(e, TypeError) and "Could not serialize metadata object" in str(e)  # the codec's own, explicit "unsupported"
                if kind == "operator" and cname in self.sup and not refusal:
                    self.violate("c64.value", f"roundtrip:pytree:write-raises:{cname}", f"{where}: storing {V._short(entry.value)} raised {msg}", {"attr": name})
                else:
                    ctx.reject(f"pytree-unsupported:{top}:{type(e).__name__}")
                    ctx.note_add("pytree_rejections", f"{top}: {msg[:120]}")
                return False
            self.violate("c64.value", f"roundtrip:{kind}:write-raises:{type(e).__name__}", f"{where}: storing {V._short(entry.value)} raised {msg}",
                         {"attr": name, "value": V._short(entry.value)})
            return False
        model.attrs[name] = entry
        # remember the py_type the real code derived at creation: it must survive, we never recompute it
        try:
            entry.py_type = ds.attr_info[name].py_type
        except Exception:  # noqa: BLE001
            entry.py_type = None
        self.ctx.cover(kind if entry.codec == "default" else entry.codec)
        return True

    def contains_pytree(self, v):
        V = self.V
        k = V.kind_of(v)
        if k in ("operator", "measurement", "tape"):
            return True
        if k in ("list", "tuple"):
            return any(self.contains_pytree(x) for x in v)
        if k == "dict":
            return any(self.contains_pytree(x) for x in v.values())
        if k == "dataset":
            return any(self.contains_pytree(e.value) for e in v.attrs.values())
        return False

    def cleanup_failed(self, ds, model, name):
        """A refused assignment may leave a half-written group behind; remove it so that the history can go on."""
        try:
            if name in ds.list_attributes() and name not in model.attrs:
                delattr(ds, name)
        except Exception:  # noqa: BLE001
            try:
                del ds.bind[name]
            except Exception:  # noqa: BLE001
                pass

    def mech_of(self, tag, e):
        """Stable mechanism tag of a value difference: codec-level differences are 'roundtrip:<what>' wherever they are observed;
        container-level differences after an in-place edit / nesting carry the kind of that step."""
        if tag.endswith("param-requires_grad"):
            return "roundtrip:pytree:param-requires_grad"
        if e.codec == "operator" and tag.startswith("operator:"):
            tag = "DatasetOperator:" + type(e.value).__name__ + ":" + tag.split(":", 1)[1]
        origin = e.origin
        if origin != "set" and tag.startswith(CONTAINER_TAGS):
            return f"history:{origin}:{tag}"
        return f"roundtrip:{tag}"

    def violate(self, monitor, mech, msg, case=None, observed=None, expected=None):
        if self.mech_prefix:
            mech = self.mech_prefix
        if mech in self.reported:
            return
        self.reported.add(mech)
        c = {"case": self.i, "kind": self.kind, "trace": self.trace[-14:]}
        c.update(case or {})
        self.ctx.violation(monitor, msg, case=c, mech=mech, observed=observed, expected=expected)

    # ------------------------------------------------------------------ view comparison (the deciding monitors)
    def check_view(self, ds, model, where, fresh=False):
        ctx, V = self.ctx, self.V
        ctx.ev("c64.view")
        try:
            names = list(ds.list_attributes())
        except Exception as e:  # noqa: BLE001
            self.violate("c64.view", f"view:list-raises:{type(e).__name__}", f"{where}: list_attributes() raised {type(e).__name__}: {e}")
            return
        last = self.trace[-1].split(" ")[0] if self.trace else "?"
        if set(names) != set(model.attrs) or len(names) != len(set(names)):
            missing, extra = sorted(set(model.attrs) - set(names)), sorted(set(names) - set(model.attrs))
            what = "missing" if missing and not extra else "extra" if extra and not missing else "both"
            self.violate("c64.view", f"history:{last}:attr-set:{what}", f"{where}: attributes missing {missing} / unexpected {extra} after {self.trace[-3:]}",
                         observed=sorted(names), expected=sorted(model.attrs))
        for name, e in model.attrs.items():
            if name not in names or getattr(e, "broken", False) or name in self.broken:
                continue
            ctx.ev("c64.value")
            try:
                got = getattr(ds, name)
            except Exception as ex:  # noqa: BLE001
                cname = type(e.value).__name__
                pre = "DatasetOperator" if e.codec == "operator" else V.kind_of(e.value)
                self.broken.add(name)
                self.violate("c64.value", f"roundtrip:{pre}:read-raises:{cname}", f"{where}: reading attribute {name!r} = {V._short(e.value)} raised {type(ex).__name__}: {ex}",
                             {"attr": name, "value": V._short(e.value)})
                continue
            stats = {}
            try:
                diffs = V.deq(e.value, got, name, [], e.codec, stats)
            except Exception as ex:  # noqa: BLE001
                import traceback
                ctx.inconclusive_case(f"comparator error on {name} ({V.shape_str(e.value)}): {type(ex).__name__}: {ex} @ {traceback.format_exc()[-300:]}")
                continue
            ctx.count("value_nodes_compared", stats.get("nodes", 1))
            for d in diffs[:3]:
                mech = self.mech_of(d.tag, e)
                self.violate("c64.value", mech, f"{where}: attribute {d.path} ({V.shape_str(e.value)}, via {e.via}/{e.codec}) does not read back equal: {d.detail}",
                             {"attr": name, "where": where, "diff": repr(d)})
            # ---- metadata survives
            ctx.ev("c64.info")
            try:
                info = ds.attr_info[name]
                doc, pt = info.doc, info.py_type
                extra = {k: info.get(k) for k in e.extra}
            except Exception as ex:  # noqa: BLE001
                self.violate("c64.info", f"info:read-raises:{type(ex).__name__}", f"{where}: attr_info[{name!r}] raised {type(ex).__name__}: {ex}")
                continue
            if e.doc is not None and doc != e.doc or (e.doc is None and e.via in ("raw",) and doc not in (None,)):
                self.violate("c64.info", "info:doc", f"{where}: doc of {name!r} is {doc!r}, expected {e.doc!r}", {"attr": name})
            if e.py_type is not None and pt != e.py_type:
                self.violate("c64.info", "info:py_type", f"{where}: py_type of {name!r} is {pt!r}, was {e.py_type!r} when created", {"attr": name})
            for k, v in e.extra.items():
                ok = extra[k] is not None and (np.array_equal(np.asarray(extra[k]), np.asarray(v)) if isinstance(v, np.ndarray) else extra[k] == v)
                if not ok:
                    self.violate("c64.info", "info:extra", f"{where}: metadata {k!r} of {name!r} is {extra[k]!r}, expected {v!r}", {"attr": name})
        # ---- data_name / identifiers
        ctx.ev("c64.ident")
        try:
            dn, idents = ds.data_name, dict(ds.identifiers)
        except Exception as ex:  # noqa: BLE001
            if any(k in self.broken for k in model.identifiers):
                return  # consequence of an attribute already reported as unreadable
            self.violate("c64.ident", f"ident:read-raises:{type(ex).__name__}", f"{where}: data_name/identifiers raised {type(ex).__name__}: {ex}")
            return
        if dn != model.data_name:
            self.violate("c64.ident", f"history:{last}:data_name", f"{where}: data_name {dn!r}, expected {model.data_name!r}")
        exp_ids = {k for k in model.identifiers if k in model.attrs}
        if set(idents) != exp_ids:
            self.violate("c64.ident", f"history:{last}:identifiers", f"{where}: identifiers {sorted(idents)}, expected {sorted(exp_ids)}")
        else:
            for k in exp_ids:
                if k in self.broken:
                    continue
                d = V.deq(model.attrs[k].value, idents[k], k, [], model.attrs[k].codec)
                if d:
                    self.violate("c64.ident", self.mech_of(d[0].tag, model.attrs[k]), f"{where}: identifier {k!r} differs: {d[0].detail}")

    def check_file(self, path, where, declared=False):
        """Freshly opened views of a file: mode 'r' (and 'copy' now and then) against the file's model."""
        model = self.files[path]
        self.reopened = True
        cls = self.Decl if (declared or model.declared) and self.rng.random() < 0.6 else self.Dataset
        try:
            v = cls.open(path, "r")
        except Exception as e:  # noqa: BLE001
            self.violate("c64.history", f"history:open-r-raises:{type(e).__name__}", f"{where}: Dataset.open({os.path.basename(path)}, 'r') raised {type(e).__name__}: {e}")
            return
        try:
            self.check_view(v, model, f"{where} [fresh 'r' view{' as declared subclass' if cls is self.Decl else ''}]", fresh=True)
        finally:
            v.close()
        if self.rng.random() < 0.35:
            try:
                c = self.Dataset.open(path, "copy")
            except Exception as e:  # noqa: BLE001
                self.violate("c64.history", f"history:open-copy-raises:{type(e).__name__}", f"{where}: open(..., 'copy') raised {type(e).__name__}: {e}")
                return
            try:
                self.check_view(c, model, f"{where} [fresh 'copy' view]", fresh=True)
            finally:
                c.close()

    # ------------------------------------------------------------------ workload A: single-value round trips
    def single(self, kind, i):
        V, qp, rng = self.V, self.qp, self.rng
        self.kind = "single:" + kind
        model = V.DSModel()
        if kind == "declared":
            return self.single_declared()
        if kind == "hostile":
            return self.single_hostile()
        ds = self.Dataset()
        n = 4 if kind == "dsop" else int(rng.integers(1, 4))
        for j in range(n):
            if kind == "dsop":
                idx = i // 3 * 2 + i % 3
                L = len(SINGLE_KINDS)
                ordinal = (idx // L) * SINGLE_KINDS.count("dsop") + SINGLE_KINDS[: idx % L].count("dsop")
                name = self.sup[(ordinal * 4 + j) % len(self.sup)]
                entry, real = self.dsop_entry(name)
            elif kind == "explicit":
                entry, real = self.gen_entry(None)
            elif kind in ("list", "tuple") and j == 0:
                m, r = self.twin(lambda g: V.g_long(g, kind))
                entry, real = V.Entry(m), Thunk(lambda: V.realize(r))
            else:
                entry, real = self.gen_entry(kind)
            self.assign(ds, model, f"x{j}", entry, real, "create")
        self.mems.append([ds, model, "m0"])
        self.log(f"create {[V.shape_str(e.value) for e in model.attrs.values()]}")
        if not model.attrs:
            raise Skip()
        self.check_view(ds, model, "in-memory dataset after creation")
        p = self.newpath()
        mode = ["w", "w-", "a"][int(rng.integers(3))]
        self.log(f"write mode={mode}")
        self.do_write(ds, model, p, mode)
        self.check_file(p, f"after write(mode={mode!r})")
        if rng.random() < 0.4:  # second generation: copy of the copy written again
            self.log("open copy -> write w")
            c = self.Dataset.open(p, "copy")
            p2 = self.newpath()
            self.do_write(c, self.files[p].copy(), p2, "w")
            c.close()
            self.check_file(p2, "second-generation file (open 'copy' -> write)")

    def single_declared(self):
        V, qp, rng = self.V, self.qp, self.rng
        model = V.DSModel(data_name="c64decl", identifiers=("ident", "scal"), declared=True)
        ds = self.Decl()
        specs = {"ident": "str", "scal": "pyfloat", "arr": "array", "lst": "list", "dct": "dict", "tup": "tuple", "ham": "dsop-LinearCombination", "op": "operator",
                 "spm": "sparse", "js": "jsonraw", "mol": "molecule", "nothing": "none"}
        names = [n for n in specs if rng.random() < 0.6] or ["ident"]
        for name in names:
            k = specs[name]
            if k == "pyfloat":
                m, r = self.twin(V.g_float)
                entry = V.Entry(m)
            elif k.startswith("dsop-"):
                m, r = self.twin(lambda g: V.make_supported_op(g, k[5:]))
                entry = V.Entry(m, codec="operator")
            elif k == "jsonraw":
                m, r = self.twin(V.g_json)
                entry = V.Entry(m, codec="json")
            else:
                m, r = self.twin(lambda g: V.g_value(g, 1, kind=k, allow_ds=False))
                entry = V.Entry(m)
            entry.doc, entry.via = DECL_DOCS[name], "field"
            self.assign(ds, model, name, entry, Thunk(lambda r=r: V.realize(r)), "declared field")
        if rng.random() < 0.5:  # ad-hoc attribute next to the declared fields
            entry, real = self.gen_entry(None, allow_ds=False)
            self.assign(ds, model, "adhoc", entry, real, "ad-hoc attribute on declared dataset")
        self.mems.append([ds, model, "decl"])
        self.log(f"create-declared {sorted(model.attrs)}")
        self.check_view(ds, model, "declared dataset after creation")
        for f in DECL_DOCS:
            if f not in model.attrs:
                self.ctx.ev("c64.history")
                try:
                    u = getattr(ds, f)
                except Exception as e:  # noqa: BLE001
                    self.violate("c64.history", "history:declared:unset-field-raises", f"unset declared field {f!r} raised {type(e).__name__}: {e}")
                    continue
                if u is not qp.data.base.typing_util.UNSET:
                    self.violate("c64.history", "history:declared:unset-field", f"unset declared field {f!r} reads {u!r}, documented UNSET")
        p = self.newpath()
        self.log("write w")
        self.do_write(ds, model, p, "w")
        self.check_file(p, "declared dataset after write", declared=True)

    def single_hostile(self):
        """Values the documentation admits but that are awkward for HDF5 (each gets its own mechanism tag)."""
        V, qp, rng = self.V, self.qp, self.rng
        which = int(rng.integers(6))
        model = V.DSModel()
        ds = self.Dataset()
        if which == 0:   # dict keys are "any string": path separator inside a key
            key = ["a/b", "H2/STO-3G", "x/y/z"][int(rng.integers(3))]
            val, tag = {key: 1.5, "plain": "v"}, "dict-key-with-slash"
        elif which == 1:
            val, tag = {".": 1, "ok": 2}, "dict-key-dot"
        elif which == 2:
            val, tag = {"": "empty key", "ok": 2}, "dict-key-empty"
        elif which == 3:
            val, tag = [1, [2, [3, [4, [5, [6, [7, [8]]]]]]]], "deep-list"
        elif which == 4:
            val, tag = {"k": {"k": {"k": {"k": {"k": ()}}}}}, "deep-dict"
        else:
            val, tag = ["x" * 70000, np.arange(70000)], "large"
        self.kind = "single:hostile:" + tag
        entry = V.Entry(_copy.deepcopy(val))
        self.log(f"create hostile {tag}")
        self.keys.append(tag)
        try:
            setattr(ds, "x0", val)
        except Exception as e:  # noqa: BLE001
            self.ctx.ev("c64.value")
            if tag in ("dict-key-dot", "dict-key-empty"):
                # names HDF5 itself cannot represent: refused loudly at assignment (nothing is stored) -> a rejection, not a read-back inequality
                self.ctx.reject(f"hostile:{tag}:{type(e).__name__}")
                self.ctx.note_add("observations", f"dict key {list(val)[0]!r} is refused with {type(e).__name__}: {str(e)[:80]}")
                ds.close()
                return
            self.violate("c64.value", f"hostile:{tag}", f"storing {V._short(val)} raised {type(e).__name__}: {e}", {"value": V._short(val)})
            ds.close()
            return
        model.attrs["x0"] = entry
        self.mems.append([ds, model, "m0"])
        self.mech_prefix = f"hostile:{tag}"
        self.check_view(ds, model, f"in-memory dataset holding {tag}")
        p = self.newpath()
        try:
            self.do_write(ds, model, p, "w")
            self.check_file(p, f"file holding {tag}")
        except Exception as e:  # noqa: BLE001
            self.violate("c64.value", f"hostile:{tag}", f"writing/reopening {V._short(val)} raised {type(e).__name__}: {e}")

    # ------------------------------------------------------------------ write / read with the documented semantics in the model
    def do_write(self, ds, model, path, mode, attributes=None, overwrite=False, where="write"):
        """ds.write(path, mode, ...) + model update.  Returns True if the write happened."""
        ctx = self.ctx
        exists = os.path.exists(path)
        ctx.ev("c64.history")
        kw = {}
        if attributes is not None:
            kw["attributes"] = list(attributes)
        if overwrite:
            kw["overwrite"] = True
        try:
            ds.write(path, mode=mode, **kw)
        except FileExistsError:
            if mode == "w-" and exists:
                ctx.reject("w-:file-exists")
                return False
            raise
        except OSError as e:
            if mode == "w-" and exists:
                ctx.reject("w-:file-exists")
                return False
            self.violate("c64.history", f"history:write-{mode}:raises:{type(e).__name__}", f"{where}: write(mode={mode!r}) raised {type(e).__name__}: {e}")
            return False
        if mode == "w-" and exists:
            self.violate("c64.history", "history:write-w-:overwrote-existing", f"{where}: write(mode='w-') on an existing file did not fail")
        dest = self.V.DSModel() if (mode in ("w", "w-") or not exists or path not in self.files) else self.files[path].copy()
        self.merge(model, dest, attributes, overwrite)
        self.files[path] = dest
        return True

    def merge(self, src, dest, attributes, overwrite):
        """Model of Dataset.write/read: copy (selected) attributes, existing ones win unless overwrite; identifiers always copied; info copied."""
        names = list(src.attrs) if not attributes else list(attributes)
        for n in names:
            if n in dest.attrs and not overwrite:
                continue
            dest.attrs[n] = src.attrs[n]
        for n in src.identifiers:
            if n in src.attrs and n not in dest.attrs:
                dest.attrs[n] = src.attrs[n]
        dest.data_name = src.data_name
        dest.identifiers = src.identifiers
        dest.declared = dest.declared or src.declared

    # ------------------------------------------------------------------ workload B: histories
    def history(self):
        V, qp, rng = self.V, self.qp, self.rng
        self.kind = "history"
        nsteps = int(rng.integers(4, 15))
        self.step_create()
        for _ in range(nsteps):
            if len(self.ctx.violations) > 30:
                break
            ops = ["set", "set", "delete", "replace", "edit", "edit", "write", "write", "write", "write_ds", "read", "open_copy", "open_a", "open_a", "open_w", "open_r",
                   "nest", "attr_copy", "create", "reassign", "edit_nested"]
            op = ops[int(rng.integers(len(ops)))]
            getattr(self, "step_" + op)()
        # final sweep: everything that exists is compared once more
        self.log("final-sweep")
        for ds, model, label in self.mems:
            self.check_view(ds, model, f"final sweep, in-memory {label}")
        for p in list(self.files):
            self.check_file(p, f"final sweep, file {os.path.basename(p)}")

    def fresh_name(self, model):
        self.counter += 1
        pool = ["alpha", "beta", "hamiltonian", "eigen", "x", "y", "data", "Ünï", "a1", "_hidden_no", "with space", "n0"]
        if self.rng.random() < 0.5:
            cand = pool[int(self.rng.integers(len(pool)))]
            if cand not in model.attrs and not cand.startswith("_") and cand not in RESERVED:
                return cand
        return f"at{self.counter}"

    def pick_mem(self):
        return self.mems[int(self.rng.integers(len(self.mems)))]

    def step_create(self):
        V, rng = self.V, self.rng
        if len(self.mems) >= 4:
            return
        label = f"m{len(self.mems)}_{len(self.trace)}"
        idents = ()
        dn = "generic"
        kw = {}
        if rng.random() < 0.4:
            dn = ["qchem", "c64-data", "ünï"][int(rng.integers(3))]
            kw["data_name"] = dn
        model = V.DSModel(data_name=dn)
        ds = None
        pairs = []
        for j in range(int(rng.integers(0, 5))):
            entry, real = self.gen_entry(None)
            pairs.append((self.fresh_name(model) if rng.random() < 0.5 else f"c{len(self.trace)}_{j}", entry, real))
        names = [p[0] for p in pairs]
        if names and rng.random() < 0.4:
            idents = tuple(names[: int(rng.integers(1, min(3, len(names)) + 1))])
            kw["identifiers"] = idents
        model.identifiers = idents
        ds = self.Dataset(**kw)
        for name, entry, real in pairs:
            if name in model.attrs:
                continue
            self.assign(ds, model, name, entry, real, f"create {label}")
        self.mems.append([ds, model, label])
        self.log(f"create {label} attrs={ {n: V.shape_str(e.value) for n, e in model.attrs.items()} } identifiers={idents} data_name={dn}")
        self.check_view(ds, model, f"in-memory {label} after creation")

    def step_set(self):
        ds, model, label = self.pick_mem()
        name = self.fresh_name(model)
        entry, real = self.gen_entry(None)
        self.log(f"set {label}.{name}={self.V.shape_str(entry.value)} via={entry.via}/{entry.codec}")
        self.assign(ds, model, name, entry, real, f"set on {label}")
        self.check_view(ds, model, f"in-memory {label} after set {name}")

    def step_delete(self):
        ds, model, label = self.pick_mem()
        if not model.attrs:
            return
        name = list(model.attrs)[int(self.rng.integers(len(model.attrs)))]
        self.log(f"delete {label}.{name}")
        self.ctx.ev("c64.history")
        try:
            delattr(ds, name)
        except Exception as e:  # noqa: BLE001
            self.violate("c64.history", f"history:delete:raises:{type(e).__name__}", f"del {label}.{name} raised {type(e).__name__}: {e}")
            return
        del model.attrs[name]
        self.check_view(ds, model, f"in-memory {label} after delete {name}")

    def step_replace(self):
        """Overwrite an attribute the supported way: delete, then assign a value of (usually) another type."""
        ds, model, label = self.pick_mem()
        if not model.attrs:
            return
        name = list(model.attrs)[int(self.rng.integers(len(model.attrs)))]
        entry, real = self.gen_entry(None)
        self.log(f"replace {label}.{name}={self.V.shape_str(entry.value)}")
        try:
            delattr(ds, name)
        except Exception as e:  # noqa: BLE001
            self.violate("c64.history", f"history:delete:raises:{type(e).__name__}", f"del {label}.{name} raised {type(e).__name__}: {e}")
            return
        del model.attrs[name]
        self.assign(ds, model, name, entry, real, f"replace on {label}")
        self.check_view(ds, model, f"in-memory {label} after replace {name}")

    def step_reassign(self):
        """Direct re-assignment of an existing attribute: either it works (new value) or it raises and the old value is intact."""
        ds, model, label = self.pick_mem()
        if not model.attrs:
            return
        name = list(model.attrs)[int(self.rng.integers(len(model.attrs)))]
        m, r = self.twin(lambda g: self.V.g_leaf(g, ["scalar", "str", "array", "none"][int(g.integers(4))]))
        self.log(f"reassign {label}.{name}={self.V.shape_str(m)}")
        self.ctx.ev("c64.history")
        try:
            setattr(ds, name, r)
        except Exception as e:  # noqa: BLE001
            self.ctx.reject(f"reassign-existing:{type(e).__name__}")
            self.check_view(ds, model, f"in-memory {label} after refused re-assignment of {name}")
            return
        model.attrs[name] = self.V.Entry(m)
        try:
            model.attrs[name].py_type = ds.attr_info[name].py_type
        except Exception:  # noqa: BLE001
            pass
        self.check_view(ds, model, f"in-memory {label} after re-assignment of {name}")

    # ---- in-place edits of list / dict attributes
    def step_edit(self, target=None):
        V, rng = self.V, self.rng
        ds, model, label = target or self.pick_mem()
        cands = [n for n, e in model.attrs.items() if type(e.value) in (list, dict) and e.codec == "default" and n not in self.broken]
        if not cands:
            return
        name = cands[int(rng.integers(len(cands)))]
        e = model.attrs[name]
        try:
            real = getattr(ds, name)
        except Exception:  # noqa: BLE001 - reported by check_view
            return
        # descend one level sometimes
        path = name
        cur_m, setter = e.value, None
        if rng.random() < 0.3:
            if isinstance(cur_m, list):
                idx = [k for k, x in enumerate(cur_m) if type(x) in (list, dict)]
            else:
                idx = [k for k, x in cur_m.items() if type(x) in (list, dict)]
            if idx:
                k = idx[int(rng.integers(len(idx)))]
                parent_m = cur_m
                try:
                    real = real[k]
                except Exception:  # noqa: BLE001
                    return
                path = f"{name}[{k!r}]"
                cur_m = parent_m[k]

                def setter(newv, parent_m=parent_m, k=k):
                    if isinstance(parent_m, list):
                        return parent_m[:k] + [newv] + parent_m[k + 1:]
                    d = dict(parent_m)
                    d[k] = newv
                    return d
        self.ctx.ev("c64.history")
        m, r = self.twin(lambda g: V.g_value(g, 2, allow_ds=False))
        r = V.realize(r)
        try:
            if isinstance(cur_m, list):
                n = len(cur_m)
                kind = ["append", "insert", "setitem", "delitem", "extend", "pop", "insert-neg"][int(rng.integers(7))]
                if kind in ("setitem", "delitem", "pop") and n == 0:
                    kind = "append"
                if kind == "append":
                    real.append(r)
                    new = cur_m + [m]
                elif kind == "insert":
                    k = int(rng.integers(0, n + 2))
                    real.insert(k, r)
                    new = list(cur_m)
                    new.insert(k, m)
                elif kind == "insert-neg":
                    k = -int(rng.integers(1, n + 3))
                    real.insert(k, r)
                    new = list(cur_m)
                    new.insert(k, m)
                elif kind == "setitem":
                    k = int(rng.integers(-n, n))
                    real[k] = r
                    new = list(cur_m)
                    new[k] = m
                elif kind == "delitem":
                    k = int(rng.integers(-n, n))
                    del real[k]
                    new = list(cur_m)
                    del new[k]
                elif kind == "pop":
                    real.pop()
                    new = cur_m[:-1]
                else:
                    m2, r2 = self.twin(lambda g: V.g_value(g, 3, allow_ds=False))
                    real.extend([r, V.realize(r2)])
                    new = cur_m + [m, m2]
                origin = f"list-{kind}"
            else:
                kind = ["set-new", "set-existing", "del", "update"][int(rng.integers(4))]
                if kind in ("set-existing", "del") and not cur_m:
                    kind = "set-new"
                if kind == "set-new":
                    k = V.g_key(rng, cur_m)
                    real[k] = r
                    new = dict(cur_m)
                    new[k] = m
                elif kind == "set-existing":
                    k = list(cur_m)[int(rng.integers(len(cur_m)))]
                    real[k] = r
                    new = dict(cur_m)
                    new[k] = m
                elif kind == "del":
                    k = list(cur_m)[int(rng.integers(len(cur_m)))]
                    del real[k]
                    new = dict(cur_m)
                    del new[k]
                else:
                    k1, k2 = V.g_key(rng, cur_m), (list(cur_m)[0] if cur_m else "upd")
                    m2, r2 = self.twin(lambda g: V.g_leaf(g))
                    real.update({k1: r, k2: r2})
                    new = dict(cur_m)
                    new.update({k1: m, k2: m2})
                origin = f"dict-{kind}"
        except Exception as ex:  # noqa: BLE001
            if self.contains_pytree(m):
                self.ctx.reject(f"pytree-unsupported:nested-edit:{type(ex).__name__}")
                self.log(f"edit {label}.{path} refused ({type(ex).__name__})")
                # the refused element may have been half-written: re-read what is there and keep the model only if it still matches
                self.resync(ds, model, label, name)
                return
            self.violate("c64.history", f"history:edit:raises:{type(ex).__name__}", f"in-place edit of {label}.{path} ({V.shape_str(cur_m)}) with {V._short(m)} raised {type(ex).__name__}: {ex}")
            self.resync(ds, model, label, name)
            return
        self.log(f"edit {label}.{path} {origin} {V.shape_str(m)}")
        self.keys.append((origin, fingerprint(repr(V.vkey(m)))))
        newtop = setter(new) if setter else new
        ne = e.with_value(newtop)
        ne.origin = origin
        model.attrs[name] = ne
        self.check_view(ds, model, f"in-memory {label} after {origin} on {path}")
        return ds, model, label

    def resync(self, ds, model, label, name):
        """After a refused in-place edit the container may hold a partial element; drop the attribute from both sides."""
        try:
            delattr(ds, name)
        except Exception:  # noqa: BLE001
            pass
        model.attrs.pop(name, None)

    def step_edit_nested(self):
        """Modify a nested dataset through its parent (writes through to the parent's group)."""
        V, rng = self.V, self.rng
        ds, model, label = self.pick_mem()
        cands = [n for n, e in model.attrs.items() if isinstance(e.value, V.DSModel)]
        if not cands:
            return
        name = cands[int(rng.integers(len(cands)))]
        e = model.attrs[name]
        child_model = e.value.copy()
        try:
            child = getattr(ds, name)
        except Exception:  # noqa: BLE001
            return
        entry, real = self.gen_entry(None, allow_ds=False)
        an = f"nested{len(self.trace)}"
        self.log(f"edit-nested {label}.{name}.{an}={V.shape_str(entry.value)}")
        if not self.assign(child, child_model, an, entry, real, f"set on nested dataset {label}.{name}"):
            return
        ne = e.with_value(child_model)
        ne.origin = "nested-set"
        model.attrs[name] = ne
        self.check_view(ds, model, f"in-memory {label} after setting {name}.{an} through the nested view")

    # ---- files
    def pick_path(self, want_existing):
        ex = list(self.files)
        if want_existing and ex:
            return ex[int(self.rng.integers(len(ex)))]
        if not want_existing and len(ex) < 3:
            return self.newpath()
        return ex[int(self.rng.integers(len(ex)))] if ex else self.newpath()

    def step_write(self):
        rng = self.rng
        ds, model, label = self.pick_mem()
        path = self.pick_path(want_existing=rng.random() < 0.55)
        mode = ["w", "a", "a", "w-"][int(rng.integers(4))]
        attributes, overwrite = None, bool(rng.random() < 0.4)
        if model.attrs and rng.random() < 0.35:
            k = int(rng.integers(1, len(model.attrs) + 1))
            attributes = [list(model.attrs)[int(j)] for j in rng.choice(len(model.attrs), size=k, replace=False)]
        self.log(f"write {label} -> {os.path.basename(path)} mode={mode} attributes={attributes} overwrite={overwrite} exists={os.path.exists(path)}")
        if self.do_write(ds, model, path, mode, attributes, overwrite, where=f"write {label}"):
            self.check_file(path, f"after write of {label} (mode={mode!r}, attributes={attributes}, overwrite={overwrite})")
        elif path in self.files:
            self.check_file(path, "after refused write (mode 'w-' on existing file): file must be intact")
        self.check_view(ds, model, f"in-memory {label} after being written")

    def step_write_ds(self):
        """write() into another Dataset object."""
        rng = self.rng
        if len(self.mems) < 2:
            return self.step_create()
        a, b = [int(x) for x in rng.choice(len(self.mems), size=2, replace=False)]
        (ds, model, label), (ds2, model2, label2) = self.mems[a], self.mems[b]
        overwrite = bool(rng.random() < 0.5)
        attributes = None
        if model.attrs and rng.random() < 0.4:
            attributes = [list(model.attrs)[int(rng.integers(len(model.attrs)))]]
        self.log(f"write-ds {label} -> {label2} attributes={attributes} overwrite={overwrite}")
        self.ctx.ev("c64.history")
        kw = {"attributes": attributes} if attributes else {}
        try:
            ds.write(ds2, overwrite=overwrite, **kw)
        except Exception as e:  # noqa: BLE001
            self.violate("c64.history", f"history:write-ds:raises:{type(e).__name__}", f"{label}.write({label2}) raised {type(e).__name__}: {e}")
            return
        old = dict(model2.attrs)
        self.merge(model, model2, attributes, overwrite)
        self.stale_check(ds2, model2, old, label2, f"{label}.write({label2}, overwrite={overwrite})")
        self.check_view(ds2, model2, f"in-memory {label2} after {label}.write({label2}, overwrite={overwrite}, attributes={attributes})")
        self.check_view(ds, model, f"in-memory {label} (source) after write into {label2}")

    def stale_check(self, ds, model, old, label, what):
        """Classifier for one mechanism: after write()/read() replaced attributes of a *live* destination dataset, the live view must
        return the new values.  A view that still returns exactly the previous value is reported under its own mechanism tag."""
        V = self.V
        for name, e in model.attrs.items():
            o = old.get(name)
            if o is None or o is e or name in self.broken:
                continue
            self.ctx.ev("c64.history")
            try:
                got = getattr(ds, name)
                new_d = V.deq(e.value, got, name, [], e.codec)
                old_d = V.deq(o.value, got, name, [], o.codec) if new_d else [1]
            except Exception:  # noqa: BLE001 - left to check_view
                continue
            if new_d and not old_d:
                self.broken.add(name)
                self.violate("c64.history", "history:overwrite-live-dataset:stale-value",
                             f"{what}: attribute {name!r} of the live destination {label} still reads its previous value {V._short(o.value)} "
                             f"instead of the copied {V._short(e.value)} (it had been read before the copy)", {"attr": name})

    def step_read(self):
        rng = self.rng
        if not self.files:
            return self.step_write()
        ds, model, label = self.pick_mem()
        path = self.pick_path(True)
        src = self.files[path]
        overwrite = bool(rng.random() < 0.5)
        attributes = None
        if src.attrs and rng.random() < 0.4:
            attributes = [list(src.attrs)[int(rng.integers(len(src.attrs)))]]
        self.log(f"read {label} <- {os.path.basename(path)} attributes={attributes} overwrite={overwrite}")
        self.ctx.ev("c64.history")
        kw = {"attributes": attributes} if attributes else {}
        try:
            ds.read(path, overwrite=overwrite, **kw)
        except Exception as e:  # noqa: BLE001
            self.violate("c64.history", f"history:read:raises:{type(e).__name__}", f"{label}.read({os.path.basename(path)}) raised {type(e).__name__}: {e}")
            return
        self.reopened = True
        old = dict(model.attrs)
        self.merge(src, model, attributes, overwrite)
        self.stale_check(ds, model, old, label, f"{label}.read(file, overwrite={overwrite})")
        self.check_view(ds, model, f"in-memory {label} after read from file (overwrite={overwrite}, attributes={attributes})")
        self.check_file(path, "source file after being read")

    def step_open_copy(self):
        if not self.files:
            return self.step_write()
        if len(self.mems) >= 5:
            return
        path = self.pick_path(True)
        self.log(f"open-copy {os.path.basename(path)}")
        self.ctx.ev("c64.history")
        try:
            c = self.Dataset.open(path, "copy")
        except Exception as e:  # noqa: BLE001
            self.violate("c64.history", f"history:open-copy-raises:{type(e).__name__}", f"open(..., 'copy') raised {type(e).__name__}: {e}")
            return
        self.reopened = True
        label = f"copy{len(self.trace)}"
        model = self.files[path].copy()
        self.mems.append([c, model, label])
        self.check_view(c, model, f"detached copy {label}")
        # a detached copy must really be detached: change it, the file must not move
        name = self.fresh_name(model)
        entry, real = self.gen_entry(None, allow_ds=False)
        self.log(f"set {label}.{name}={self.V.shape_str(entry.value)} (detached)")
        self.assign(c, model, name, entry, real, f"set on detached copy {label}")
        if model.attrs and self.rng.random() < 0.5:
            victim = list(model.attrs)[0]
            try:
                delattr(c, victim)
                del model.attrs[victim]
                self.log(f"delete {label}.{victim} (detached)")
            except Exception as e:  # noqa: BLE001
                self.violate("c64.history", f"history:delete:raises:{type(e).__name__}", f"del on detached copy raised {type(e).__name__}: {e}")
        self.check_file(path, "file after its detached copy was modified")

    def step_open_a(self):
        """Edit a file in place through an 'a' view: set / delete / in-place edits are committed to the file."""
        rng = self.rng
        path = self.pick_path(want_existing=rng.random() < 0.8)
        exists = path in self.files
        self.log(f"open-a {os.path.basename(path)} exists={exists}")
        self.ctx.ev("c64.history")
        try:
            v = self.Dataset.open(path, "a")
        except Exception as e:  # noqa: BLE001
            self.violate("c64.history", f"history:open-a-raises:{type(e).__name__}", f"open(..., 'a') raised {type(e).__name__}: {e}")
            return
        model = self.files[path].copy() if exists else self.V.DSModel()
        self.files[path] = model
        label = f"file:{os.path.basename(path)}"
        try:
            if exists:
                self.reopened = True
                self.check_view(v, model, f"'a' view of {label} right after opening")
            for _ in range(int(rng.integers(1, 4))):
                r = rng.random()
                if r < 0.5 or not model.attrs:
                    name = self.fresh_name(model)
                    entry, real = self.gen_entry(None)
                    self.log(f"set {label}.{name}={self.V.shape_str(entry.value)} (on disk)")
                    self.assign(v, model, name, entry, real, f"set through 'a' view of {label}")
                elif r < 0.7:
                    name = list(model.attrs)[int(rng.integers(len(model.attrs)))]
                    self.log(f"delete {label}.{name} (on disk)")
                    try:
                        delattr(v, name)
                        del model.attrs[name]
                    except Exception as e:  # noqa: BLE001
                        self.violate("c64.history", f"history:delete:raises:{type(e).__name__}", f"del through 'a' view raised {type(e).__name__}: {e}")
                else:
                    self.step_edit(target=(v, model, label))
            self.check_view(v, model, f"'a' view of {label} after edits")
        finally:
            v.close()
        self.check_file(path, f"after editing {label} through an 'a' view and closing it")

    def step_open_w(self):
        """Dataset.open(path, 'w') creates a new (truncated) dataset on disk."""
        rng = self.rng
        path = self.pick_path(want_existing=rng.random() < 0.6)
        self.log(f"open-w {os.path.basename(path)} exists={path in self.files}")
        self.ctx.ev("c64.history")
        try:
            v = self.Dataset.open(path, "w")
        except Exception as e:  # noqa: BLE001
            self.violate("c64.history", f"history:open-w-raises:{type(e).__name__}", f"open(..., 'w') raised {type(e).__name__}: {e}")
            return
        model = self.V.DSModel()
        self.files[path] = model
        label = f"file:{os.path.basename(path)}"
        try:
            self.check_view(v, model, f"'w' view of {label} right after opening (must be empty)")
            for _ in range(int(rng.integers(0, 3))):
                name = self.fresh_name(model)
                entry, real = self.gen_entry(None)
                self.log(f"set {label}.{name}={self.V.shape_str(entry.value)} (on disk, new file)")
                self.assign(v, model, name, entry, real, f"set through 'w' view of {label}")
        finally:
            v.close()
        self.check_file(path, f"after creating {label} with open(..., 'w')")

    def step_open_r(self):
        """Read-only views refuse modifications ("will fail if the file is opened read-only") and leave the file intact; 'w-' refuses existing files."""
        rng = self.rng
        if not self.files:
            return self.step_write()
        path = self.pick_path(True)
        model = self.files[path]
        self.log(f"open-r {os.path.basename(path)} + refused modifications")
        self.ctx.ev("c64.history")
        try:
            self.Dataset.open(path, "w-").close()
            self.violate("c64.history", "history:open-w-:accepted-existing", "Dataset.open(path, 'w-') on an existing file did not fail")
            self.files[path] = self.V.DSModel()
            return
        except OSError:
            self.ctx.reject("w-:file-exists")
        try:
            v = self.Dataset.open(path, "r")
        except Exception as e:  # noqa: BLE001
            self.violate("c64.history", f"history:open-r-raises:{type(e).__name__}", f"open(..., 'r') raised {type(e).__name__}: {e}")
            return
        self.reopened = True
        try:
            k = ["scalar", "str", "list", "dict", "array", "none"][int(rng.integers(6))]
            m, real = self.twin(lambda g: self.V.g_value(g, 2, kind=k, allow_ds=False))
            entry = self.V.Entry(m)
            self.ctx.ev("c64.history")
            try:
                setattr(v, "ro_new", real)
                self.violate("c64.history", "history:open-r:set-accepted", f"setting an attribute ({self.V.shape_str(entry.value)}) on a read-only view did not fail")
            except Exception:  # noqa: BLE001 - documented: "will fail if the file is opened read-only"
                self.ctx.reject("read-only:set")
            if model.attrs:
                name = list(model.attrs)[int(rng.integers(len(model.attrs)))]
                try:
                    delattr(v, name)
                    self.violate("c64.history", "history:open-r:delete-accepted", f"deleting attribute {name!r} on a read-only view did not fail")
                except Exception:  # noqa: BLE001
                    self.ctx.reject("read-only:delete")
                lists = [n for n, e in model.attrs.items() if type(e.value) is list and e.codec == "default" and n not in self.broken]
                if lists:
                    try:
                        getattr(v, lists[0]).append(1)
                        self.violate("c64.history", "history:open-r:append-accepted", f"appending to list attribute {lists[0]!r} on a read-only view did not fail")
                    except Exception:  # noqa: BLE001
                        self.ctx.reject("read-only:append")
            self.check_view(v, model, "read-only view after refused modifications")
        finally:
            v.close()
        self.check_file(path, "file after refused modifications on a read-only view")

    def step_nest(self):
        """Store a dataset inside another one (directly, in a list or in a dict): the stored copy is independent of the source."""
        V, rng = self.V, self.rng
        if len(self.mems) < 2:
            return self.step_create()
        a, b = [int(x) for x in rng.choice(len(self.mems), size=2, replace=False)]
        (ds, model, label), (inner, inner_model, inner_label) = self.mems[a], self.mems[b]
        if any(n in self.broken for n in inner_model.attrs) or any(e.codec != "default" and False for e in inner_model.attrs.values()):
            return
        name = self.fresh_name(model)
        snap = V.DSModel(dict(inner_model.attrs), "generic", ())
        # nested datasets keep their own data_name/identifiers in the file, the model only follows their attributes
        how = int(rng.integers(3))
        self.ctx.ev("c64.history")
        try:
            if how == 0:
                setattr(ds, name, inner)
                val = snap
            elif how == 1:
                setattr(ds, name, [inner, 7])
                val = [snap, 7]
            else:
                setattr(ds, name, {"inner": inner, "n": "x"})
                val = {"inner": snap, "n": "x"}
        except Exception as e:  # noqa: BLE001
            self.cleanup_failed(ds, model, name)
            self.violate("c64.history", f"history:nest:raises:{type(e).__name__}", f"storing dataset {inner_label} inside {label} raised {type(e).__name__}: {e}")
            return
        entry = V.Entry(val)
        entry.origin = "nest"
        model.attrs[name] = entry
        try:
            entry.py_type = ds.attr_info[name].py_type
        except Exception:  # noqa: BLE001
            pass
        self.log(f"nest {label}.{name} <- {inner_label} ({['direct', 'in list', 'in dict'][how]}) attrs={sorted(snap.attrs)}")
        self.check_view(ds, model, f"in-memory {label} after nesting {inner_label}")
        # the source keeps living: changing it afterwards must not change the nested copy
        n2 = self.fresh_name(inner_model)
        e2, r2 = self.gen_entry("scalar")
        self.assign(inner, inner_model, n2, e2, r2, f"set on {inner_label} after it was nested")
        self.log(f"set {inner_label}.{n2} after nesting")
        self.check_view(ds, model, f"in-memory {label} after the nested source {inner_label} was modified")

    def step_attr_copy(self):
        """copy.copy / copy_value / DatasetList.copy of attributes give detached equal values."""
        V, rng = self.V, self.rng
        ds, model, label = self.pick_mem()
        cands = [n for n in model.attrs if n not in self.broken]
        if not cands:
            return
        name = cands[int(rng.integers(len(cands)))]
        e = model.attrs[name]
        self.log(f"attr-copy {label}.{name}")
        self.ctx.ev("c64.value")
        try:
            attr = ds.attrs[name]
            c = _copy.copy(attr) if rng.random() < 0.5 else _copy.deepcopy(attr)
            got = c.get_value()
            cv = attr.copy_value()
        except Exception as ex:  # noqa: BLE001
            self.violate("c64.value", f"copy:raises:{type(ex).__name__}", f"copy/copy_value of attribute {label}.{name} ({V.shape_str(e.value)}) raised {type(ex).__name__}: {ex}")
            return
        for what, g in (("copy.copy(attr).get_value()", got), ("attr.copy_value()", cv)):
            diffs = V.deq(e.value, g, name, [], e.codec)
            for d in diffs[:2]:
                m0 = self.mech_of(d.tag, e)
                self.violate("c64.value", m0 if m0.startswith("roundtrip:") and not d.tag.startswith(CONTAINER_TAGS) else f"copy:{d.tag}", f"{what} of {label}.{name} differs from the stored value: {d.detail}", {"attr": name})
        if isinstance(e.value, list) and e.codec == "default" and isinstance(cv, list):
            # copy_value of a list is a builtin list detached from the dataset
            cv.append("detached")
            self.check_view(ds, model, f"in-memory {label} after mutating a copy_value() of {name}")


RESERVED = {"bind", "attrs", "info", "fields", "identifiers", "data_name", "attr_info", "close", "open", "read", "write", "list_attributes", "type_id", "bind_", "data_name_"}

DECL_DOCS = {"ident": "identifier field", "scal": "a float field", "arr": "array field", "lst": "list field", "dct": "dict field", "tup": "tuple field",
             "ham": "legacy operator codec field", "op": "operator field (pytree)", "spm": "sparse field", "js": "json field", "mol": "molecule field", "nothing": "none field"}


def make_declared(qp):
    D = qp.data
    import scipy.sparse as sp

    class C64Declared(D.Dataset, data_name="c64decl", identifiers=("ident", "scal")):
        """Declarative dataset used by the C64 workload."""

        ident: str = D.field(doc=DECL_DOCS["ident"])
        scal: float = D.field(doc=DECL_DOCS["scal"])
        arr: np.ndarray = D.field(doc=DECL_DOCS["arr"])
        lst: list = D.field(doc=DECL_DOCS["lst"])
        dct: dict = D.field(doc=DECL_DOCS["dct"])
        tup: tuple = D.field(doc=DECL_DOCS["tup"])
        ham: qp.Hamiltonian = D.field(D.DatasetOperator, doc=DECL_DOCS["ham"])
        op: qp.Hamiltonian = D.field(doc=DECL_DOCS["op"])
        spm: sp.csr_array = D.field(doc=DECL_DOCS["spm"])
        js: dict = D.field(D.DatasetJSON, doc=DECL_DOCS["js"])
        mol: qp.qchem.Molecule = D.field(doc=DECL_DOCS["mol"])
        nothing: type(None) = D.field(doc=DECL_DOCS["nothing"])

    return C64Declared
