"""C14 — Unitary synthesis reproduces any unitary.

Post-conditions on the real ``qp.ops.one_qubit_decomposition`` (every rotation convention, with and without the global
phase), ``two_qubit_decomposition``, ``multi_qubit_decomposition`` and on the ``QubitUnitary`` decomposition rules
(``qp.list_decomps(QubitUnitary instance)``, invoked like the framework does):

* ``synth.matrix``   – the product of the emitted gates, multiplied by the independent R-SV simulator from R-GATES
                        matrices of RX/RY/RZ/Rot/CNOT/GlobalPhase/QubitUnitary (+ an own multiplexer matrix for
                        SelectPauliRot, built from the operator's data), equals U — exactly where the contract includes the global
                        phase, up to a phase for ``one_qubit_decomposition(..., return_global_phase=False)``;
* ``synth.cnots``    – two-qubit synthesis emits at most three two-qubit gates (CNOTs), and only documented gate types.

Workload: Haar unitaries (1–4 qubits) and structured edge families: identity, the 24 single-qubit Cliffords,
A(x)B products, controlled-U, SWAP/iSWAP/sqrt-SWAP, CNOT-equivalents, diagonal, permutation and real orthogonal matrices,
det != 1, near-singular Euler angles, and *boundary walkers* exp(i(a XX + b YY + c ZZ)) whose canonical parameters approach
the 0/1/2/3-CNOT class boundaries at distance t = 1e-2 ... 1e-12, dressed with random local unitaries.
"""
import itertools

import numpy as np

from pv.ctx import fingerprint

META = {
    "id": "C14",
    "level": "exploration",
    "technique": "runtime post-condition on the unitary-synthesis functions and QubitUnitary rules: independent product of the emitted "
                 "gates vs. the input unitary on Haar + adversarial boundary unitaries",
    "level_text": "Every synthesis entry point is called on Haar-random and structured edge unitaries (all CNOT-count classes, class "
                  "boundaries approached down to 1e-12, degenerate Euler angles, det != 1) and the emitted circuit is multiplied out by an "
                  "independent simulator and compared with the input; two-qubit outputs are also checked for <= 3 CNOTs. Held on the "
                  "unitaries observed.",
    "level_note": "Trusts numpy and the R-GATES table; SelectPauliRot is modelled from its documented definition (multiplexed rotation). "
                  "Tolerance 1e-7*||U||_F on the Frobenius distance (DESIGN: documented numerical algorithm). Sparse / batched / traced (jax.jit, capture) inputs are not exercised.",
    "shards": {"quick": 2, "thorough": 16},
    "budget_s": {"quick": 50, "thorough": 200},
    "min_evals": {"quick": 1500, "thorough": 20000},
    "min_nontrivial": {"quick": 300, "thorough": 5000},
    "deciding": ["synth.matrix", "synth.cnots"],
    "rule": "case = (entry point, unitary); distinct = distinct (entry point, family, matrix bytes); non-trivial = unitary is not the identity "
            "up to phase",
    "assumptions": ["reference gate table transcribes the documented formulas"],
}

TOL = 1e-7          # x ||U||_F on the Frobenius distance (design: documented numerical algorithm, boundary cases lose digits)
I2 = np.eye(2, dtype=complex)
X = np.array([[0, 1], [1, 0]], dtype=complex)
Y = np.array([[0, -1j], [1j, 0]], dtype=complex)
Z = np.diag([1, -1]).astype(complex)
H = (X + Z) / np.sqrt(2)
S = np.diag([1, 1j])
CNOT = np.array([[1, 0, 0, 0], [0, 1, 0, 0], [0, 0, 0, 1], [0, 0, 1, 0]], dtype=complex)
SWAP = np.array([[1, 0, 0, 0], [0, 0, 1, 0], [0, 1, 0, 0], [0, 0, 0, 1]], dtype=complex)


def _expm_herm(Hm):
    w, V = np.linalg.eigh(Hm)
    return (V * np.exp(1j * w)) @ V.conj().T


def _rot(axis, th):
    P = {"X": X, "Y": Y, "Z": Z}[axis]
    return np.cos(th / 2) * I2 - 1j * np.sin(th / 2) * P


def cliffords():
    """The 24 single-qubit Cliffords (modulo phase) by closure of {H, S}."""
    out, frontier = [I2], [I2]
    def key(M):
        idx = np.flatnonzero(np.abs(M.reshape(-1)) > 1e-9)[0]
        ph = M.reshape(-1)[idx] / abs(M.reshape(-1)[idx])
        return tuple(np.round(M / ph, 6).reshape(-1))
    seen = {key(I2)}
    while frontier:
        nxt = []
        for M in frontier:
            for G in (H, S):
                N = G @ M
                k = key(N)
                if k not in seen:
                    seen.add(k)
                    out.append(N)
                    nxt.append(N)
        frontier = nxt
    return out


def canonical(a, b, c):
    XX, YY, ZZ = np.kron(X, X), np.kron(Y, Y), np.kron(Z, Z)
    return _expm_herm(a * XX + b * YY + c * ZZ)


def one_qubit_family(rng, sv, k):
    fams = []
    cl = cliffords()
    for i, C in enumerate(cl):
        fams.append((f"clifford{i}", C))
    fams.append(("identity", I2))
    fams.append(("minus-identity", -I2))
    for _ in range(k):
        ph = np.exp(1j * rng.uniform(-np.pi, np.pi))
        fams.append(("haar", sv.haar_unitary(rng, 2)))
        fams.append(("haar-phase", ph * sv.haar_unitary(rng, 2)))
        fams.append(("diagonal", np.diag(np.exp(1j * rng.uniform(-np.pi, np.pi, size=2)))))
        fams.append(("antidiagonal", X @ np.diag(np.exp(1j * rng.uniform(-np.pi, np.pi, size=2)))))
        eps = 10.0 ** -float(rng.integers(2, 14))
        ax = "XYZ"[int(rng.integers(3))]
        base = [0.0, np.pi, -np.pi, np.pi / 2, 2 * np.pi][int(rng.integers(5))]
        fams.append((f"near-singular-{ax}", ph * _rot("Z", rng.uniform(-3, 3)) @ _rot(ax, base + eps) @ _rot("Z", rng.uniform(-3, 3))))
        fams.append(("real-orthogonal", _rot("Y", rng.uniform(-6, 6)) @ (Z if rng.random() < 0.5 else I2)))
        fams.append(("clifford-phase", ph * cl[int(rng.integers(len(cl)))]))
    return fams


def two_qubit_family(rng, sv, k):
    def loc():
        return np.kron(sv.haar_unitary(rng, 2), sv.haar_unitary(rng, 2))

    def dress(M):
        return np.exp(1j * rng.uniform(-np.pi, np.pi)) * loc() @ M @ loc()
    q = np.pi / 4
    fams = [("identity", np.eye(4, dtype=complex)), ("swap", SWAP), ("cnot", CNOT), ("cnot-rev", SWAP @ CNOT @ SWAP),
            ("cz", np.diag([1, 1, 1, -1]).astype(complex)), ("iswap", canonical(q, q, 0)), ("sqrt-swap", canonical(q / 2, q / 2, q / 2)),
            ("sqrt-iswap", canonical(q / 2, q / 2, 0)), ("minus-identity", -np.eye(4, dtype=complex)), ("i-swap-phase", 1j * SWAP)]
    for p in itertools.permutations(range(4)):
        fams.append(("permutation", np.eye(4, dtype=complex)[list(p)]))
    for _ in range(k):
        fams.append(("haar", sv.haar_unitary(rng, 4)))
        fams.append(("product", np.exp(1j * rng.uniform(-3, 3)) * loc()))
        fams.append(("controlled-u", np.block([[np.eye(2), np.zeros((2, 2))], [np.zeros((2, 2)), sv.haar_unitary(rng, 2)]]).astype(complex)))
        fams.append(("diagonal", np.diag(np.exp(1j * rng.uniform(-np.pi, np.pi, size=4)))))
        Q, _ = np.linalg.qr(rng.normal(size=(4, 4)))
        fams.append(("real-orthogonal", Q.astype(complex)))
        fams.append(("cnot-equivalent", dress(CNOT)))
        fams.append(("swap-equivalent", dress(SWAP)))
        fams.append(("2cnot-class", dress(canonical(rng.uniform(0, q), rng.uniform(0, q), 0.0))))
        fams.append(("1cnot-class", dress(canonical(q, 0.0, 0.0))))
        fams.append(("3cnot-class", dress(canonical(*rng.uniform(0.05, q - 0.05, size=3)))))
        # boundary walkers
        t = 10.0 ** -float(rng.uniform(2, 12))
        kind = int(rng.integers(6))
        a, b = rng.uniform(0.1, q - 0.1, size=2)
        walker = [("walk-0cnot", (t, 0, 0)), ("walk-0cnot-3", (t, t * rng.random(), t * rng.random())), ("walk-1cnot", (q - t, 0, 0)),
                  ("walk-1cnot-b", (q, t, 0)), ("walk-2cnot", (a, b, t)), ("walk-swap", (q, q, q - t))][kind]
        fams.append((walker[0] + f"-1e{int(np.floor(np.log10(t)))}", dress(canonical(*walker[1]))))
    return fams


def multi_family(rng, sv, n, k):
    d = 2**n
    fams = [("identity", np.eye(d, dtype=complex))]
    w = np.exp(2j * np.pi / d)
    fams.append(("qft", np.array([[w ** (i * j) for j in range(d)] for i in range(d)]) / np.sqrt(d)))
    for _ in range(k):
        fams.append(("haar", sv.haar_unitary(rng, d)))
        fams.append(("diagonal", np.diag(np.exp(1j * rng.uniform(-np.pi, np.pi, size=d)))))
        fams.append(("permutation", np.eye(d, dtype=complex)[rng.permutation(d)]))
        M = np.ones((1, 1), dtype=complex)
        for _i in range(n):
            M = np.kron(M, sv.haar_unitary(rng, 2))
        fams.append(("product", M))
        B = np.eye(d, dtype=complex)
        B[d // 2:, d // 2:] = sv.haar_unitary(rng, d // 2)
        fams.append(("controlled-u", B))
        Q, _ = np.linalg.qr(rng.normal(size=(d, d)))
        fams.append(("real-orthogonal", Q.astype(complex)))
        fams.append(("haar-phase", np.exp(1j * rng.uniform(-3, 3)) * sv.haar_unitary(rng, d)))
    return fams


_PER_MECH = {}


def _viol(ctx, monitor, message, case=None, mech=None, observed=None, expected=None):
    """At most 3 witnesses per mechanism and shard (the bus keeps 40 per shard): further ones are only counted."""
    n = _PER_MECH.get(mech, 0)
    _PER_MECH[mech] = n + 1
    if n < 3:
        ctx.violation(monitor, message, case=case, mech=mech, observed=observed, expected=expected)
    else:
        ctx.count(f"more_witnesses[{mech}]")


def run(ctx):  # noqa: C901
    import warnings

    import pennylane as qp

    from pv.ref import bridge, c10_circuit as CC, gates as G, sv

    warnings.filterwarnings("ignore")
    rng = ctx.rng
    max_err = {"1q": 0.0, "2q": 0.0, "nq": 0.0}

    def select_pauli_rot_matrix(o):
        ang = np.asarray(o.data[0] if len(o.data) else o.arguments["angles"], dtype=float).reshape(-1)
        axis = o.hyperparameters["rot_axis"] if hasattr(o, "hyperparameters") and "rot_axis" in o.hyperparameters else o.arguments["rot_axis"]
        nc = int(np.log2(len(ang)))
        M = np.zeros((2 ** (nc + 1), 2 ** (nc + 1)), dtype=complex)
        for i, th in enumerate(ang):
            M[2 * i:2 * i + 2, 2 * i:2 * i + 2] = _rot(axis, th)
        return M          # on control wires + target wire (target last)

    def product(ops_, wires):
        gates = []
        for o in ops_:
            nm = type(o).__name__
            if nm == "SelectPauliRot":
                M = select_pauli_rot_matrix(o)
                cw = list(o.arguments["control_wires"]) if hasattr(o, "arguments") else list(o.hyperparameters["control_wires"])
                tw = o.arguments["target_wire"] if hasattr(o, "arguments") else o.hyperparameters["target_wire"]
                tw = list(tw) if hasattr(tw, "__iter__") and not isinstance(tw, str) else [tw]
                gates.append((M, cw + tw))
                continue
            g = CC.gate_of(qp, o)
            if g is None:
                continue
            if not g[2]:
                ctx.count(f"non_independent_gate:{nm}")
            gates.append((g[0], g[1]))
        return sv.unitary(gates, list(wires))

    def judge(entry, fam, U, ops_, wires, exact, info_extra=None):
        ctx.ev("synth.matrix")
        info = {"entry": entry, "family": fam, "U": U, "n_ops": len(ops_), "ops": [repr(o)[:70] for o in ops_[:14]], **(info_extra or {})}
        try:
            D = product(ops_, wires)
        except Exception as e:  # noqa: BLE001
            ctx.inconclusive_case(f"{entry}/{fam}: product failed {type(e).__name__}: {e}")
            return None
        err = float(np.linalg.norm(D - U)) if exact else float(sv.phase_dist(D, U))
        tol = TOL * float(np.linalg.norm(U))
        bucket = "1q" if U.shape[0] == 2 else ("2q" if U.shape[0] == 4 else "nq")
        if err <= tol:
            max_err[bucket] = max(max_err[bucket], err)
        else:
            errp = float(sv.phase_dist(D, U))
            kind = "phase" if (exact and errp <= tol) else "matrix"
            famtag = fam.split("-1e")[0]
            mech = f"{kind}:{entry}"
            if U.shape[0] == 4:
                # mechanism classifier: the numerical CNOT-count classification snapped a unitary that is close to (but not
                # in) a lower class: a boundary walker, or zero CNOTs emitted for a unitary that is not a tensor product
                ncx_ = sum(1 for o in ops_ if len(o.wires) == 2)
                s2 = float(np.linalg.svd(U.reshape(2, 2, 2, 2).transpose(0, 2, 1, 3).reshape(4, 4), compute_uv=False)[1])
                if (fam.startswith("walk-") and err < 1e-1) or (ncx_ == 0 and s2 > 1e-9 and s2 < 0.05):
                    mech = f"boundary-loss:two_qubit:cnots={ncx_}"
            _viol(ctx, "synth.matrix", f"{entry} on a {fam} unitary: emitted circuit differs from U by {err:.3e} in Frobenius norm "
                                          f"(> {tol:.1e}; {'exact' if exact else 'up to phase'}; modulo phase {errp:.3e})",
                          case=info, mech=mech, observed={"err": err, "err_mod_phase": errp})
        return err

    def nontrivial(U):
        return sv.phase_dist(U, np.eye(U.shape[0])) > 1e-6

    k1 = ctx.n(40, 700)
    k2 = ctx.n(24, 600)
    kn = ctx.n(3, 40)
    idx = 0
    # ------------------------------------------------------------------ one qubit
    for fam, U in one_qubit_family(rng, sv, k1):
        if not ctx.more():
            break
        idx += 1
        ctx.case_index = idx
        w = ["a", 0, 3, "q1"][int(rng.integers(4))]
        for rot in ("rot", "ZYZ", "XYX", "XZX", "ZXZ"):
            for gp in (True, False):
                ctx.case(fingerprint("1q", rot, gp, fam, np.round(U, 12)), nontrivial=nontrivial(U), cls=f"one_qubit:{rot}:{'gp' if gp else 'nogp'}",
                         sample={"entry": f"one_qubit_decomposition[{rot}]", "family": fam})
                try:
                    ops_ = qp.ops.one_qubit_decomposition(U, w, rotations=rot, return_global_phase=gp)
                except Exception as e:  # noqa: BLE001
                    ctx.ev("synth.matrix")
                    _viol(ctx, "synth.matrix", f"one_qubit_decomposition[{rot}] raised {type(e).__name__}: {e} on a {fam} unitary",
                                  case={"U": U, "family": fam}, mech=f"raise:one_qubit[{rot}]:{fam.split('-1e')[0]}")
                    continue
                allowed = {"RX", "RY", "RZ", "Rot", "GlobalPhase"}
                bad = [type(o).__name__ for o in ops_ if type(o).__name__ not in allowed]
                if bad:
                    _viol(ctx, "synth.matrix", f"one_qubit_decomposition[{rot}] emitted undocumented gates {bad}", case={"U": U},
                                  mech=f"gateset:one_qubit[{rot}]")
                judge(f"one_qubit[{rot}{',gp' if gp else ''}]", fam, U, list(ops_), [w], exact=gp)
        # QubitUnitary rules on one wire
        _rules(ctx, qp, CC, U, [w], fam, judge)
    # ------------------------------------------------------------------ two qubits
    for fam, U in two_qubit_family(rng, sv, k2):
        if not ctx.more():
            break
        idx += 1
        ctx.case_index = idx
        wires = [["a", "b"], [0, 1], [3, 1], ["q", 0]][int(rng.integers(4))]
        ctx.case(fingerprint("2q", fam, np.round(U, 12)), nontrivial=nontrivial(U), cls=f"two_qubit:{fam.split('-1e')[0]}",
                 sample={"entry": "two_qubit_decomposition", "family": fam})
        try:
            ops_ = list(qp.ops.two_qubit_decomposition(U, wires))
        except Exception as e:  # noqa: BLE001
            ctx.ev("synth.matrix")
            _viol(ctx, "synth.matrix", f"two_qubit_decomposition raised {type(e).__name__}: {e} on a {fam} unitary",
                          case={"U": U, "family": fam}, mech=f"raise:two_qubit:{fam.split('-1e')[0]}")
            continue
        ncx = sum(1 for o in ops_ if len(o.wires) == 2)
        ctx.ev("synth.cnots")
        ctx.count(f"two_qubit_cnots={ncx}")
        bad = [type(o).__name__ for o in ops_ if (len(o.wires) == 2 and type(o).__name__ != "CNOT") or len(o.wires) > 2]
        if ncx > 3 or bad:
            _viol(ctx, "synth.cnots", f"two_qubit_decomposition emitted {ncx} two-qubit gates ({bad}) on a {fam} unitary",
                          case={"U": U, "family": fam, "ops": [repr(o)[:60] for o in ops_]}, mech=f"cnots:two_qubit:{fam.split('-1e')[0]}")
        judge("two_qubit", fam, U, ops_, wires, exact=True, info_extra={"n_cnots": ncx})
        _rules(ctx, qp, CC, U, wires, fam, judge)
    # ------------------------------------------------------------------ three / four qubits
    for n in (3, 4):
        for fam, U in multi_family(rng, sv, n, kn if n == 3 else max(1, kn // 2)):
            if not ctx.more():
                break
            idx += 1
            ctx.case_index = idx
            wires = list(range(n)) if rng.random() < 0.5 else ["a", "b", 2, "c"][:n]
            ctx.case(fingerprint("nq", n, fam, np.round(U, 12)), nontrivial=nontrivial(U), cls=f"multi_qubit:{n}:{fam}",
                     sample={"entry": "multi_qubit_decomposition", "family": fam, "n": n})
            try:
                ops_ = list(qp.ops.multi_qubit_decomposition(U, wires))
            except Exception as e:  # noqa: BLE001
                ctx.ev("synth.matrix")
                _viol(ctx, "synth.matrix", f"multi_qubit_decomposition raised {type(e).__name__}: {e} on a {n}-qubit {fam} unitary",
                              case={"U": U, "family": fam}, mech=f"raise:multi_qubit:{fam}")
                continue
            judge(f"multi_qubit[{n}]", fam, U, ops_, wires, exact=True)
            _rules(ctx, qp, CC, U, wires, fam, judge)
    for k, v in max_err.items():
        ctx.note(f"max_err_held_{k}", v)


def _rules(ctx, qp, CC, U, wires, fam, judge):
    """The QubitUnitary decomposition rules, invoked like the framework does."""
    try:
        op = qp.QubitUnitary(U, wires=wires)
    except Exception as e:  # noqa: BLE001
        ctx.inconclusive_case(f"QubitUnitary ctor: {e}")
        return
    for rule in qp.list_decomps(op):
        try:
            P = CC.prepare(qp, rule, op)
        except Exception as e:  # noqa: BLE001
            ctx.inconclusive_case(f"rule {rule.name}: applicability raised {e}")
            continue
        if P is None:
            continue
        if P.error is not None:
            ctx.ev("synth.matrix")
            _viol(ctx, "synth.matrix", f"QubitUnitary rule {rule.name} raised {type(P.error).__name__}: {P.error} on a {fam} unitary",
                          case={"U": U, "family": fam}, mech=f"raise:rule[{rule.name}]:{fam.split('-1e')[0]}")
            continue
        if P.work or P.info["has_mcm"]:
            continue
        ctx.cover(f"rule:{rule.name}")
        if len(wires) == 2:
            ncx = sum(1 for o in P.ops if len(o.wires) == 2)
            ctx.ev("synth.cnots")
            if ncx > 3:
                _viol(ctx, "synth.cnots", f"QubitUnitary rule {rule.name} emitted {ncx} two-qubit gates on a {fam} unitary",
                              case={"U": U, "family": fam}, mech=f"cnots:rule[{rule.name}]:{fam.split('-1e')[0]}")
        judge(f"rule[{rule.name}]", fam, U, P.ops, wires, exact=True)
