"""C07 — Operator class attribute claims are true.

The seven ``Attribute`` sets of ``pennylane/ops/qubit/attributes.py`` are read *at run time* (an added wrong entry is
seen) and every (set, name) pair is tested with numpy arithmetic on the matrices that the real code returns
(``qp.matrix``, ``qp.generator``, ``op.eigvals``), at hostile parameter values:

* self_inverses                 M·M = I
* symmetric_over_all_wires      M re-indexed to any permutation of its wires (R-EMBED, independent) equals M; and the real
                                ``qp.matrix(Cls(wires=π(w)), wire_order=w)`` equals ``qp.matrix(Cls(wires=w), wire_order=w)``
* symmetric_over_control_wires  the same for permutations of all but the last wire
* diagonal_in_z_basis           off-diagonal part is exactly 0 (and, documented in the attribute's docstring,
                                ``diag(op.eigvals()) == matrix``)
* composable_rotations          U(a)·U(b) = U(a+b); for ``Rot`` (documented "alternative accumulation"):
                                Rot(fuse_rot_angles(a,b)) = Rot(b)·Rot(a) up to a global phase
* has_unitary_generator         G†G = c·I, c > 0, for G = coefficient × matrix(qp.generator(op))
* supports_broadcasting         batched instance reports ``batch_size``; its matrix (state vector for state
                                preparations) equals the stack of the per-element instances' matrices
"""
import itertools

import numpy as np

from pv.ctx import fingerprint

META = {
    "id": "C07",
    "level": "exploration",
    "technique": "runtime post-conditions on qp.matrix / qp.generator / eigvals of generated instances of every class named in every "
                 "Attribute set (sets read live), decided by numpy identities (M·M=I, tensor re-indexing invariance, off-diagonal norm, "
                 "U(a)U(b)=U(a+b), G†G∝I, batch = stack of scalars)",
    "level_text": "Exhaustive over the (attribute set, operator name) pairs present at run time; sampled over parameters (random, "
                  "boundary, 2πk±ε), wire labels, every wire permutation, batch sizes 1–4 and batched/scalar parameter mixes. Held on "
                  "the instances observed.",
    "level_note": "Matrices come from the real qp.matrix (that is the object the claims are about); the identities are evaluated with "
                  "numpy and pv.ref.sv.embed only. Rot is checked through fuse_rot_angles (the accumulation the passes use) up to a "
                  "global phase with tolerance 1e-6 because the function is documented as numerically unstable at singular points. "
                  "For StatePrep/AmplitudeEmbedding (no matrix of their own) the batched state_vector and the state obtained by executing "
                  "the batched instance on default.qubit are compared with the per-element ones. The attribute docstring's 'creates the "
                  "operation with a batch_size' is a separate, non-deciding monitor (attr.broadcast.batch_size). A name that cannot be instantiated is reported "
                  "as uncovered (and makes nothing 'held' for it).",
    "shards": {"quick": 2, "thorough": 8},
    "budget_s": {"quick": 50, "thorough": 200},
    "min_evals": {"quick": 1500, "thorough": 40000},
    "deciding": ["attr.self_inverse", "attr.sym_all", "attr.sym_ctrl", "attr.diagonal", "attr.composable", "attr.unitary_generator",
                 "attr.broadcast"],
    "rule": "case = (attribute set, operator name, parameter point / batch, hyper-parameters, wires); distinct = distinct (set, name, "
            "rounded params, hyper, number of wires); non-trivial = parametrised instance with some parameter not a multiple of 2π, "
            "or a parameter-free gate",
    "assumptions": ["qp.matrix(op) is the matrix the attribute claims speak about (its agreement with the documented unitary is C02)"],
    "exhaustive": True,
}

TOL = 1e-9
SETS = ["self_inverses", "symmetric_over_all_wires", "symmetric_over_control_wires", "diagonal_in_z_basis", "composable_rotations",
        "has_unitary_generator", "supports_broadcasting"]
EXTRA = {"SQISW", "DiagonalQubitUnitary", "QubitUnitary", "ControlledQubitUnitary", "SpecialUnitary", "StatePrep", "AmplitudeEmbedding",
         "AngleEmbedding", "IQPEmbedding", "QAOAEmbedding"}


def _nontriv(params):
    ps = [float(x) for p in params for x in np.ravel(np.asarray(p, dtype=float if not np.iscomplexobj(p) else complex).real)]
    if not ps:
        return True
    return any(abs(p / (2 * np.pi) - round(p / (2 * np.pi))) > 1e-6 for p in ps)


def run(ctx):
    import pennylane as qp
    from pennylane.ops.qubit import attributes as A

    from pv.gen import num, ops
    from pv.ref import gates as G
    from pv.ref import sv

    ctx.budget_s += ctx.elapsed()  # the soft budget counts work, not the (load-dependent) import of pennylane
    rng = ctx.rng
    dev = qp.device("default.qubit")

    # ------------------------------------------------------------------ instance recipes
    def build(name, params, wires, hyper):
        cls = getattr(qp, name)
        if name == "PauliRot":
            return cls(params[0], hyper["pauli_word"], wires=wires)
        if name == "PCPhase":
            return cls(params[0], dim=hyper["dim"], wires=wires)
        if name == "GlobalPhase":
            return cls(params[0])
        if name == "MultiControlledX":
            return cls(wires=wires, control_values=hyper["control_values"])
        if name == "IntegerComparator":
            return cls(hyper["value"], geq=hyper["geq"], wires=wires)
        if name == "DiagonalQubitUnitary":
            return cls(params[0], wires=wires)
        if not params:
            return cls(wires=wires)
        return cls(*params, wires=wires)

    def fresh(name):
        """(params, wires, hyper) of a new random instance of a *named* gate (scalar parameters)."""
        if name == "SQISW":
            return [], num.wire_labels(rng, 2), {}
        if name == "DiagonalQubitUnitary":
            n = int(rng.integers(1, 4))
            d = np.exp(1j * np.array([num.angle(rng) for _ in range(2**n)]))
            return [d], num.wire_labels(rng, n), {}
        op, info = ops.make_named(qp, name, rng)
        return list(info["params"]), list(info["wires"]), dict(info["hyper"])

    def resolvable(name):
        return (name in ops.NAMED or name in EXTRA) and hasattr(qp, name)

    def viol(mon, sname, name, msg, case, mech=None, **kw):
        ctx.violation(mon, f"{sname}: {name}: {msg}", case=case, mech=mech or f"{sname}:{name}", **kw)

    def mat(op):
        M = np.asarray(qp.matrix(op))
        return M.astype(complex)

    # ------------------------------------------------------------------ the seven claims
    def chk_self_inverse(name, k):
        params, wires, hyper = fresh(name)
        case = {"set": "self_inverses", "name": name, "params": params, "wires": wires, "hyper": hyper}
        ctx.case(fingerprint("si", name, [np.round(p, 9) for p in params], sorted(hyper.items(), key=str), len(wires)), _nontriv(params),
                 cls=f"self_inverses:{name}", sample=case)
        M = mat(build(name, params, wires, hyper))
        ctx.ev("attr.self_inverse")
        err = np.linalg.norm(M @ M - np.eye(M.shape[0]))
        if not err < TOL * M.shape[0]:
            viol("attr.self_inverse", "self_inverses", name, f"‖M·M − I‖ = {err:.3e}", case, observed=M @ M)

    def chk_sym(name, k, ctrl_only):
        sname = "symmetric_over_control_wires" if ctrl_only else "symmetric_over_all_wires"
        mon = "attr.sym_ctrl" if ctrl_only else "attr.sym_all"
        params, wires, hyper = fresh(name)
        n = len(wires)
        case = {"set": sname, "name": name, "params": params, "wires": wires, "hyper": hyper}
        ctx.case(fingerprint(sname, name, [np.round(p, 9) for p in params], sorted(hyper.items(), key=str), n), _nontriv(params) and n >= 2,
                 cls=f"{sname}:{name}", sample=case)
        op = build(name, params, wires, hyper)
        M = mat(op)
        head = wires[:-1] if ctrl_only else wires
        tail = wires[-1:] if ctrl_only else []
        perms = list(itertools.permutations(range(len(head))))
        if len(perms) > 24:
            perms = [perms[int(i)] for i in rng.choice(len(perms), size=24, replace=False)]
        extra = ["xtra"] if rng.random() < 0.3 else []
        order = list(wires) + extra
        order = [order[int(i)] for i in rng.permutation(len(order))]
        M_order = np.asarray(qp.matrix(op, wire_order=order))
        for p in perms:
            pw = [head[i] for i in p] + tail
            # (1) independent re-indexing of the class matrix: same matrix placed on permuted wires, read in the original order
            ctx.ev(mon)
            Mp = sv.embed(M, pw, wires)
            err = np.linalg.norm(Mp - M)
            if not err < TOL * M.shape[0]:
                viol(mon, sname, name, f"matrix changes by {err:.3e} under wire permutation {p}", {**case, "perm": list(p)}, observed=Mp, expected=M)
                return
            # (2) the real path: a second instance on permuted wires, both expanded by qp.matrix to one wire order
            ctx.ev(mon)
            op2 = build(name, params, pw, hyper)
            M2 = np.asarray(qp.matrix(op2, wire_order=order))
            err = np.linalg.norm(M2 - M_order)
            if not err < TOL * M_order.shape[0]:
                viol(mon, sname, name, f"qp.matrix(op(wires={pw}), wire_order={order}) differs from op(wires={wires}) by {err:.3e}",
                     {**case, "perm": list(p), "wire_order": order}, observed=M2, expected=M_order)
                return

    def chk_diag(name, k):
        params, wires, hyper = fresh(name)
        case = {"set": "diagonal_in_z_basis", "name": name, "params": params, "wires": wires, "hyper": hyper}
        ctx.case(fingerprint("dz", name, [np.round(p, 9) for p in params], sorted(hyper.items(), key=str), len(wires)), _nontriv(params),
                 cls=f"diagonal_in_z_basis:{name}", sample=case)
        op = build(name, params, wires, hyper)
        M = mat(op)
        ctx.ev("attr.diagonal")
        off = np.linalg.norm(M - np.diag(np.diag(M)))
        if not off < TOL:
            viol("attr.diagonal", "diagonal_in_z_basis", name, f"off-diagonal norm {off:.3e}", case, observed=M)
            return
        ctx.ev("attr.diagonal_eigvals")
        try:
            ev = np.asarray(op.eigvals()).astype(complex)
        except Exception as e:  # noqa: BLE001
            viol("attr.diagonal_eigvals", "diagonal_in_z_basis", name, f"eigvals() raised {type(e).__name__}: {e}", case, mech=f"eigvals-raise:{name}")
            return
        if ev.shape != (M.shape[0],) or not np.linalg.norm(ev - np.diag(M)) < TOL * M.shape[0]:
            viol("attr.diagonal_eigvals", "diagonal_in_z_basis", name, "diag(eigvals()) is not the matrix (docstring: eigenvalues give the matrix)",
                 case, mech=f"eigvals-order:{name}", observed=ev, expected=np.diag(M))

    def chk_composable(name, k):
        pa, wires, hyper = fresh(name)
        pb = [num.angle(rng) for _ in pa]
        case = {"set": "composable_rotations", "name": name, "a": pa, "b": pb, "wires": wires, "hyper": hyper}
        ctx.case(fingerprint("cr", name, np.round(pa, 9), np.round(pb, 9), sorted(hyper.items(), key=str)), _nontriv(pa) and _nontriv(pb),
                 cls=f"composable_rotations:{name}", sample=case)
        Ua, Ub = mat(build(name, pa, wires, hyper)), mat(build(name, pb, wires, hyper))
        ctx.ev("attr.composable")
        if name == "Rot":
            from pennylane.transforms.optimization.optimization_utils import fuse_rot_angles

            c = [float(x) for x in np.asarray(fuse_rot_angles(pa, pb))]
            Uc = mat(build(name, c, wires, hyper))
            err = sv.phase_dist(Ub @ Ua, Uc)  # a applied first
            if not err < 1e-6:
                viol("attr.composable", "composable_rotations", name, f"Rot(fuse_rot_angles(a,b)) differs from Rot(b)·Rot(a) by {err:.3e} (mod phase)",
                     {**case, "fused": c}, observed=Uc, expected=Ub @ Ua)
            return
        c = [x + y for x, y in zip(pa, pb)]
        Uc = mat(build(name, c, wires, hyper))
        err = np.linalg.norm(Ua @ Ub - Uc)
        if not err < TOL * Uc.shape[0]:
            viol("attr.composable", "composable_rotations", name, f"‖U(a)U(b) − U(a+b)‖ = {err:.3e}", case, observed=Ua @ Ub, expected=Uc)
            return
        # the merged rotation as the passes build it (same class, summed angles) must also commute with its factors
        err2 = np.linalg.norm(Ub @ Ua - Uc)
        ctx.ev("attr.composable")
        if not err2 < TOL * Uc.shape[0]:
            viol("attr.composable", "composable_rotations", name, f"‖U(b)U(a) − U(a+b)‖ = {err2:.3e}", case)

    def chk_generator(name, k):
        params, wires, hyper = fresh(name)
        case = {"set": "has_unitary_generator", "name": name, "params": params, "wires": wires, "hyper": hyper}
        ctx.case(fingerprint("ug", name, np.round(params, 9), sorted(hyper.items(), key=str), len(wires)), _nontriv(params),
                 cls=f"has_unitary_generator:{name}", sample=case)
        op = build(name, params, wires, hyper)
        try:
            gen, coeff = qp.generator(op)
            order = list(op.wires) if len(op.wires) else None
            Gm = complex(coeff) * np.asarray(qp.matrix(gen, wire_order=order) if order else qp.matrix(gen)).astype(complex)
        except Exception as e:  # noqa: BLE001
            ctx.ev("attr.unitary_generator")
            viol("attr.unitary_generator", "has_unitary_generator", name, f"generator unavailable: {type(e).__name__}: {e}", case, mech=f"gen-raise:{name}")
            return
        ctx.ev("attr.unitary_generator")
        GG = Gm.conj().T @ Gm
        c = np.trace(GG).real / GG.shape[0]
        err = np.linalg.norm(GG - c * np.eye(GG.shape[0]))
        if not (c > 1e-12 and err < TOL * max(1.0, c) * GG.shape[0]):
            viol("attr.unitary_generator", "has_unitary_generator", name, f"G†G is not proportional to I (c={c:.3e}, residual {err:.3e})", case, observed=GG)
            return
        # the generator that is claimed unitary must be *the* generator: U(θ) = exp(iθG) (else the claim is about another matrix)
        if len(params) == 1 and np.ndim(params[0]) == 0 and Gm.shape[0] <= 16:
            ctx.ev("attr.unitary_generator.exp")
            w, V = np.linalg.eigh((Gm + Gm.conj().T) / 2)
            E = (V * np.exp(1j * float(params[0]) * w)) @ V.conj().T
            M = mat(op)
            if M.shape == E.shape and not np.linalg.norm(M - E) < 1e-8 * M.shape[0]:
                viol("attr.unitary_generator.exp", "has_unitary_generator", name, f"exp(iθG) differs from the matrix by {np.linalg.norm(M - E):.3e}", case,
                     mech=f"gen-exp:{name}")

    # ---- broadcasting --------------------------------------------------------------------------------------
    def haar_batch(B, d):
        return np.stack([sv.haar_unitary(rng, d) for _ in range(B)])

    def bc_named(name, B):
        """batched named gate: returns (batched op, [per-element ops], description)"""
        params, wires, hyper = fresh(name)
        npar = len(params)
        allb = rng.random() < 0.5
        j = int(rng.integers(npar))
        which = [True] * npar if allb else [i == j for i in range(npar)]
        if not allb and npar > 1 and rng.random() < 0.5:
            which = [bool(rng.integers(2)) or w for w in which]
        cols = [[num.angle(rng) for _ in range(B)] if which[i] else [params[i]] * B for i in range(npar)]
        bargs = [np.array(cols[i]) if which[i] else cols[i][0] for i in range(npar)]
        bop = build(name, bargs, wires, hyper)
        singles = [build(name, [cols[i][b] for i in range(npar)], wires, hyper) for b in range(B)]
        return bop, singles, {"params": cols, "batched": which, "wires": wires, "hyper": hyper}

    def bc_extra(name, B):
        n = int(rng.integers(1, 4))
        wires = num.wire_labels(rng, n)
        if name == "QubitUnitary":
            U = haar_batch(B, 2**n)
            return qp.QubitUnitary(U, wires=wires), [qp.QubitUnitary(U[b], wires=wires) for b in range(B)], {"wires": wires, "U": U}
        if name == "ControlledQubitUnitary":
            nc = int(rng.integers(1, 3))
            wires = num.wire_labels(rng, n + nc)
            cv = [int(x) for x in rng.integers(0, 2, size=nc)]
            U = haar_batch(B, 2**n)
            mk = lambda u: qp.ControlledQubitUnitary(u, wires=wires, control_values=cv)  # noqa: E731
            return mk(U), [mk(U[b]) for b in range(B)], {"wires": wires, "control_values": cv, "U": U, "ref": [G.controlled(U[b], nc, cv) for b in range(B)]}
        if name == "SpecialUnitary":
            n = int(rng.integers(1, 3))
            wires = num.wire_labels(rng, n)
            th = rng.uniform(-np.pi, np.pi, size=(B, 4**n - 1))
            if rng.random() < 0.3:
                th[int(rng.integers(B))] = 0.0
            return qp.SpecialUnitary(th, wires=wires), [qp.SpecialUnitary(th[b], wires=wires) for b in range(B)], {"wires": wires, "theta": th}
        if name in ("StatePrep", "AmplitudeEmbedding"):
            st = rng.normal(size=(B, 2**n)) + 1j * rng.normal(size=(B, 2**n))
            if rng.random() < 0.3:
                st[int(rng.integers(B))] = np.eye(2**n)[int(rng.integers(2**n))]
            st = st / np.linalg.norm(st, axis=1, keepdims=True)
            cls = getattr(qp, name)
            return cls(st, wires=wires), [cls(st[b], wires=wires) for b in range(B)], {"wires": wires, "state": st}
        if name == "AngleEmbedding":
            nf = int(rng.integers(1, n + 1))
            f = np.array([[num.angle(rng) for _ in range(nf)] for _ in range(B)])
            rot = "XYZ"[int(rng.integers(3))]
            return (qp.AngleEmbedding(f, wires=wires, rotation=rot), [qp.AngleEmbedding(f[b], wires=wires, rotation=rot) for b in range(B)],
                    {"wires": wires, "features": f, "rotation": rot})
        if name == "IQPEmbedding":
            f = np.array([[num.angle(rng) for _ in range(n)] for _ in range(B)])
            rep = int(rng.integers(1, 3))
            return (qp.IQPEmbedding(f, wires=wires, n_repeats=rep), [qp.IQPEmbedding(f[b], wires=wires, n_repeats=rep) for b in range(B)],
                    {"wires": wires, "features": f, "n_repeats": rep})
        if name == "QAOAEmbedding":
            nf = int(rng.integers(1, n + 1))
            f = np.array([[num.angle(rng) for _ in range(nf)] for _ in range(B)])
            L = int(rng.integers(1, 3))
            shape = qp.QAOAEmbedding.shape(L, n)
            lf = "XYZ"[int(rng.integers(3))]
            mode = int(rng.integers(3))  # 0: features batched, 1: weights batched, 2: both
            wB = rng.uniform(-np.pi, np.pi, size=(B,) + tuple(shape))
            fb = f if mode in (0, 2) else f[0]
            wb = wB if mode in (1, 2) else wB[0]
            mk = lambda ff, ww: qp.QAOAEmbedding(ff, ww, wires=wires, local_field=lf)  # noqa: E731
            return (mk(fb, wb), [mk(f[b] if mode in (0, 2) else f[0], wB[b] if mode in (1, 2) else wB[0]) for b in range(B)],
                    {"wires": wires, "features": f, "weights": wB, "mode": mode, "local_field": lf})
        raise KeyError(name)

    def chk_broadcast(name, k):
        B = int(rng.integers(1, 5))
        mon = "attr.broadcast"
        try:
            bop, singles, desc = bc_named(name, B) if name in ops.NAMED else bc_extra(name, B)
        except Exception as e:  # noqa: BLE001
            ctx.ev(mon)
            viol(mon, "supports_broadcasting", name, f"batched construction raised {type(e).__name__}: {e}", {"set": "supports_broadcasting", "name": name, "B": B},
                 mech=f"supports_broadcasting-ctor:{name}")
            return
        case = {"set": "supports_broadcasting", "name": name, "B": B, **desc}
        flat = [np.round(np.asarray(v, dtype=complex), 9) for kk, v in sorted(desc.items()) if kk in ("params", "U", "theta", "state", "features", "weights")]
        ctx.case(fingerprint("bc", name, B, *flat, repr(desc.get("hyper")), len(desc["wires"])), True, cls=f"supports_broadcasting:{name}",
                 sample={kk: v for kk, v in case.items() if kk != "ref"})
        # attribute docstring: "creating the operation with a ``batch_size`` and leading to broadcasted tapes"
        ctx.ev("attr.broadcast.batch_size")
        if bop.batch_size != B:
            # Observation only: the statement of C07 demands batched *matrices* equal to the stack of per-element matrices
            # (checked above, and they are).  The batch_size attribute is outside the statement, so this is recorded, not judged
            # (on this tree ControlledQubitUnitary / ControlledOp2 / Adjoint2 report batch_size None for a batched base).
            ctx.note_add("observations_outside_statement", f"{name}: batch_size reported {bop.batch_size} for a batch of {B}")
            ctx.count("observed.batch_size_mismatch")
        if name in ("StatePrep", "AmplitudeEmbedding"):
            ctx.ev(mon)
            svb = np.asarray(bop.state_vector()).reshape(B, -1)
            st = np.stack([np.asarray(s.state_vector()).reshape(-1) for s in singles])
            if svb.shape != st.shape or not np.linalg.norm(svb - st) < TOL * B:
                viol(mon, "supports_broadcasting", name, "batched state_vector differs from the stack of per-element state vectors", case, observed=svb, expected=st)
                return
            if not np.linalg.norm(st - desc["state"]) < TOL * B:
                viol(mon, "supports_broadcasting", name, "state_vector differs from the prepared state", case, observed=st, expected=desc["state"])
                return
        if name in ("StatePrep", "AmplitudeEmbedding"):
            # no matrix of their own: the batched instance is executed (real default.qubit) and must give the stack of states
            ctx.ev(mon)
            wires = desc["wires"]
            try:
                res = np.asarray(qp.execute([qp.tape.QuantumScript([bop], [qp.state()])], dev)[0]).reshape(B, -1)
                one = np.stack([np.asarray(qp.execute([qp.tape.QuantumScript([s_], [qp.state()])], dev)[0]).reshape(-1) for s_ in singles])
            except Exception as e:  # noqa: BLE001
                viol(mon, "supports_broadcasting", name, f"executing the batched/per-element instance raised {type(e).__name__}: {e}", case,
                     mech=f"supports_broadcasting-exec-raise:{name}")
                return
            if res.shape != one.shape or not float(np.max(np.abs(res - one))) < 1e-8:
                viol(mon, "supports_broadcasting", name, "executed batched state differs from the stack of per-element states", case, observed=res, expected=one)
            return
        try:
            MB = np.asarray(qp.matrix(bop)).astype(complex)
            MS = np.stack([np.asarray(qp.matrix(s)).astype(complex) for s in singles])
        except Exception as e:  # noqa: BLE001
            ctx.ev(mon)
            viol(mon, "supports_broadcasting", name, f"qp.matrix of the batched/per-element instance raised {type(e).__name__}: {e}", case,
                 mech=f"supports_broadcasting-matrix-raise:{name}")
            return
        ctx.ev(mon)
        if MB.shape != MS.shape:
            viol(mon, "supports_broadcasting", name, f"batched matrix has shape {MB.shape}, stack of per-element matrices {MS.shape}", case,
                 mech=f"supports_broadcasting-shape:{name}")
            return
        err = float(np.max(np.abs(MB - MS)))
        if not err < 1e-8:
            viol(mon, "supports_broadcasting", name, f"batched matrix differs from the stack of per-element matrices by {err:.3e}", case, observed=MB, expected=MS)
            return
        if "ref" in desc:
            ctx.ev(mon)
            R = np.stack(desc["ref"])
            if not float(np.max(np.abs(MB - R))) < 1e-8:
                viol(mon, "supports_broadcasting", name, "batched matrix differs from the projector-built controlled unitaries", case, observed=MB, expected=R)

    CHK = {
        "self_inverses": chk_self_inverse,
        "symmetric_over_all_wires": lambda n, k: chk_sym(n, k, False),
        "symmetric_over_control_wires": lambda n, k: chk_sym(n, k, True),
        "diagonal_in_z_basis": chk_diag,
        "composable_rotations": chk_composable,
        "has_unitary_generator": chk_generator,
        "supports_broadcasting": chk_broadcast,
    }

    # ------------------------------------------------------------------ work list (read live)
    live = sorted(k for k, v in vars(A).items() if isinstance(v, A.Attribute))
    ctx.note("attribute_sets", live)
    for s in live:
        if s not in CHK:
            ctx.uncovered(f"set:{s}", "attribute set without a monitor")
    pairs = [(s, n) for s in live if s in CHK for n in sorted(getattr(A, s))]
    ctx.note("pairs", len(pairs))
    reps_param = ctx.n(2 * 30, 8 * 250)  # per shard: every shard visits every pair (different random points)
    plan = []
    for sname, name in pairs:
        if not resolvable(name):
            ctx.uncovered(f"{sname}:{name}", "no instance recipe / name does not resolve to a class")
            continue
        probe_params = 0 if name in ("SQISW",) else (1 if name in EXTRA else ops.NAMED[name][0])
        varies = probe_params > 0 or sname == "supports_broadcasting" or ops.NAMED.get(name, (0, 0))[1] is None
        reps = reps_param if varies else max(3, reps_param // 10)
        if sname in ("symmetric_over_all_wires", "symmetric_over_control_wires"):
            reps = max(3, reps // 3)
        plan.append([sname, name, reps])
    idx = 0
    dead = set()
    # round-robin over the pairs so that a run cut short by the time budget has still visited every pair evenly
    for k in range(max(p[2] for p in plan)):
        for sname, name, reps in plan:
            if k >= reps or (sname, name) in dead:
                continue
            if not ctx.more():
                return
            idx += 1
            ctx.case_index = idx
            try:
                CHK[sname](name, k)
            except Exception as e:  # noqa: BLE001 - constructor / matrix of a listed class failing on a valid parameter
                import traceback

                ctx.inconclusive_case(f"{sname}:{name}: {type(e).__name__}: {e} @ {traceback.format_exc()[-400:]}")
                dead.add((sname, name))
