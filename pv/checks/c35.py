"""C35 — Generated shift rules are exact for their frequency spectra.

Deciding monitors: post-conditions on the real ``generate_shift_rule`` / ``generate_multi_shift_rule``: the returned
rule Σ cᵢ f(x + sᵢ) is applied to the BASIS functions 1, cos(ωx), sin(ωx) of every declared frequency ω (products of basis
functions for the multi-parameter rule) at several points and compared with the analytic derivative
ωⁿ cos/sin(ωx + nπ/2).  Exactness on the basis is exactness on the whole span of trigonometric polynomials.

A residual above the bound 1e-9·max(1, Σ|cᵢ|) (backward-error scale of the float64 evaluation and of the linear solve)
is re-evaluated with mpmath at 50 digits on the returned float coefficients before it is reported, so a violation is never
an artefact of the harness' float evaluation.  Shift sets for which the R×R system sin(sᵢ ωⱼ) is ill conditioned
(cond > 1e8, computed by the harness) admit no (stable) rule and are counted as rejections.
"""
from pv.ctx import fingerprint

META = {
    "id": "C35",
    "level": "exploration",
    "technique": "post-condition on generate_shift_rule/generate_multi_shift_rule: rule applied to the trigonometric basis functions "
                 "vs. analytic derivatives (float64, violations confirmed with 50-digit mpmath)",
    "level_text": "Random frequency sets of every class the code branches on (multiples of one frequency, arithmetic progressions that "
                  "are not multiples, integer sets with gaps, non-commensurate, dense R=10, nearly degenerate, nearly commensurate), default "
                  "and custom shift sets, orders 1–4 and 1–3 parameters; each returned rule is applied to all basis functions "
                  "1, cos(ωx), sin(ωx) (and their products) at three points and compared with the analytic derivative.",
    "level_note": "Exactness is decided with the bound 1e-9·max(1, Σ|c_i|); ill-conditioned shift sets (cond(sin(s_i ω_j)) > 1e8) are "
                  "rejections. Frequencies must be passed as tuples (the functions are lru_cached). Non-positive frequencies (silently "
                  "dropped by the code) are not driven. The float oracle is confirmed by mpmath only on candidate violations.",
    "design_ref": "7/C35",
    "shards": {"quick": 2, "thorough": 16},
    "budget_s": {"quick": 50, "thorough": 330},
    "min_evals": {"quick": 1500, "thorough": 20000},
    "min_nontrivial": 300,
    "allow_rejections": False,
    "deciding": ["shift_rule.single", "shift_rule.multi"],
    "rule": "frequency-set class × (default | custom shifts) × order 1–4 (single) or 1–3 parameters with orders 1–2 (multi); distinct = "
            "distinct (frequencies, shifts, orders); non-trivial = at least two frequencies for some parameter or order > 1",
    "assumptions": ["span{1, cos ωx, sin ωx} is the function class of the statement", "numpy trigonometric functions are accurate to 1e-15"],
}

TOL = 1e-9
COND_MAX = 1e8


def gen_freqs(rng, np, cls=None):
    """returns (class tag, tuple of distinct positive frequencies)"""
    classes = ["multiples", "multiples-float", "ap-not-multiples", "int-gaps", "non-commensurate", "dense", "nearly-degenerate",
               "near-commensurate", "single", "random-float"]
    cls = cls or classes[int(rng.integers(len(classes)))]
    if cls == "multiples":
        R, d = int(rng.integers(2, 7)), [1, 2, 3, 0.5, 1.5, 0.25][int(rng.integers(6))]
        f = [d * k for k in range(1, R + 1)]
    elif cls == "multiples-float":
        R, d = int(rng.integers(2, 6)), float(rng.uniform(0.2, 3.0))
        f = [d * k for k in range(1, R + 1)]
    elif cls == "ap-not-multiples":
        R = int(rng.integers(2, 6))
        a, d = ([2, 3, 1, 5, 0.5, 1.5][int(rng.integers(6))], [1, 2, 3, 0.5][int(rng.integers(4))]) if rng.random() < 0.6 else \
            (float(rng.uniform(0.3, 3)), float(rng.uniform(0.3, 2)))
        if abs(a - d) < 1e-9:
            a = a + 1
        f = [a + d * k for k in range(R)]
    elif cls == "int-gaps":
        R = int(rng.integers(3, 7))
        f = sorted(int(v) for v in rng.choice(np.arange(1, 13), size=R, replace=False))
        if len(set(np.diff(f))) == 1:
            f[-1] += 2
    elif cls == "non-commensurate":
        pool = [2 ** 0.5, np.pi, np.e, 3 ** 0.5, 1.0, (1 + 5 ** 0.5) / 2, 5 ** 0.5, 0.7, 2.0]
        R = int(rng.integers(3, 6))
        f = sorted(float(pool[int(i)]) for i in rng.permutation(len(pool))[:R])
    elif cls == "dense":
        f = list(range(1, 11)) if rng.random() < 0.5 else sorted(int(v) for v in rng.choice(np.arange(1, 16), size=10, replace=False))
    elif cls == "nearly-degenerate":
        base = float(rng.uniform(0.5, 3))
        f = [base, base + 1e-3, base + float(rng.uniform(0.5, 2))]
    elif cls == "near-commensurate":
        f = [1.0, 2.0 + [1e-6, 3e-6, -2e-6][int(rng.integers(3))], 3.0 + float(rng.uniform(0.3, 0.7))]
    elif cls == "single":
        f = [[1, 2, 0.5, 3][int(rng.integers(4))] if rng.random() < 0.5 else float(rng.uniform(0.1, 5))]
    else:
        R = int(rng.integers(3, 6))
        f = sorted(float(v) for v in rng.uniform(0.3, 6.0, size=R))
        while min(np.diff(f)) < 0.05:
            f = sorted(float(v) for v in rng.uniform(0.3, 6.0, size=R))
    f = tuple(int(v) if float(v).is_integer() and rng.random() < 0.7 else float(v) for v in f)
    if rng.random() < 0.5:
        f = tuple(f[int(i)] for i in rng.permutation(len(f)))       # order of the tuple must not matter
    return cls, f


def gen_shifts(rng, np, freqs):
    """custom shift set: R distinct positive values (None = default)"""
    R = len(freqs)
    r = rng.random()
    if r < 0.45:
        return None
    fmin = float(min(freqs))
    if r < 0.55:
        # the documented default, passed explicitly
        return tuple(float((2 * m - 1) * np.pi / (2 * R * fmin)) for m in range(1, R + 1))
    if r < 0.8:
        s = sorted(float(v) for v in rng.uniform(0.05, np.pi / fmin if fmin > 0.5 else 3.0, size=R))
    else:
        s = sorted(float(v) for v in rng.uniform(0.05, 3.0, size=R))
    while R > 1 and min(np.diff(s)) < 0.02:
        s = sorted(float(v) for v in rng.uniform(0.05, 3.0, size=R))
    if rng.random() < 0.5:
        s = [s[int(i)] for i in rng.permutation(R)]
    return tuple(s)


def branch_info(np, freqs, shifts):
    """What the statement's classes say about this input (computed from the INPUT only): are the frequencies multiples of the
    smallest one, an arithmetic progression that is not, and are the shifts the documented default."""
    f = np.sort(np.asarray(freqs, dtype=float))
    R = len(f)
    mu = np.arange(1, R + 1)
    default = (2 * mu - 1) * np.pi / (2 * R * f[0])
    is_default = shifts is None or np.allclose(np.sort(np.asarray(shifts, dtype=float)), default)
    multiples = bool(np.allclose(f, f[0] * mu, rtol=1e-12, atol=1e-12))
    ap = R >= 2 and len(set(np.round(np.diff(f), 10))) <= 1
    used = default if shifts is None else np.sort(np.asarray(shifts, dtype=float))
    S = np.sin(np.outer(used, f))
    cond = float(np.linalg.cond(S)) if R else 1.0
    return {"multiples": multiples, "ap_not_multiples": bool(ap and not multiples), "default_shifts": bool(is_default), "cond": cond}


def basis_tables(np, freqs, order, x, shifts_col):
    """G[f, i] = g_f(x + s_i),  D[f] = g_f^(order)(x) for g in (1, cos ω·, sin ω·)"""
    w = np.asarray(sorted(float(v) for v in freqs))
    arg = np.outer(w, x + shifts_col)
    G = np.concatenate([np.ones((1, len(shifts_col))), np.cos(arg), np.sin(arg)])
    ph = w * x + order * np.pi / 2
    D = np.concatenate([[0.0 if order > 0 else 1.0], w ** order * np.cos(ph), w ** order * np.sin(ph)])
    return G, D


def residual(np, rule, freq_list, orders, xs):
    """max |Σ c_i Π_k g_k(x_k + s_i^k) − Π_k g_k^(o_k)(x_k)| over all basis products"""
    c = rule[:, 0]
    P = len(freq_list)
    Gs, Ds = [], []
    for k in range(P):
        G, D = basis_tables(np, freq_list[k], orders[k], xs[k], rule[:, 1 + k])
        Gs.append(G)
        Ds.append(D)
    if P == 1:
        got, ref = Gs[0] @ c, Ds[0]
    elif P == 2:
        got, ref = np.einsum("ai,bi,i->ab", Gs[0], Gs[1], c), np.multiply.outer(Ds[0], Ds[1])
    else:
        got, ref = np.einsum("ai,bi,ci,i->abc", Gs[0], Gs[1], Gs[2], c), np.multiply.outer(np.multiply.outer(Ds[0], Ds[1]), Ds[2])
    err = np.abs(got - ref)
    idx = np.unravel_index(int(np.argmax(err)), err.shape)
    return float(err[idx]), idx, float(got[idx]), float(ref[idx])


def mp_residual(rule, freq_list, orders, xs, idx):
    """the same residual for ONE basis product, evaluated with 50 digits on the returned float numbers"""
    import mpmath as mp
    mp.mp.dps = 50
    total = mp.mpf(0)
    ref = mp.mpf(1)
    names = []
    fs = []
    for k, fi in enumerate(idx):
        w = sorted(float(v) for v in freq_list[k])
        R = len(w)
        if fi == 0:
            fs.append(("const", mp.mpf(0)))
        elif fi <= R:
            fs.append(("cos", mp.mpf(w[fi - 1])))
        else:
            fs.append(("sin", mp.mpf(w[fi - 1 - R])))
        names.append(f"{fs[-1][0]}({float(fs[-1][1])!r}·x{k})")

    def g(kind, w, x):
        return mp.mpf(1) if kind == "const" else (mp.cos(w * x) if kind == "cos" else mp.sin(w * x))

    for row in rule:
        term = mp.mpf(float(row[0]))
        for k, (kind, w) in enumerate(fs):
            term *= g(kind, w, mp.mpf(float(xs[k])) + mp.mpf(float(row[1 + k])))
        total += term
    for k, (kind, w) in enumerate(fs):
        n, x = orders[k], mp.mpf(float(xs[k]))
        if kind == "const":
            ref *= (mp.mpf(0) if n > 0 else mp.mpf(1))
        elif kind == "cos":
            ref *= w ** n * mp.cos(w * x + n * mp.pi / 2)
        else:
            ref *= w ** n * mp.sin(w * x + n * mp.pi / 2)
    return float(abs(total - ref)), float(total), float(ref), " · ".join(names)



def _cap_per_mechanism(ctx, cap=3):
    """Keep at most `cap` witnesses per (monitor, mechanism) so that a frequent finding cannot crowd out other mechanisms
    (the bus keeps 40 witnesses per shard); totals stay available as counters."""
    orig, seen = ctx.violation, {}

    def violation(monitor, message, case=None, mech=None, observed=None, expected=None):
        k = (monitor, mech)
        seen[k] = seen.get(k, 0) + 1
        ctx.count(f"violations:{mech}")
        if seen[k] <= cap:
            orig(monitor, message, case=case, mech=mech, observed=observed, expected=expected)
    ctx.violation = violation


def run(ctx):
    _cap_per_mechanism(ctx)
    import warnings

    import numpy as np
    from pennylane.gradients import generate_multi_shift_rule, generate_shift_rule

    confirmed = [0]

    def one(monitor, fn, freq_list, shift_list, orders, clss, i):
        """one rule: call the real function, apply it to the basis, classify"""
        P = len(freq_list)
        infos = [branch_info(np, freq_list[k], shift_list[k]) for k in range(P)]
        case = {"frequencies": [list(map(float, f)) for f in freq_list], "shifts": [None if s is None else list(s) for s in shift_list],
                "orders": list(orders), "classes": clss, "cond": [round(inf["cond"], 3) for inf in infos]}
        nontriv = any(len(f) >= 2 for f in freq_list) or any(o > 1 for o in orders)
        if any(inf["cond"] > COND_MAX for inf in infos):
            # no stable rule exists for this (frequencies, shifts) pair
            ctx.reject("ill-conditioned-shift-set")
            ctx.cover("rejected:" + "+".join(clss))
            return
        with warnings.catch_warnings(record=True) as wl:
            warnings.simplefilter("always")
            try:
                rule = fn()
            except Exception as e:  # noqa: BLE001
                ctx.ev(monitor)
                ctx.violation(monitor, f"raised {type(e).__name__}: {e} on distinct positive frequencies / valid shifts", case=case,
                              mech="raise:" + type(e).__name__)
                return
        if any("near zero determinant" in str(w.message) for w in wl):
            ctx.count("near_singular_warnings_on_accepted_cases")
        rule = np.asarray(rule, dtype=float)
        ctx.case(fingerprint(repr(freq_list), repr(shift_list), repr(orders)), nontrivial=nontriv, cls="+".join(clss) + f"|orders={list(orders)}",
                 sample={**case, "terms": int(rule.shape[0])})
        ctx.ev(monitor)
        if rule.ndim != 2 or rule.shape[1] != 1 + P or not np.all(np.isfinite(rule)):
            ctx.violation(monitor, f"rule has shape {rule.shape} / non-finite entries for {P} parameter(s)", case=case, mech="layout")
            return
        crng = ctx.case_rng(10_000_019 + i)
        xs = [float(v) for v in crng.uniform(-3, 3, size=P)]
        if crng.random() < 0.3:
            xs[0] = 0.0
        sumc = float(np.sum(np.abs(rule[:, 0])))
        bound = TOL * max(1.0, sumc)
        worst = (0.0, None, 0.0, 0.0, xs)
        for rep in range(3):
            pts = xs if rep == 0 else [float(v) for v in crng.uniform(-6, 6, size=P)]
            r = residual(np, rule, freq_list, orders, pts)
            if r[0] > worst[0]:
                worst = (*r, pts)
        ctx.note("largest_normalised_residual_seen", worst[0] / max(1.0, sumc))
        if worst[0] <= bound:
            return
        # ---- candidate violation: confirm with 50-digit arithmetic on the returned numbers (first 12 per shard; a residual
        #      more than 1000x above the bound cannot be a float evaluation artefact and is reported directly afterwards)
        confirmed[0] += 1
        if confirmed[0] <= 12 or worst[0] <= 1e3 * bound:
            res_mp, got_mp, ref_mp, name = mp_residual(rule, freq_list, orders, worst[4], worst[1])
            if res_mp <= bound:
                ctx.inconclusive_case(f"float residual {worst[0]:.3g} not confirmed by mpmath ({res_mp:.3g}) for {case}")
                return
        else:
            res_mp, got_mp, ref_mp, name = worst[0], worst[2], worst[3], f"basis product {tuple(int(v) for v in worst[1])}"
        # mechanism: computed from the INPUT classes
        # normalised size of the discrepancy separates the two known mechanisms: the misapplied closed form is an O(1)
        # error, the period-rounding of iterated rules is a 1e-8..1e-4 relative error
        rel = float(res_mp) / max(1.0, float(sumc))
        rounded = any(o > 1 and any(abs(float(v) - round(float(v), 5)) > 1e-12 for v in f) for o, f in zip(orders, freq_list))
        if any(inf["ap_not_multiples"] and inf["default_shifts"] for inf in infos) and not (rounded and rel < 1e-4):
            mech = "equidistant-formula-on-non-multiple-frequencies"
        elif rounded and rel < 1e-4:
            # an iterated rule on frequencies that need more than 5 decimals (frequencies_to_period rounds to 5 decimals)
            mech = "order>1:period-from-rounded-frequencies"
        elif any(o > 1 for o in orders):
            mech = "order>1"
        elif all(inf["multiples"] and inf["default_shifts"] for inf in infos):
            mech = "equidistant-closed-form"
        else:
            mech = "linear-solve"
        ctx.violation(monitor, f"rule for frequencies {case['frequencies']}, shifts {case['shifts']}, orders {list(orders)} is not exact on "
                      f"{name} at x = {worst[4]}: Σ c_i f(x+s_i) = {got_mp!r}, derivative = {ref_mp!r} (|diff| = {res_mp:.3g} > bound {bound:.3g}; "
                      f"cond of the shift system {case['cond']})", case={**case, "rule": rule, "x": worst[4]}, mech=mech, observed=got_mp,
                      expected=ref_mp)

    N = ctx.n(2400, 60000)
    for k in range(N):
        i = ctx.shard + k * ctx.nshards
        if ctx.only_case is not None and i != ctx.only_case:
            continue
        if k % 16 == 0 and not ctx.more():
            break
        ctx.case_index = i
        rng = ctx.case_rng(i)
        if rng.random() < 0.7:
            cls, f = gen_freqs(rng, np)
            s = gen_shifts(rng, np, f)
            order = [1, 1, 2, 2, 3, 4][int(rng.integers(6))]
            while (2 * len(f)) ** order > 20000:
                order -= 1
            bare = s is None and order == 1 and rng.random() < 0.5
            one("shift_rule.single", (lambda: generate_shift_rule(f)) if bare else (lambda: generate_shift_rule(f, s, order)),
                [f], [s], [order], [cls], i)
        else:
            P = 2 if rng.random() < 0.7 else 3
            fl, sl, ol, cl = [], [], [], []
            for _ in range(P):
                cls, f = gen_freqs(rng, np, cls=["multiples", "single", "int-gaps", "random-float", "ap-not-multiples", "non-commensurate",
                                                 "near-commensurate"][int(rng.integers(7))])
                f = f[:4]
                fl.append(f)
                sl.append(gen_shifts(rng, np, f))
                ol.append(1 if rng.random() < 0.7 else 2)
                cl.append(cls)
            form = int(rng.integers(3))
            if all(s is None for s in sl) and form == 0 and all(o == 1 for o in ol):
                call = lambda: generate_multi_shift_rule(fl)                                      # noqa: E731
            elif all(s is None for s in sl) and form == 1:
                call = lambda: generate_multi_shift_rule(fl, orders=ol)                           # noqa: E731
            else:
                call = lambda: generate_multi_shift_rule(fl, shifts=sl, orders=ol)                # noqa: E731
            one("shift_rule.multi", call, fl, sl, ol, cl, i)

    # ------------------------------------------------------------------ documented rejections (ValueError)
    for args, kind in [(((1, 1), None, 1), "duplicate-frequencies"), (((1, 2), (0.3,), 1), "shift-count"), (((1, 2), (0.3, 0.3), 1), "duplicate-shifts"),
                       (((1, 2, 3), (0.1, 0.2), 2), "shift-count")]:
        ctx.ev("shift_rule.invalid")
        try:
            r = generate_shift_rule(*args)
            ctx.violation("shift_rule.invalid", f"generate_shift_rule{args} must raise ValueError ({kind}); returned {r!r}", case={"args": args},
                          mech="accept-invalid:" + kind)
        except ValueError:
            ctx.reject("invalid:" + kind)
        except Exception as e:  # noqa: BLE001
            ctx.violation("shift_rule.invalid", f"generate_shift_rule{args} raised {type(e).__name__} instead of ValueError: {e}", case={"args": args},
                          mech="invalid-wrong-error:" + kind)
