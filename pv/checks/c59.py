"""C59 — Fourier analysis tools are sound.

Deciding monitors (post-conditions on the REAL functions):

* ``spectrum.qnode`` / ``spectrum.circuit`` — the spectra reported by ``qp.fourier.qnode_spectrum`` (with linear classical
  pre-processing: scalings, sums of several arguments, repeated encodings) and ``qp.fourier.circuit_spectrum`` (marked gates) must
  contain every frequency actually present.  Oracle: the univariate restriction t -> f(x + t e_j) of the *reference*
  cost function (independent simulator) is sampled at many generic points and least-squares fitted with the reported
  frequencies {cos(w t), sin(w t)}; complex exponentials with distinct frequencies are linearly independent, so the residual
  vanishes iff every true frequency is reported (extra reported frequencies are fine: soundness only).  The reported set must
  also be symmetric and contain 0 (documented properties).
* ``coeffs.exact`` — ``qp.fourier.coefficients`` on random trigonometric polynomials in 1-3 variables with known coefficients
  (degree >= true degree: exact; ``lowpass_filter=True`` with true degree <= filter_threshold: exact on the requested window;
  ``use_broadcasting``), and on QNodes vs coefficients of the reference function.  Either sign convention of the exponent is
  accepted (the docstring writes e^{-i n x}, numpy's FFT convention is e^{+i n x}); the one observed is recorded.
* ``reconstruct`` — ``qp.fourier.reconstruct`` (nums_frequency / spectra / custom shifts / f0) evaluated at 40 random points vs the
  reference restriction (1e-7).
"""
import numpy as np

from pv.ctx import fingerprint

META = {
    "id": "C59",
    "level": "exploration",
    "technique": "post-conditions on qnode_spectrum/circuit_spectrum (least-squares residual of the reference function over the reported "
                 "frequencies), coefficients (analytic coefficients of random trigonometric polynomials) and reconstruct (pointwise vs reference)",
    "level_text": "Random encoding circuits (repeated and scaled encodings, sums of arguments, multi-frequency generators, several "
                  "arguments) and random trigonometric polynomials drive the real Fourier tools; reported spectra must span the reference "
                  "function, coefficients must equal the analytic ones, reconstructions must reproduce the function. Held on the cases observed.",
    "level_note": "Trusts numpy (lstsq, fft used only on the harness side for reference coefficients of QNode functions) and the pv/ref gate "
                  "table. Non-linear pre-processing is outside the documented domain of qnode_spectrum and only used to check that it is "
                  "refused or, if accepted, still sound.",
    "shards": {"quick": 2, "thorough": 16},
    "budget_s": {"quick": 50, "thorough": 400},
    "min_evals": {"quick": 150, "thorough": 5000},
    "min_nontrivial": {"quick": 60, "thorough": 2500},
    "deciding": ["spectrum.qnode", "spectrum.circuit", "coeffs.exact", "reconstruct"],
    "allow_rejections": True,
    "rule": "case = (circuit or polynomial, tool, options); distinct = distinct content; non-trivial = the function really depends on the "
            "analysed variable with at least one non-zero frequency (spectra/reconstruct) or has >= 3 non-zero coefficients (coefficients)",
    "assumptions": ["reference gate table transcribes the documented unitaries (C02)"],
}

ENC1 = ["RX", "RY", "RZ", "PhaseShift", "RX", "RY"]
ENC2 = ["CRX", "CRY", "CRZ", "IsingXX", "IsingYY", "IsingZZ", "IsingXY", "ControlledPhaseShift", "SingleExcitation", "MultiRZ", "PauliRot"]
SCALES = [1.0, 1.0, 2.0, 0.5, 3.0, -1.0, 1.5, 2.3]


def gen_encoding_spec(C, rng, n_x, allow_scale=True, allow_sum=True):
    """encoding circuit: inputs x_0..x_{n_x-1} enter through single-parameter gates with linear pre-processing; 'weights' are constants"""
    nw = int(rng.integers(1, 4))
    wires = list(range(nw))
    gates = []
    for w in wires:
        if rng.random() < 0.5:
            gates.append({"name": "Hadamard", "wires": [w], "hyper": {}, "args": []})
    n_layers = int(rng.integers(1, 4))
    for _ in range(n_layers):
        for j in range(n_x):
            if rng.random() < 0.75:
                pool = ENC1 + (ENC2 if nw >= 2 else [])
                name, gw, hy, npar = C.random_gate(rng, wires, pool)
                r = rng.random()
                if allow_scale and r < 0.4:
                    e = ("lin", j, float(SCALES[int(rng.integers(len(SCALES)))]), 0.0 if rng.random() < 0.6 else round(float(rng.uniform(-1, 1)), 3))
                elif allow_sum and n_x > 1 and r < 0.55:
                    k = int((j + 1 + rng.integers(n_x - 1)) % n_x)
                    e = ("add", j, k, float(rng.choice([1.0, 2.0, -1.0, 0.5])))
                else:
                    e = ("x", j)
                gates.append({"name": name, "wires": gw, "hyper": hy, "args": [e]})
        # trainable block (constants here)
        for w in wires:
            if rng.random() < 0.7:
                gates.append({"name": "Rot", "wires": [w], "hyper": {}, "args": [("c", round(float(rng.uniform(-3, 3)), 4)) for _ in range(3)]})
        if nw >= 2 and rng.random() < 0.7:
            a, b = [int(v) for v in rng.choice(nw, size=2, replace=False)]
            gates.append({"name": "CNOT", "wires": [a, b], "hyper": {}, "args": []})
    k = int(rng.integers(1, min(2, nw) + 1))
    ow = [wires[int(i)] for i in rng.choice(nw, size=k, replace=False)]
    obs = ("pauli", "".join(rng.choice(list("XYZ"), size=k)), ow)
    return {"nw": nw, "wires": wires, "n_in": n_x, "gates": gates, "meas": [{"kind": "expval", "obs": obs}], "batch": None}


def fit_residual(g, freqs, rng, span=40.0):
    """max residual of the least-squares fit of g over {1, cos(w t), sin(w t): w in freqs, w > 0} on generic points"""
    pos = sorted({round(abs(float(w)), 10) for w in freqs if abs(float(w)) > 1e-12})
    M = max(60, 6 * len(pos) + 20)
    ts = rng.uniform(-span, span, size=M)
    A = np.ones((M, 1 + 2 * len(pos)))
    for k, w in enumerate(pos):
        A[:, 1 + 2 * k] = np.cos(w * ts)
        A[:, 2 + 2 * k] = np.sin(w * ts)
    y = np.array([g(t) for t in ts])
    sol, *_ = np.linalg.lstsq(A, y, rcond=None)
    return float(np.max(np.abs(A @ sol - y))), float(np.max(np.abs(y - y.mean())))


def run(ctx):
    import warnings

    import pennylane as qp

    from pv.checks.c34 import classify_exc, crash_mech
    from pv.gen import c34_circ as C

    warnings.filterwarnings("ignore")
    dev = qp.device("default.qubit")
    pnp = qp.numpy
    F = qp.fourier
    base = ctx.shard * 100000
    n_cases = ctx.n(140, 5000)
    min_cases = 8 if ctx.quick else 40

    def crash(monitor, what, e, case):
        import traceback
        ctx.ev(monitor)
        ctx.violation(monitor, f"{what}: {type(e).__name__}: {str(e)[:300]} on an admitted input", case={**case, "tb": traceback.format_exc()[-900:]},
                      mech=crash_mech(e, what.split(":")[0]))

    for ci in range(n_cases):
        if ci >= min_cases and not ctx.more():
            break
        idx = base + ci
        ctx.case_index = idx
        if ctx.only_case is not None and idx != ctx.only_case:
            continue
        rng = ctx.case_rng(idx)
        kind = ci % 4

        # ================================================================== spectra (qnode_spectrum / circuit_spectrum) + reconstruct
        if kind in (0, 1, 2):
            n_x = int(rng.integers(1, 4))
            marked = (kind == 2)      # circuit_spectrum: unscaled marked gates only
            spec = gen_encoding_spec(C, rng, n_x, allow_scale=not marked, allow_sum=not marked)
            x = C.random_point(rng, n_x)
            desc = C.describe(spec)
            R = C.Ref(spec)
            f = lambda y: float(R.f(y)[0])  # noqa: E731

            def restr(j):
                e = np.zeros(n_x)
                e[j] = 1.0
                return lambda t: f(x + (t - x[j]) * e)     # function of the VALUE of x_j

            spectra = None
            consts = [e[1] for g in spec["gates"] for e in g["args"] if e[0] == "c"]
            # documented usage: trainable weights are a separate QNode argument w (argnum selects x); the other variant keeps them
            # as literal constants inside the quantum function
            w_mode = (not marked) and bool(consts) and (rng.random() < 0.7)
            wvals = pnp.array(consts, requires_grad=True) if w_mode else None
            if not marked:
                def circuit(x, w=None):   # named argument "x"
                    k = 0
                    for g in spec["gates"]:
                        params = []
                        for e in g["args"]:
                            if e[0] == "c" and w is not None:
                                params.append(w[k])
                                k += 1
                            else:
                                params.append(C.ev_expr(e, x, qp.math))
                        C.pl_apply_gate(qp, g, params)
                    return C.pl_measurements(qp, spec)[0]
                _qn = qp.QNode(circuit, dev)
                qn = (lambda a, **kw: _qn(a, wvals, **kw)) if w_mode else _qn
                try:
                    if w_mode:
                        spectra = F.qnode_spectrum(_qn, argnum=[0])(pnp.array(x, requires_grad=True), wvals)["x"]
                    else:
                        spectra = F.qnode_spectrum(_qn)(pnp.array(x, requires_grad=True))["x"]
                except Exception as e:  # noqa: BLE001
                    if classify_exc(e) == "reject":
                        ctx.reject(f"qnode_spectrum:{type(e).__name__}:{str(e)[:60]}")
                    else:
                        crash("spectrum.qnode", "qnode_spectrum", e, {"spec": desc, "x": x.tolist()})
                    spectra = None
                mon = "spectrum.qnode"
                get = (lambda j: spectra.get((j,))) if spectra is not None else None
            else:
                def circuit(x):
                    for g in spec["gates"]:
                        params = [C.ev_expr(e, x, qp.math) for e in g["args"]]
                        op = C.pl_apply_gate(qp, g, params)
                        if g["args"] and g["args"][0][0] == "x":
                            F.mark(op, f"x{g['args'][0][1]}")
                    return C.pl_measurements(qp, spec)[0]
                qn = qp.QNode(circuit, dev)
                try:
                    cs = F.circuit_spectrum(qn)(pnp.array(x, requires_grad=True))
                except Exception as e:  # noqa: BLE001
                    if classify_exc(e) == "reject":
                        ctx.reject(f"circuit_spectrum:{type(e).__name__}:{str(e)[:60]}")
                    else:
                        crash("spectrum.circuit", "circuit_spectrum", e, {"spec": desc, "x": x.tolist()})
                    cs = None
                mon = "spectrum.circuit"
                # an input that marks no gate has no entry: the function is constant in it (spectrum {0})
                get = (lambda j: cs.get(f"x{j}", [0])) if cs is not None else None

            if get is not None:
                for j in range(n_x):
                    freqs = get(j)
                    case = {"spec": desc, "x": x.tolist(), "param": j, "reported": [float(w) for w in (freqs or [])]}
                    if freqs is None:
                        ctx.ev(mon)
                        ctx.violation(mon, f"no spectrum reported for parameter x[{j}]", case=case, mech=f"missing-entry:{mon}")
                        continue
                    res, var = fit_residual(restr(j), freqs, rng)
                    nontriv = var > 1e-6
                    ctx.case(fingerprint(repr(desc), x.tolist(), mon, j), nontrivial=nontriv, cls=mon, sample=case)
                    ctx.ev(mon)
                    fl = [round(float(w), 8) for w in freqs]
                    if 0.0 not in [abs(v) for v in fl] or any(round(-v, 8) not in fl for v in fl):
                        ctx.violation(mon, f"reported spectrum for x[{j}] is not symmetric or lacks 0: {fl}", case=case, mech=f"asymmetric-spectrum:{mon}")
                    if res > 1e-7 * max(1.0, var):
                        mech = f"missing-frequency:{mon}"
                        if mon == "spectrum.qnode" and not w_mode and consts:
                            # literal constant gate parameters: qnode_spectrum indexes tape.par_info (all parameters) with the row index of the
                            # classical Jacobian (trainable parameters only), so the generator of the wrong gate is used
                            mech = "qnode_spectrum:par_info-index-vs-trainable-jacobian-row"
                        ctx.violation(mon, f"the reported spectrum {fl} for x[{j}] does not contain all frequencies of the circuit's dependence on "
                                           f"x[{j}]: best fit over the reported frequencies leaves residual {res:.3e} (variation of the function {var:.3e})",
                                      case={**case, "weights_as_argument": bool(w_mode)}, mech=mech)

            # ---------------- reconstruct (uses our own knowledge of a sufficient spectrum: brute-force superset from generator gaps)
            if not marked and spectra is not None and ctx.more():
                j = int(rng.integers(n_x))
                sp = sorted({round(abs(float(w)), 8) for w in spectra[(j,)]})
                res0, var0 = fit_residual(restr(j), sp, rng)
                if res0 <= 1e-8 * max(1.0, var0) and len(sp) <= 12:
                    pos = [w for w in sp if w > 0]
                    integer_contig = pos == [float(k) for k in range(1, len(pos) + 1)]
                    modes = ["spectra", "spectra+shifts"] + (["nums_frequency"] if integer_contig and pos else [])
                    mode = modes[int(rng.integers(len(modes)))]
                    kw = {}
                    if mode == "nums_frequency":
                        kw["nums_frequency"] = {"x": {(j,): len(pos)}}
                    else:
                        kw["spectra"] = {"x": {(j,): list(sp)}}
                        if mode == "spectra+shifts" and pos:
                            # 2R+1 well separated shifts inside one period of the smallest frequency gap
                            R_ = len(pos)
                            gaps = np.diff([0.0] + pos)
                            period = 2 * np.pi / max(min(gaps), 1e-3)
                            sh = (np.arange(2 * R_ + 1) + rng.uniform(-0.15, 0.15, size=2 * R_ + 1)) * period / (2 * R_ + 1)
                            kw["shifts"] = {"x": {(j,): [float(v) for v in sh]}}
                    case = {"spec": desc, "x": x.tolist(), "param": j, "mode": mode, **{k: str(v)[:300] for k, v in kw.items()}}
                    use_f0 = bool(rng.random() < 0.4)
                    try:
                        xin = pnp.array(x, requires_grad=True)
                        extra_args = (wvals,) if w_mode else ()
                        fkw = {"f0": _qn(xin, *extra_args)} if use_f0 else {}
                        with warnings.catch_warnings(record=True) as wlist:
                            warnings.simplefilter("always")
                            rec = F.reconstruct(_qn, {"x": [(j,)]}, **kw)(xin, *extra_args, **fkw)["x"][(j,)]
                            illcond = any("ill-conditioned" in str(w.message).lower() or "condition" in str(w.message).lower() for w in wlist)
                        pts = rng.uniform(-6, 6, size=40)
                        obs = np.array([float(rec(pnp.array(t))) for t in pts])
                        ref = np.array([restr(j)(t) for t in pts])
                    except Exception as e:  # noqa: BLE001
                        if classify_exc(e) == "reject":
                            ctx.reject(f"reconstruct:{type(e).__name__}:{str(e)[:60]}")
                        else:
                            crash("reconstruct", "reconstruct:" + mode, e, case)
                    else:
                        if illcond:
                            ctx.reject("reconstruct:documented ill-conditioning warning")
                        else:
                            ctx.case(fingerprint(repr(desc), x.tolist(), "reconstruct", j, mode, use_f0), nontrivial=bool(pos) and var0 > 1e-6, cls="reconstruct:" + mode, sample=case)
                            ctx.ev("reconstruct")
                            err = float(np.max(np.abs(obs - ref)))
                            tol = 1e-7 * max(1.0, float(np.max(np.abs(ref)))) * (1 if mode == "nums_frequency" else 50)
                            if not err <= tol:
                                k = int(np.argmax(np.abs(obs - ref)))
                                ctx.violation("reconstruct", f"reconstruct({mode}, f0={'given' if use_f0 else 'None'}) for x[{j}]: value {obs[k]:.10g} at {pts[k]:.4f}, "
                                                             f"function value {ref[k]:.10g} (max |diff| {err:.3e})", case=case, mech=f"reconstruct-wrong:{mode}")

        # ================================================================== coefficients of random trigonometric polynomials
        if kind == 3:
            n = int(rng.integers(1, 4))
            true_deg = [int(rng.integers(0, 4 if n < 3 else 3)) for _ in range(n)]
            shape = tuple(2 * d + 1 for d in true_deg)
            # real-valued polynomial: c_{-n} = conj(c_n); build from random complex array then symmetrise
            c = rng.normal(size=shape) + 1j * rng.normal(size=shape)
            c[rng.random(shape) < 0.4] = 0
            idxs = [np.arange(-d, d + 1) for d in true_deg]
            cd = {}
            for pos_ in np.ndindex(*shape):
                nv = tuple(int(idxs[a][pos_[a]]) for a in range(n))
                cd[nv] = c[pos_]
            for nv in list(cd):
                mv = tuple(-v for v in nv)
                if nv == mv:
                    cd[nv] = complex(cd[nv].real)
                elif nv < mv:
                    cd[mv] = np.conj(cd[nv])
            terms = [(np.array(nv), v) for nv, v in cd.items() if v != 0]

            def poly(xv, terms=terms, n=n):
                """f(x) = sum_n c_n exp(+i n.x); supports broadcasting over the LAST input (an array) as the real function documents"""
                tot = 0.0
                for nv, v in terms:
                    ph = 0.0
                    for a in range(n):
                        ph = ph + nv[a] * xv[a]
                    tot = tot + v * np.exp(1j * ph)
                return np.real(tot)

            variant = int(rng.integers(4))
            if variant == 0:      # degree >= true degree (possibly larger), no filter
                deg = [d + int(rng.integers(0, 3)) for d in true_deg]
                kw = {}
            elif variant == 1:    # single int degree
                dmax = max(true_deg) + int(rng.integers(0, 2))
                deg = [dmax] * n
                kw = {}
            elif variant == 2:    # low-pass filter: requested degree below the true one, threshold covers the true degree
                deg = [max(0, d - int(rng.integers(0, 2))) for d in true_deg]
                thr = [max(dt, 2 * dq, dq + 1) + int(rng.integers(0, 2)) for dt, dq in zip(true_deg, deg)]
                kw = {"lowpass_filter": True, "filter_threshold": tuple(thr) if rng.random() < 0.7 or n > 1 else thr[0]}
                if not isinstance(kw["filter_threshold"], tuple):
                    kw["filter_threshold"] = int(max(thr))
                    thr = [int(max(thr))] * n
            else:                 # default threshold 2*degree must cover the true degree
                deg = [max(d, 1) if d else 1 for d in true_deg]
                deg = [max(dq, (dt + 1) // 2) for dq, dt in zip(deg, true_deg)]
                kw = {"lowpass_filter": True}
            degree_arg = deg[0] if (len(set(deg)) == 1 and rng.random() < 0.5) else tuple(deg)
            if n > 1 and isinstance(degree_arg, int):
                degree_arg = tuple(deg)
            bc = bool(rng.random() < 0.4)
            case = {"n_inputs": n, "true_degree": true_deg, "degree": deg, "kwargs": {k: str(v) for k, v in kw.items()}, "use_broadcasting": bc,
                    "coefficients": {str(k): [float(np.real(v)), float(np.imag(v))] for k, v in list(cd.items())[:40] if v != 0}}
            try:
                out = np.asarray(F.coefficients(poly, n, degree_arg, use_broadcasting=bc, **kw))
            except Exception as e:  # noqa: BLE001
                if classify_exc(e) == "reject":
                    ctx.reject(f"coefficients:{type(e).__name__}:{str(e)[:60]}")
                else:
                    crash("coeffs.exact", "coefficients", e, case)
                continue
            ctx.case(fingerprint("poly", repr(sorted((k, complex(v)) for k, v in cd.items())), deg, repr(kw), bc), nontrivial=len(terms) >= 3, cls=f"coefficients:v{variant}", sample=case)
            ctx.ev("coeffs.exact")
            exp_shape = tuple(2 * d + 1 for d in deg)
            if out.shape != exp_shape:
                ctx.violation("coeffs.exact", f"coefficients returned shape {out.shape}, expected {exp_shape} for degree {deg}", case=case, mech="coefficients:shape")
                continue
            exp_p = np.zeros(exp_shape, dtype=complex)   # convention f = sum c_n e^{+i n x}, FFT ordering index n mod (2d+1)
            exp_m = np.zeros(exp_shape, dtype=complex)   # convention f = sum c_n e^{-i n x} (docstring)
            for nv, v in cd.items():
                if v == 0 or any(abs(nv[a]) > deg[a] for a in range(n)):
                    continue
                exp_p[tuple(nv[a] % (2 * deg[a] + 1) for a in range(n))] = v
                exp_m[tuple((-nv[a]) % (2 * deg[a] + 1) for a in range(n))] = v
            ep, em = float(np.max(np.abs(out - exp_p))), float(np.max(np.abs(out - exp_m)))
            tol = 1e-9 * max(1.0, float(np.max(np.abs(exp_p))))
            if ep <= tol:
                ctx.count("coefficients_convention:exp(+i n x)")
            elif em <= tol:
                ctx.count("coefficients_convention:exp(-i n x)")
            else:
                k = np.unravel_index(int(np.argmax(np.abs(out - exp_p))), out.shape)
                ctx.violation("coeffs.exact", f"coefficients(degree={deg}, {kw}, use_broadcasting={bc}): entry {tuple(int(v) for v in k)} = {out[k]:.8g}, analytic "
                                              f"coefficient {exp_p[k]:.8g} (max |diff| {ep:.3e}; with the opposite sign convention {em:.3e})",
                              case=case, mech="coefficients:wrong:" + ("filter" if kw else "plain") + (":broadcast" if bc else ""))

            # QNode function vs reference coefficients (1-2 inputs, integer frequencies)
            if ci % 8 == 3 and ctx.more():
                n_x = int(rng.integers(1, 3))
                spec = gen_encoding_spec(C, rng, n_x, allow_scale=False, allow_sum=False)
                desc = C.describe(spec)
                R = C.Ref(spec)
                # brute-force degree bound: number of encoding gates per input x 2 (controlled gates have half-integer gaps -> use period 4 pi: skip those)
                if any(g["name"] in ("CRX", "CRY", "CRZ", "IsingXY", "SingleExcitation") and g["args"] and g["args"][0][0] != "c" for g in spec["gates"]):
                    continue
                dq = [sum(1 for g in spec["gates"] if g["args"] and g["args"][0][0] == "x" and g["args"][0][1] == j) * 1 for j in range(n_x)]
                dq = [min(max(d, 1), 4) if d <= 4 else None for d in dq]
                if None in dq:
                    continue
                qf = C.make_qfunc(qp, spec, "array")
                qn = qp.QNode(qf, dev)
                try:
                    out = np.asarray(F.coefficients(lambda v: qn(pnp.array(v, requires_grad=False)), n_x, tuple(dq)))
                except Exception as e:  # noqa: BLE001
                    if classify_exc(e) == "reject":
                        ctx.reject(f"coefficients(qnode):{type(e).__name__}:{str(e)[:60]}")
                    else:
                        crash("coeffs.exact", "coefficients(qnode)", e, {"spec": desc})
                    continue
                # reference coefficients by our own dense sampling of the reference function (degree 6 per input >= true degree)
                D_ = 6
                grid = [2 * np.pi * np.arange(2 * D_ + 1) / (2 * D_ + 1)] * n_x
                vals = np.zeros((2 * D_ + 1,) * n_x)
                for pos_ in np.ndindex(*vals.shape):
                    vals[pos_] = R.f(np.array([grid[a][pos_[a]] for a in range(n_x)]))[0]
                full = np.fft.fftn(vals) / vals.size
                expq = np.zeros(out.shape, dtype=complex)
                for pos_ in np.ndindex(*out.shape):
                    nv = [pos_[a] if pos_[a] <= dq[a] else pos_[a] - (2 * dq[a] + 1) for a in range(n_x)]
                    expq[pos_] = full[tuple(nv[a] % (2 * D_ + 1) for a in range(n_x))]
                ctx.case(fingerprint(repr(desc), "coeff-qnode", dq), nontrivial=bool(np.sum(np.abs(expq) > 1e-6) >= 3), cls="coefficients:qnode", sample={"spec": desc, "degree": dq})
                ctx.ev("coeffs.exact")
                err = float(np.max(np.abs(out - expq)))
                if not err <= 1e-8:
                    ctx.violation("coeffs.exact", f"coefficients(qnode, degree={dq}) differ from the reference function's Fourier coefficients by {err:.3e}",
                                  case={"spec": desc, "degree": dq}, mech="coefficients:wrong:qnode")
