"""C15 — Clifford+T approximations meet their precision bound.

Deciding monitors (post-conditions on the real functions):

* ``rs.bound`` / ``sk.bound``   the emitted sequence's unitary (product of a gate table written here, incl. GlobalPhase) is within epsilon of the
                                target rotation in operator norm up to a global phase; a miss is only excused when the documented search budget
                                was exhausted (observed through wrappers on the module-level helpers)
* ``rs.gateset`` / ``sk.gateset``  only Clifford+T gates are emitted and the last operation is the documented GlobalPhase
* ``ct.gate``     every (RZ angle, per-gate epsilon) -> sequence event inside ``clifford_t_decomposition`` (the cached callable is wrapped): within
                  the per-gate epsilon requested by *this* run (catches cache reuse for a different angle / looser epsilon)
* ``ct.circuit``  the transformed tape only contains Clifford+T (+GlobalPhase) gates and its unitary is within epsilon of the input tape's
                  (pv.ref.bridge reference), histories of calls with changing epsilon / repeated and near-equal angles share one process
"""
import math
import warnings

import numpy as np

from pv.ctx import fingerprint

META = {
    "id": "C15",
    "level": "exploration",
    "technique": "runtime post-conditions on rs_decomposition / sk_decomposition / clifford_t_decomposition: emitted gate set and operator-norm "
                 "distance of the emitted sequence (own gate table) to the target, with search-budget observability through wrapped helpers",
    "level_text": "Random and boundary angles (multiples of pi/4 and pi/8, +-1e-9 neighbours, tiny, near +-2pi/+-4pi, large) x epsilon in "
                  "1e-1..1e-6 (1e-7 in the thorough tier) for Ross-Selinger, 1e-1..1e-2 x max_depth 1..4 for Solovay-Kitaev, random 1-3 wire "
                  "circuits x epsilon for the transform with call histories that reuse the global cache; held on the evaluations observed.",
    "level_note": "The qp.gridsynth / qp.transforms.gridsynth front end is a Catalyst (qjit) pass; Catalyst is not installed, so only its input "
                  "validation is exercised (monitor gridsynth.validation, not deciding). The qjit branch of rs_decomposition is not reachable. "
                  "Distances are operator 2-norms minimised over a global phase (the statement's norm); agreement *including* the returned "
                  "GlobalPhase is monitored separately (rs.phase, sk.phase, ct.phase) and counted. At epsilon <= ~1.5e-8 float64 makes the "
                  "acceptance threshold 1-eps^2/2 round to 1.0 and the grid search is left through a swallowed exception: reported as mechanism "
                  "rs:float64-floor. A miss after all max_search_trials attempts is the documented behaviour and is only counted (budget_limited); the "
                  "design's 10x-budget re-run is infeasible because trial k costs ~2^k.",
    "shards": {"quick": 8, "thorough": 16},
    "budget_s": {"quick": 35, "thorough": 300},
    "min_evals": {"quick": 400, "thorough": 3000},
    "min_nontrivial": {"quick": 100, "thorough": 800},
    "deciding": ["rs.bound", "rs.gateset", "sk.bound", "sk.gateset", "ct.gate", "ct.circuit"],
    "rule": "case = (algorithm, target gate and angle, epsilon, budget options) or (circuit, epsilon, method, position in the call history); distinct = "
            "distinct (algorithm, rounded angle, epsilon, options) / circuit structure; non-trivial = the target is not itself a Clifford+T gate "
            "(angle not a multiple of pi/4) so that an approximation is actually computed",
    "assumptions": ["the Clifford+T gate matrices written in this file are the documented ones", "numpy.linalg.norm(.,2) is correct"],
}

SQ = 1 / math.sqrt(2)
TABLE = {
    "Identity": np.eye(2, dtype=complex),
    "PauliX": np.array([[0, 1], [1, 0]], dtype=complex),
    "PauliY": np.array([[0, -1j], [1j, 0]], dtype=complex),
    "PauliZ": np.array([[1, 0], [0, -1]], dtype=complex),
    "Hadamard": np.array([[SQ, SQ], [SQ, -SQ]], dtype=complex),
    "S": np.array([[1, 0], [0, 1j]], dtype=complex),
    "T": np.array([[1, 0], [0, np.exp(1j * math.pi / 4)]], dtype=complex),
    "SX": 0.5 * np.array([[1 + 1j, 1 - 1j], [1 - 1j, 1 + 1j]], dtype=complex),
}
for _k in ("S", "T", "SX"):
    TABLE[f"Adjoint({_k})"] = TABLE[_k].conj().T
TWOQ = {
    "CNOT": np.array([[1, 0, 0, 0], [0, 1, 0, 0], [0, 0, 0, 1], [0, 0, 1, 0]], dtype=complex),
    "CZ": np.diag([1, 1, 1, -1]).astype(complex),
    "CY": np.array([[1, 0, 0, 0], [0, 1, 0, 0], [0, 0, 0, -1j], [0, 0, 1j, 0]], dtype=complex),
    "SWAP": np.array([[1, 0, 0, 0], [0, 0, 1, 0], [0, 1, 0, 0], [0, 0, 0, 1]], dtype=complex),
    "ISWAP": np.array([[1, 0, 0, 0], [0, 0, 1j, 0], [0, 1j, 0, 0], [0, 0, 0, 1]], dtype=complex),
}


def opnorm_phase(U, V):
    """min_phi || U − e^{i phi} V ||_2 for 2x2 or larger unitaries (phase from tr(V^dagger U); exact minimiser for normal U V^dagger)."""
    t = np.trace(V.conj().T @ U)
    ph = t / abs(t) if abs(t) > 1e-14 else 1.0
    d0 = np.linalg.norm(U - ph * V, 2)
    # the trace phase minimises the Frobenius distance; refine for the operator norm via the eigenphases of V^dagger U
    ev = np.linalg.eigvals(V.conj().T @ U)
    ang = np.angle(ev)
    # optimal phase centres the arc spanned by the eigenphases
    a = np.sort(ang)
    gaps = np.diff(np.concatenate([a, [a[0] + 2 * math.pi]]))
    j = int(np.argmax(gaps))
    span = 2 * math.pi - gaps[j]
    d1 = 2 * math.sin(span / 4)
    return float(min(d0, d1))


def seq_matrix_1q(ops):
    """(matrix incl. global phase, matrix without, names not in the Clifford+T table)."""
    U = np.eye(2, dtype=complex)
    bad = []
    phase = 0.0
    for o in ops:
        nm = o.name
        if nm == "GlobalPhase":
            phase += float(np.real(_scalar(o.data[0])))
            continue
        M = TABLE.get(nm)
        if M is None:
            bad.append(nm)
            continue
        U = M @ U
    return U * np.exp(-1j * phase), U, bad


def _scalar(x):
    t = type(x).__module__
    if t.startswith("torch"):
        return x.detach().cpu().numpy()
    return np.asarray(x)


def target_1q(kind, theta):
    if kind == "RZ":
        return np.diag([np.exp(-0.5j * theta), np.exp(0.5j * theta)])
    if kind == "PhaseShift":
        return np.diag([1.0, np.exp(1j * theta)])
    if kind == "RX":
        c, s = math.cos(theta / 2), math.sin(theta / 2)
        return np.array([[c, -1j * s], [-1j * s, c]])
    if kind == "RY":
        c, s = math.cos(theta / 2), math.sin(theta / 2)
        return np.array([[c, -s], [s, c]], dtype=complex)
    raise ValueError(kind)


def hostile_angle(rng):
    r = rng.random()
    P = math.pi
    if r < 0.12:
        return float(int(rng.integers(-16, 17)) * P / 4)  # exact Clifford+T angles
    if r < 0.24:
        return float((2 * int(rng.integers(-8, 9)) + 1) * P / 8)  # odd multiples of pi/8
    if r < 0.36:
        return float(int(rng.integers(-16, 17)) * P / 8 + (1 if rng.random() < 0.5 else -1) * 10.0 ** float(rng.uniform(-10, -6)))
    if r < 0.44:
        return float((1 if rng.random() < 0.5 else -1) * 10.0 ** float(rng.uniform(-10, -2)))  # tiny
    if r < 0.54:
        return float([2 * P, -2 * P, 4 * P, -4 * P, P, -P][int(rng.integers(6))] + rng.normal() * 10.0 ** float(rng.uniform(-9, -1)))
    if r < 0.6:
        return float(rng.uniform(-60, 60))
    return float(rng.uniform(-4 * P, 4 * P))


def is_clifford_t_angle(theta):
    q = theta / (math.pi / 4)
    return abs(q - round(q)) < 1e-12


# ----------------------------------------------------------------------------- the check
def run(ctx):
    warnings.filterwarnings("ignore")
    import time as _time

    import pennylane as qp
    from pennylane.ops.op_math.decompositions import grid_problems as GPM
    from pennylane.ops.op_math.decompositions import ross_selinger as RSM
    from pennylane.ops.op_math.decompositions import solovay_kitaev as SKM
    from pennylane.transforms.decompositions import clifford_t_transform as CTM

    from pv.gen import circ
    from pv.ref import bridge

    _t0 = _time.monotonic()

    def more():
        return (_time.monotonic() - _t0 < ctx.budget_s) or ctx.more()

    seen = {}

    def viol(mon, msg, case, mech, **kw):
        seen[mech] = seen.get(mech, 0) + 1
        ctx.count(f"viol/{mech}")
        if seen[mech] <= 3:
            ctx.violation(mon, msg, case=case, mech=mech, **kw)

    # ------------------------------------------------------------------ budget observability (wrappers on module-level helpers)
    obs = {"grid_trials": 0, "grid_max": None, "dioph": [], "last_candidate": None, "gc_calls": 0}
    orig_s2d = GPM.GridIterator.solve_two_dim_problem
    orig_iter = GPM.GridIterator.__iter__

    def s2d(self, *a, **k):
        obs["grid_trials"] += 1
        obs["trial_exhausted"] = False
        res = orig_s2d(self, *a, **k)

        def gen():
            for x in res:
                yield x
            obs["trial_exhausted"] = True

        return gen()

    def it_wrap(self):
        obs["grid_trials"] = 0
        obs["trial_exhausted"] = False
        obs["grid_max"] = self.max_trials
        for item in orig_iter(self):
            # a candidate handed over after all max_trials grid problems were solved and consumed comes from the fallback list:
            # the documented "max_search_trials attempts have been made" situation
            # in-loop candidates passed the source's own float test ``dot_prod >= self.target``; candidates handed over from the
            # fallback list (after the search loop ended or was aborted) did not.  Recompute that float expression here.
            u, k_ = item
            z = complex(u)
            dot = (self.zval[0] * z.real + self.zval[1] * z.imag) / (2 ** (k_ // 2) * (math.sqrt(2) ** (k_ % 2)))
            obs["last_candidate"] = item
            obs["last_is_fallback"] = bool(dot < self.target)
            obs["last_trials"] = obs["grid_trials"]
            yield item

    GPM.GridIterator.solve_two_dim_problem = s2d
    GPM.GridIterator.__iter__ = it_wrap
    orig_dio = RSM._solve_diophantine

    def dio(xi, max_trials=1000):
        r = orig_dio(xi, max_trials=max_trials)
        obs["dioph"].append(r is not None)
        return r

    RSM._solve_diophantine = dio
    orig_gc = SKM._group_commutator_decompose

    def gc(*a, **k):
        obs["gc_calls"] += 1
        return orig_gc(*a, **k)

    SKM._group_commutator_decompose = gc

    def rs_tol(eps):
        """The acceptance test of the algorithm is dot >= 1 − eps^2/2 in float64 (resolution 2.2e-16): distances up to
        sqrt(eps^2 + 2e-15) are indistinguishable from eps for it."""
        return math.sqrt(eps * eps + 2e-15) * (1 + 1e-6) + 1e-12

    def rs_classify(op, eps, kwargs, tgt):
        """Run the real rs_decomposition under observation.  Returns (status, distance, ops):
        ok | budget_limited (miss; all max_search_trials grid problems were tried, candidate from the fallback list – documented) |
        aborted (miss; fallback candidate although fewer than max_search_trials attempts were made: the search loop was left early) |
        miss (bound missed by a candidate the search itself accepted)."""
        obs["dioph"], obs["last_candidate"], obs["last_is_fallback"], obs["last_trials"] = [], None, None, 0
        ops = qp.ops.rs_decomposition(op, eps, **kwargs)
        Uph, _, bad = seq_matrix_1q(ops)
        d = opnorm_phase(Uph, tgt)
        if d <= rs_tol(eps):
            return "ok", d, ops
        if obs["last_candidate"] is None:  # exact odd-multiple-of-pi/8 branch: no search at all
            return "miss", d, ops
        if obs["last_is_fallback"]:
            return ("budget_limited" if obs["last_trials"] >= obs["grid_max"] else "aborted"), d, ops
        return "miss", d, ops

    # ------------------------------------------------------------------ Ross–Selinger
    def rs_case(rng, idx, eps_pool):
        kind = "RZ" if rng.random() < 0.7 else "PhaseShift"
        theta = hostile_angle(rng)
        eps = float(eps_pool[int(rng.integers(len(eps_pool)))])
        if rng.random() < 0.04 and eps <= 1e-4:
            # just outside the epsilon-neighbourhood of an exactly representable rotation: |theta − k pi/2| / 2 in (eps, 1.15 eps)
            theta = float(int(rng.integers(-4, 5)) * math.pi / 2 + (1 if rng.random() < 0.5 else -1) * 2 * eps * rng.uniform(1.0005, 1.15))
        cont = int(rng.integers(4))
        wire = [0, 0, 3, "a"][int(rng.integers(4))]
        info = {"alg": "rs", "gate": kind, "theta": theta, "epsilon": eps, "container": ["float", "np0d", "pnp", "np.float64"][cont], "wire": wire}
        ctx.case(fingerprint("rs", kind, round(theta, 12), eps), nontrivial=not is_clifford_t_angle(theta), cls=f"rs/{kind}/eps={eps:g}", sample=info)
        th_in = [theta, np.array(theta), qp.numpy.array(theta), np.float64(theta)][cont]
        op = getattr(qp, kind)(th_in, wires=wire)
        kw = {}
        if rng.random() < 0.15:
            kw = {"max_search_trials": int(rng.integers(5, 40)), "max_factoring_trials": int(rng.integers(50, 2000))}
            info["kw"] = kw
        tgt = target_1q(kind, theta)

        try:
            status, d, ops = rs_classify(op, eps, kw, tgt)
        except Exception as e:  # noqa: BLE001
            ctx.ev("rs.bound")
            viol("rs.bound", f"rs_decomposition raised {type(e).__name__}: {str(e)[:200]}", info,
                 "rs:float64-floor" if eps < 2e-8 and isinstance(e, (ValueError, ZeroDivisionError)) else f"rs:raises:{type(e).__name__}")
            return
        # gate set / structure
        ctx.ev("rs.gateset")
        Uph, U, bad = seq_matrix_1q(ops)
        wires_ok = all(list(o.wires) in ([wire], []) for o in ops)
        if bad or not ops or ops[-1].name != "GlobalPhase" or sum(o.name == "GlobalPhase" for o in ops) != 1 or not wires_ok:
            viol("rs.gateset", f"rs_decomposition emitted non-Clifford+T gates {sorted(set(bad))} / no single final GlobalPhase / wrong wires "
                 f"({[o.name for o in ops[-3:]]}, wires ok={wires_ok})", info, "rs:gateset")
            if bad:
                return
        # bound
        ctx.ev("rs.bound")
        if status == "ok":
            dph = float(np.linalg.norm(Uph - tgt, 2))
            ctx.ev("rs.phase")
            if not dph <= rs_tol(eps) + 1e-9:
                viol("rs.phase", f"rs_decomposition: sequence incl. its GlobalPhase is {dph:.3e} from the target (up to phase {d:.3e}), eps={eps:g} "
                     "(docstring: the sequence with its final GlobalPhase reproduces op.matrix())", info, "rs:global-phase")
            return
        if status == "budget_limited":
            ctx.count("rs.budget_limited")
            ctx.note_add("rs.budget_limited_examples", {"theta": theta, "eps": eps, "dist": d}, cap=10)
            # documented: "the approximation error could be >= epsilon" once max_search_trials attempts have been made.  The design's re-run with a 10x
            # budget is not feasible: the cost of grid-search trial k grows like 2^k (200 trials do not terminate), so the miss is recorded and excused.
            ctx.cover("rs/budget-limited")
            return
        if status == "aborted":
            info = {**info, "search_trials_made": obs["last_trials"], "max_search_trials": obs["grid_max"]}
            viol("rs.bound", f"rs_decomposition({kind}({theta!r}), eps={eps:g}): sequence is {d:.3e} from the target (up to phase) and the grid search was left after "
                 f"{obs['last_trials']} of {obs['grid_max']} trials with a fallback candidate (neither of the two documented exit conditions)", info,
                 # the source can only hand over a below-target candidate after at least one grid problem was set up (the fallback list is
                 # yielded after the search loop); one that arrives before any trial was accepted by a test other than dot >= target
                 "rs:float64-floor" if eps < 2e-8 else ("rs:search-aborted" if obs["last_trials"] >= 1 else "rs:below-target-candidate-before-search"),
                 observed=d, expected=eps)
            return
        viol("rs.bound", f"rs_decomposition({kind}({theta!r}), eps={eps:g}): sequence is {d:.3e} from the target in operator norm (up to phase) although the "
             f"search accepted a candidate before exhausting max_search_trials", info, "rs:bound", observed=d, expected=eps)

    # ------------------------------------------------------------------ Solovay–Kitaev
    def sk_case(rng, idx):
        r = rng.random()
        theta = hostile_angle(rng)
        if r < 0.45:
            kind = ["RZ", "RX", "RY", "PhaseShift"][int(rng.integers(4))]
            op, tgt = getattr(qp, kind)(theta, wires=0), target_1q(kind, theta)
            desc = {"gate": kind, "theta": theta}
        elif r < 0.7:
            a, b, c = hostile_angle(rng), hostile_angle(rng), hostile_angle(rng)
            op = qp.Rot(a, b, c, wires=0)
            tgt = target_1q("RZ", c) @ target_1q("RY", b) @ target_1q("RZ", a)
            desc = {"gate": "Rot", "angles": [a, b, c]}
        elif r < 0.85:
            G = rng.normal(size=(2, 2)) + 1j * rng.normal(size=(2, 2))
            Q, Rm = np.linalg.qr(G)
            tgt = Q * (np.diag(Rm) / np.abs(np.diag(Rm)))
            op = qp.QubitUnitary(tgt, wires=0)
            desc = {"gate": "QubitUnitary", "matrix": tgt}
        else:
            nm = ["Hadamard", "S", "T", "SX", "PauliY"][int(rng.integers(5))]
            op, tgt = getattr(qp, nm)(0), TABLE[nm]
            desc = {"gate": nm}
        eps = float([1e-1, 5e-2, 3e-2, 1e-2, 1e-2][int(rng.integers(5))])
        md = int(rng.integers(1, 4 if ctx.quick else 5))
        kw = {"max_depth": md}
        if rng.random() < 0.2:
            kw["basis_set"] = [("H", "T"), ("H", "S", "T"), ("H", "T", "Adjoint(T)", "S")][int(rng.integers(3))]
            kw["basis_length"] = int(rng.integers(6, 10))
        info = {"alg": "sk", **desc, "epsilon": eps, "kw": {k: (list(v) if isinstance(v, tuple) else v) for k, v in kw.items()}}
        ctx.case(fingerprint("sk", repr(desc), eps, repr(kw)), nontrivial=desc["gate"] not in ("Hadamard", "S", "T", "SX", "PauliY"), cls=f"sk/{desc['gate']}/depth={md}", sample=info)
        obs["gc_calls"] = 0
        try:
            ops = qp.ops.sk_decomposition(op, eps, **kw)
        except Exception as e:  # noqa: BLE001
            ctx.ev("sk.bound")
            viol("sk.bound", f"sk_decomposition raised {type(e).__name__}: {str(e)[:200]}", info, f"sk:raises:{type(e).__name__}")
            return
        ctx.ev("sk.gateset")
        Uph, U, bad = seq_matrix_1q(ops)
        if bad or not ops or ops[-1].name != "GlobalPhase" or sum(o.name == "GlobalPhase" for o in ops) != 1:
            viol("sk.gateset", f"sk_decomposition emitted non-Clifford+T gates {sorted(set(bad))} / no single final GlobalPhase", info, "sk:gateset")
            if bad:
                return
        ctx.ev("sk.bound")
        d = opnorm_phase(Uph, tgt)
        full = sum(3 ** (j - 1) for j in range(1, md + 1))
        if d <= eps * (1 + 1e-6) + 1e-10:
            ctx.ev("sk.phase")
            dph = float(np.linalg.norm(Uph - tgt, 2))
            if not dph <= eps * (1 + 1e-6) + 1e-9:
                ctx.count("sk.phase_mismatch")  # outside the statement ("up to global phase"): counted only
                ctx.note_add("sk.phase_mismatch_examples", {**{k: v for k, v in info.items() if k != "matrix"}, "dist_with_phase": dph, "dist_up_to_phase": d}, cap=6)
            return
        if obs["gc_calls"] >= full:
            ctx.count("sk.budget_limited")  # documented: all max_depth passes were made, error may be >= epsilon
            return
        viol("sk.bound", f"sk_decomposition(eps={eps:g}, max_depth={md}): sequence is {d:.3e} from the target (up to phase) but the algorithm stopped after "
             f"{obs['gc_calls']} of {full} commutator steps (it believed the bound was met)", info, "sk:bound-early-exit", observed=d, expected=eps)

    # ------------------------------------------------------------------ the transform: per-gate events through a wrapped _CachedCallable
    ev_log = []
    req = {"eps": None, "method": None}
    Orig = CTM._CachedCallable

    class Recording(Orig):  # pylint: disable=too-few-public-methods
        def __init__(self, method, epsilon, cache_size, is_qjit=False, **method_kwargs):
            super().__init__(method, epsilon, cache_size, is_qjit, **method_kwargs)
            req.update(eps=epsilon, method=method, kwargs=method_kwargs)
            inner = self.query

            def query(op):
                seq = inner(op)
                ev_log.append((float(np.real(_scalar(op.data[0]))), req["eps"], req["method"], list(seq), self.epsilon, dict(req.get("kwargs") or {})))
                return seq

            self.query = query

        def compatible(self, method, epsilon, cache_size, cache_eps_rtol, is_qjit, **method_kwargs):
            ok = super().compatible(method, epsilon, cache_size, cache_eps_rtol, is_qjit, **method_kwargs)
            if ok:  # the cached callable will serve this run: remember what this run asked for
                req.update(eps=epsilon, method=method, kwargs=method_kwargs)
            return ok

    CTM._CachedCallable = Recording
    CTM._CLIFFORD_T_CACHE = None

    POOL1 = ["RX", "RY", "RZ", "PhaseShift", "Rot", "Hadamard", "S", "T", "SX", "PauliX", "PauliY", "PauliZ", "U2", "U3"]
    POOL2 = ["CNOT", "CZ", "CY", "SWAP", "ISWAP", "CRZ", "ControlledPhaseShift", "IsingZZ", "CRX"]

    def tape_matrix(tape, wire_order):
        """Unitary of a Clifford+T tape from this file's table; returns (U incl. phase, names outside the gate set)."""
        n = len(wire_order)
        from pv.ref import sv
        gates, bad, phase = [], [], 0.0
        for o in tape.operations:
            nm = o.name
            if nm == "GlobalPhase":
                phase += float(np.real(_scalar(o.data[0])))
            elif nm in TABLE and len(o.wires) == 1:
                gates.append((TABLE[nm], list(o.wires)))
            elif nm in TWOQ and len(o.wires) == 2:
                gates.append((TWOQ[nm], list(o.wires)))
            else:
                bad.append(nm)
        U = sv.unitary(gates, wire_order) if not bad else np.eye(2**n)
        return U * np.exp(-1j * phase), bad

    def gen_tape(rng, snap=False):
        nw = int(rng.integers(1, 4))
        wires = [[0, 1, 2], ["a", "b", "c"], [3, 0, 7]][int(rng.integers(3))][:nw]
        nops = int(rng.integers(1, 7))
        ops = []
        for _ in range(nops):
            if nw >= 2 and rng.random() < 0.3 and not snap:
                nm = POOL2[int(rng.integers(len(POOL2)))]
                ws = [wires[int(t)] for t in rng.permutation(nw)[:2]]
            else:
                nm = POOL1[int(rng.integers(len(POOL1)))] if not snap else ["RX", "RY", "RZ"][int(rng.integers(3))]
                ws = [wires[int(rng.integers(nw))]]
            npar = circ.NAMED[nm][0]
            if snap:
                ps = [float(int(rng.integers(-4, 5)) * math.pi + (1 if rng.random() < 0.5 else -1) * rng.uniform(5e-7, 9.9e-7))]
            else:
                ps = [hostile_angle(rng) for _ in range(npar)]
            ops.append(getattr(qp, nm)(*ps, wires=ws))
        return qp.tape.QuantumScript(ops, [qp.expval(qp.Z(wires[0]))]), wires

    def ct_case(rng, idx, state):
        snap = (not ctx.quick) and rng.random() < 0.04
        # histories: with probability 1/3 reuse the previous tape (same angles) with another epsilon
        if state.get("tape") is not None and rng.random() < 0.35 and not snap:
            tape, wires = state["tape"], state["wires"]
            hist = "reuse"
        else:
            tape, wires = gen_tape(rng, snap)
            hist = "fresh"
        method = "gridsynth" if (rng.random() < 0.8 or snap) else "sk"
        eps = 1e-6 if snap else float([1e-1, 1e-2, 1e-2, 1e-3, 1e-4][int(rng.integers(4 if method == "sk" else 5))])
        kw = {}
        if method == "sk":
            eps = max(eps, 1e-2)
            kw["max_depth"] = int(rng.integers(1, 4))
        if rng.random() < 0.25:
            kw["cache_eps_rtol"] = [None, 0.0, 1e-2, 10.0][int(rng.integers(4))]
        if rng.random() < 0.1:
            kw["cache_size"] = int(rng.integers(1, 6))
        state.update(tape=tape, wires=wires)
        info = {"alg": "clifford_t", "tape": circ.describe(tape), "epsilon": eps, "method": method, "kw": kw, "history": hist, "prev_eps": state.get("prev_eps"),
                "class": "snap" if snap else "generic"}
        nontriv = any(not is_clifford_t_angle(float(np.real(_scalar(d)))) for o in tape.operations for d in o.data)
        ctx.case(fingerprint("ct", circ.tape_struct(tape), eps, method, repr(kw)), nontrivial=nontriv, cls=f"ct/{method}/eps={eps:g}/{hist}", sample=info)
        state["prev_eps"] = eps
        del ev_log[:]
        obs["gc_calls"] = 0
        try:
            [new], fn = qp.transforms.clifford_t_decomposition(tape, epsilon=eps, method=method, **kw)
        except Exception as e:  # noqa: BLE001
            ctx.ev("ct.circuit")
            viol("ct.circuit", f"clifford_t_decomposition raised {type(e).__name__}: {str(e)[:300]}", info, f"ct:raises:{type(e).__name__}")
            return
        # ---- per-gate events
        limited = False
        for (ang, eps_gate, meth, seq, eps_cached, mkw) in ev_log:
            ctx.ev("ct.gate")
            Uph, U, bad = seq_matrix_1q(seq)
            ginfo = {**info, "gate_angle": ang, "per_gate_eps": eps_gate, "cached_callable_eps": eps_cached}
            if bad or not seq or seq[-1].name != "GlobalPhase":
                viol("ct.gate", f"per-gate approximator returned gates outside Clifford+T {sorted(set(bad))} or no final GlobalPhase", ginfo, "ct:gate-gateset")
                continue
            d = opnorm_phase(Uph, target_1q("RZ", ang))
            if d <= (rs_tol(eps_gate) if meth == "gridsynth" else eps_gate * (1 + 1e-6) + 1e-10):
                ctx.ev("ct.phase")
                dph = float(np.linalg.norm(Uph - target_1q("RZ", ang), 2))
                if not dph <= eps_gate * (1 + 1e-6) + 1e-9:
                    ctx.count("ct.gate_phase_mismatch")
                continue
            if meth == "gridsynth":
                try:
                    st, _, _ = rs_classify(qp.RZ(ang, 0) if ang < 2 * math.pi else qp.RZ(-ang, 0), eps_cached, mkw, target_1q("RZ", ang if ang < 2 * math.pi else -ang))
                except Exception:  # noqa: BLE001
                    st = "miss"
                if st == "budget_limited" and eps_cached <= eps_gate * (1 + 1e-9):
                    ctx.count("ct.rs_budget_limited")
                    limited = True
                    continue
                if st == "aborted" and eps_cached <= eps_gate * (1 + 1e-9):
                    viol("ct.gate", f"gate RZ({ang!r}) inside clifford_t_decomposition: sequence {d:.3e} away (per-gate eps {eps_gate:.3e}); rs_decomposition left its "
                         "grid search early with a fallback candidate", ginfo,
                         "rs:float64-floor" if eps_cached < 2e-8 else ("rs:search-aborted" if obs["last_trials"] >= 1 else "rs:below-target-candidate-before-search"),
                         observed=d, expected=eps_gate)
                    limited = True
                    continue
            if meth == "sk":
                # documented: SK may miss after max_depth passes; decide by re-running the real function with the same options under observation
                obs["gc_calls"] = 0
                md = mkw.get("max_depth", 5)
                try:
                    qp.ops.sk_decomposition(qp.RZ(ang, 0) if ang < 2 * math.pi else qp.RZ(-ang, 0), eps_cached, **mkw)
                except Exception:  # noqa: BLE001
                    pass
                if obs["gc_calls"] >= sum(3 ** (j - 1) for j in range(1, md + 1)):
                    ctx.count("ct.sk_budget_limited")
                    limited = True
                    continue
            viol("ct.gate", f"gate RZ({ang!r}) inside clifford_t_decomposition(method={meth}) was replaced by a sequence {d:.3e} away (per-gate eps requested by "
                 f"this run {eps_gate:.3e}; the serving cache was built for eps {eps_cached:.3e})", ginfo,
                 "ct:cache-looser-eps" if eps_cached > eps_gate * (1 + 1e-9) else "ct:gate-bound", observed=d, expected=eps_gate)
            limited = True
        # ---- circuit level
        ctx.ev("ct.circuit")
        Uout, bad = tape_matrix(new, wires)
        if bad:
            viol("ct.circuit", f"transformed tape contains gates outside the Clifford+T set: {sorted(set(bad))}", info, "ct:gateset")
            return
        if new.measurements != tape.measurements and [repr(m) for m in new.measurements] != [repr(m) for m in tape.measurements]:
            viol("ct.circuit", "measurements changed", info, "ct:measurements")
        try:
            Uin, frac = bridge.tape_unitary(tape.operations, wires)
        except Exception as e:  # noqa: BLE001
            ctx.inconclusive_case(f"reference unitary failed: {type(e).__name__}: {e}")
            return
        d = opnorm_phase(Uout, Uin)
        if d <= eps * (1 + 1e-6) + 1e-9:
            ctx.ev("ct.phase")
            dph = float(np.linalg.norm(Uout - Uin, 2))
            if not dph <= eps * (1 + 1e-6) + 1e-8:
                ctx.count("ct.phase_mismatch")  # outside the statement ("up to global phase"): counted, reported in evidence, never a verdict
                ctx.note_add("ct.phase_mismatch_examples", {"eps": eps, "dist_with_phase": dph, "dist_up_to_phase": d, "class": info["class"]}, cap=6)
            return
        if limited:
            return  # explained by a per-gate event already classified above
        # mechanism classifier: is the excess explained by rotation angles within 1e-6 of a multiple of pi having been replaced by that multiple?
        mech = "ct:circuit-bound"
        # Mechanism test by intervention: PhaseShift(k pi/4) with k = 3 or 5 (mod 8) is T^3 / T^5, but the transform's shortcut emits T^dagger / T for
        # every odd k.  Such angles may sit in a PhaseShift or inside gates that decompose into one (U2, U3, ControlledPhaseShift, ...).  Move every
        # such angle by 2e-5 (outside the shortcut's 1e-6 window) and transform again: if that circuit is approximated correctly, the shortcut is the cause.
        def _odd(a):  # any multiple of pi/4: consecutive phase gates are merged before the shortcut is taken (S^dagger T^dagger -> PhaseShift(5 pi/4))
            q = a / (math.pi / 4)
            return abs(q - round(q)) * (math.pi / 4) < 1e-6 and int(round(q)) != 0

        try:
            moved, hit, jj = [], False, 0
            for o in tape.operations:
                ps = [float(np.real(_scalar(d_))) for d_ in o.data]
                if ps and any(_odd(a) for a in ps) and o.name in ("PhaseShift", "U1", "U2", "U3", "ControlledPhaseShift", "CPhaseShift00", "CPhaseShift01", "CPhaseShift10"):
                    newp = []
                    for a in ps:
                        if _odd(a):
                            jj += 1
                            newp.append(a + 2e-5 * jj)
                        else:
                            newp.append(a)
                    moved.append(type(o)(*newp, wires=o.wires))
                    hit = True
                else:
                    moved.append(o)
            if hit:
                t2 = qp.tape.QuantumScript(moved, tape.measurements)
                [new2], _ = qp.transforms.clifford_t_decomposition(t2, epsilon=eps, method=method, **kw)
                U2out, bad2 = tape_matrix(new2, wires)
                U2in, _ = bridge.tape_unitary(moved, wires)
                if not bad2 and opnorm_phase(U2out, U2in) <= eps * (1 + 1e-6) + 1e-9:
                    mech = "ct:phaseshift-odd-pi/4-shortcut"
        except Exception:  # noqa: BLE001
            pass
        try:
            snapped = []
            for o in tape.operations:
                if o.name in ("RX", "RY", "RZ", "PhaseShift") and abs(float(o.data[0]) / math.pi - round(float(o.data[0]) / math.pi)) * math.pi < 1e-6:
                    snapped.append(type(o)(round(float(o.data[0]) / math.pi) * math.pi, wires=o.wires))
                else:
                    snapped.append(o)
            Usn, _ = bridge.tape_unitary(snapped, wires)
            if mech == "ct:circuit-bound" and any(a is not b for a, b in zip(snapped, tape.operations)) and opnorm_phase(Uout, Usn) <= eps * (1 + 1e-6) + 1e-9:
                mech = "ct:snap-tolerance"
        except Exception:  # noqa: BLE001
            pass
        if mech == "ct:circuit-bound":
            # same mechanism decided by intervention (the emulation above does not reproduce the merging of adjacent rotations that happens before
            # the snap): move every rotation angle that lies within 1.5e-6 of a multiple of pi/2 out of the 1e-6 window by 2e-5 and transform again;
            # if that circuit is approximated within eps, the excess of the original came from the eps-independent snapping
            try:
                moved, hit, jj = [], False, 0
                for o in tape.operations:
                    if o.name in ("RX", "RY", "RZ", "PhaseShift"):
                        a = float(np.real(_scalar(o.data[0])))
                        q = a / (math.pi / 2)
                        if abs(q - round(q)) * (math.pi / 2) < 1.5e-6 and abs(q - round(q)) > 0:
                            jj += 1
                            moved.append(type(o)(round(q) * (math.pi / 2) + 2e-5 * jj, wires=o.wires))
                            hit = True
                            continue
                    moved.append(o)
                if hit:
                    t2 = qp.tape.QuantumScript(moved, tape.measurements)
                    [new2], _ = qp.transforms.clifford_t_decomposition(t2, epsilon=eps, method=method, **kw)
                    U2out, bad2 = tape_matrix(new2, wires)
                    U2in, _ = bridge.tape_unitary(moved, wires)
                    if not bad2 and opnorm_phase(U2out, U2in) <= eps * (1 + 1e-6) + 1e-9:
                        mech = "ct:snap-tolerance"
            except Exception:  # noqa: BLE001
                pass
        viol("ct.circuit", f"clifford_t_decomposition(eps={eps:g}, method={method}): circuit unitary is {d:.3e} from the input in operator norm (up to phase) although every "
             f"approximated gate met its per-gate bound" + (" – explained by angles within 1e-6 of a multiple of pi being replaced by that multiple irrespective of eps"
                                                            if mech == "ct:snap-tolerance" else ""), info, mech, observed=d, expected=eps)

    # ------------------------------------------------------------------ gridsynth front end: only its input validation is reachable without Catalyst
    def gridsynth_validation():
        dev = qp.device("default.qubit", wires=1)

        @qp.qnode(dev)
        def c(x):
            qp.RZ(x, 0)
            return qp.expval(qp.Z(0))

        for kwargs, want in (({"epsilon": 1}, ValueError), ({"epsilon": 1e-3, "ppr_basis": 1}, ValueError), ({"epsilon": "a"}, ValueError)):
            ctx.ev("gridsynth.validation")
            try:
                qp.transforms.gridsynth(c, **kwargs)
                viol("gridsynth.validation", f"gridsynth accepted invalid arguments {kwargs}", {"kwargs": repr(kwargs)}, "gridsynth:validation")
            except want:
                pass
            except Exception as e:  # noqa: BLE001
                viol("gridsynth.validation", f"gridsynth raised {type(e).__name__} instead of {want.__name__} for {kwargs}", {"kwargs": repr(kwargs)}, "gridsynth:validation")
        ctx.ev("gridsynth.validation")
        try:
            g = qp.transforms.gridsynth(c, epsilon=1e-3)
            g(0.3)
            viol("gridsynth.validation", "gridsynth executed without qjit (documented: must be applied inside qjit)", {}, "gridsynth:no-qjit")
        except NotImplementedError:
            ctx.reject("gridsynth:needs-catalyst")
        ctx.uncovered("gridsynth-pass", "Catalyst (qjit) is not installed; only input validation exercised")

    if ctx.shard == 0:
        gridsynth_validation()

    # ------------------------------------------------------------------ drive
    eps_rs = [1e-1, 3e-2, 1e-2, 1e-3, 1e-4, 1e-5] if ctx.quick else [1e-1, 3e-2, 1e-2, 1e-3, 1e-4, 1e-5, 1e-6, 1e-6, 1e-7, 1e-7, 1e-8]
    n_rs = ctx.n(640, 16000)
    n_sk = ctx.n(48, 1600)
    n_ct = ctx.n(160, 3200)
    state = {}
    total = n_rs + n_sk + n_ct
    # interleave the three families so that a time-limited run still reaches all deciding monitors
    plan = (["rs"] * n_rs) + (["sk"] * n_sk) + (["ct"] * n_ct)
    order = np.random.default_rng([ctx.seed, 15, ctx.shard, 99]).permutation(total)
    for j, pos in enumerate(order):
        if not more():
            break
        fam = plan[int(pos)]
        gi = ctx.shard + j * ctx.nshards
        ctx.case_index = gi
        rng = ctx.case_rng(gi)
        if fam == "rs":
            rs_case(rng, gi, eps_rs)
        elif fam == "sk":
            sk_case(rng, gi)
        else:
            ct_case(rng, gi, state)
