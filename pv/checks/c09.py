"""C09 — Declared parameter frequencies cover the true spectrum.

For every operator type for which the real ``qp.gradients.parameter_frequencies(op)`` answers (explicit class attribute,
single-dispatch handler, or generator eigenvalues through ``eigvals_to_frequencies``) and for every parameter index:

    f(x) = <psi| (U(x) (x) 1)^† O (U(x) (x) 1) |psi>,   U(x) = qp.matrix(op with parameter p := x)   (real code)

for random psi and random Hermitian O on the operator's wires + 1.  Deciding monitors:

* ``spectrum.dft``  — (declared set commensurate, which is every set on this tree except Hamiltonian evolutions) f is sampled
  on an equidistant grid over twice the period implied by the declared frequencies and Fourier-transformed: every
  coefficient at an index that is not a declared frequency (or 0) must vanish.
* ``spectrum.lsq``  — (always) f sampled on an incommensurate grid must lie in span{1, cos wx, sin wx : w declared}
  (least-squares residual ~ 0).  No aliasing, handles incommensurate declared sets.
* ``shift_rule.exact`` — the consequence in the statement: ``qp.gradients.generate_shift_rule(declared)`` applied to f
  reproduces f'(x0) obtained by an 8th-order central difference of f.
* ``eigvals_to_frequencies.cover`` — the helper returns every positive pairwise difference of hostile eigenvalue tuples.
"""
import numpy as np

from pv.ctx import fingerprint

META = {
    "id": "C09",
    "level": "exploration",
    "technique": "runtime post-condition on qp.gradients.parameter_frequencies: expectation values built from the real qp.matrix of the "
                 "re-parametrised operator are sampled and spectrum-analysed (DFT on a commensurate grid + least-squares span test on an "
                 "incommensurate grid); generated shift rule checked against a finite-difference derivative",
    "level_text": "Every operator type with defined frequencies that the harness can instantiate (named gates, controlled / adjoint forms incl. "
                  "control values, Hamiltonian evolutions with incommensurate spectra, fermionic excitation templates, RotXZX) x each parameter "
                  "x random other-parameter values x random states/observables. Coverage (not minimality) is demanded. Held on the samples "
                  "observed.",
    "level_note": "U(x) comes from qp.matrix of the operator rebuilt with the parameter set to x (the object whose frequencies are declared); "
                  "every 5th case is cross-checked by executing [StatePrep, op(x)] with expval(Hermitian) on default.qubit (mismatch => "
                  "inconclusive case, it is not C09's claim). psi and O live on the operator's wires plus one spectator wire. Exp with a complex "
                  "coefficient is left out (its 'parameter' is not a real shiftable number); classes raising "
                  "ParameterFrequenciesUndefinedError are rejections. Residual bounds: 1e-8 (LSQ) / 1e-9 (DFT) relative when all declared frequencies are "
                  "exact multiples of 1/2, 1e-6 otherwise (the implementation rounds generator eigenvalues to 8 decimals).",
    "shards": {"quick": 2, "thorough": 8},
    "budget_s": {"quick": 50, "thorough": 200},
    "min_evals": {"quick": 600, "thorough": 10000},
    "deciding": ["spectrum.dft", "spectrum.lsq", "shift_rule.exact"],
    "rule": "case = (operator type, parameter index, other parameters, psi, O); distinct = distinct (type, index, rounded parameters, "
            "state/observable draw); non-trivial = the sampled f actually varies with the parameter (max-min > 1e-3)",
    "assumptions": ["qp.matrix(op) is the unitary applied by devices (C01/C02/C20 decide that)"],
    "allow_rejections": True,
}


def base_of(freqs):
    """Largest b > 0 with every declared frequency an integer multiple of b (searching b = fmin/k, k <= 12); None if incommensurate."""
    fs = sorted(float(f) for f in freqs)
    if not fs:
        return None
    for k in range(1, 13):
        b = fs[0] / k
        if all(abs(f / b - round(f / b)) < 1e-6 for f in fs):
            return b
    return None


def fd8(g, x0, h=1e-2):
    c = [1 / 280, -4 / 105, 1 / 5, -4 / 5, 0.0, 4 / 5, -1 / 5, 4 / 105, -1 / 280]
    return sum(ck * g(x0 + (k - 4) * h) for k, ck in enumerate(c) if ck) / h


def run(ctx):
    import warnings

    import pennylane as qp
    import pennylane.ftqc  # noqa: F401
    from pennylane.exceptions import ParameterFrequenciesUndefinedError

    from pv.gen import num, ops
    from pv.ref import sv

    ctx.budget_s += ctx.elapsed()  # the soft budget counts work, not the (load-dependent) import of pennylane
    rng = ctx.rng
    PF = qp.gradients.parameter_frequencies
    dev = qp.device("default.qubit")
    warnings.filterwarnings("ignore")

    # ------------------------------------------------------------------ universe: tag -> factory(rng) -> (build(params)->op, params0)
    U = {}

    def named(name):
        def fac():
            op, info = ops.make_named(qp, name, rng)
            wires, hyper = info["wires"], info["hyper"]

            def build(ps):
                if name == "PauliRot":
                    return qp.PauliRot(ps[0], hyper["pauli_word"], wires=wires)
                if name == "PCPhase":
                    return qp.PCPhase(ps[0], dim=hyper["dim"], wires=wires)
                if name == "GlobalPhase":
                    return qp.GlobalPhase(ps[0], wires=wires[:1] if wires else None)
                return getattr(qp, name)(*ps, wires=wires)
            return build, [float(p) for p in info["params"]]
        return fac

    for name, (npar, nw) in ops.NAMED.items():
        if npar:
            U[name] = named(name)
    U["GlobalPhase"] = lambda: ((lambda ps, w=num.wire_labels(rng, 1): qp.GlobalPhase(ps[0], wires=w)), [num.angle(rng)])
    U["PauliRot/identity-word"] = lambda: ((lambda ps, w=num.wire_labels(rng, 2): qp.PauliRot(ps[0], "II", wires=w)), [num.angle(rng)])

    def ctrl_of(bname, nb, nc, npar=1, hyper=None):
        def fac():
            w = num.wire_labels(rng, nb + nc)
            cvals = [int(x) for x in rng.integers(0, 2, nc)]
            hy = hyper() if hyper else {}

            def build(ps):
                cls = getattr(qp, bname)
                if bname == "PauliRot":
                    base = cls(ps[0], hy["word"], wires=w[nc:])
                elif bname == "PCPhase":
                    base = cls(ps[0], dim=hy["dim"], wires=w[nc:])
                elif bname == "GlobalPhase":
                    base = cls(ps[0])
                else:
                    base = cls(*ps, wires=w[nc:])
                return qp.ctrl(base, control=w[:nc], control_values=cvals)
            return build, [num.angle(rng) for _ in range(npar)]
        return fac

    for bname, nb, nc in [("RX", 1, 2), ("RY", 1, 1), ("RZ", 1, 3), ("PhaseShift", 1, 2), ("U1", 1, 1), ("IsingXX", 2, 1), ("IsingYY", 2, 2), ("IsingZZ", 2, 1),
                          ("IsingXY", 2, 1), ("MultiRZ", 2, 1), ("MultiRZ", 3, 1), ("SingleExcitation", 2, 1), ("SingleExcitationPlus", 2, 1),
                          ("SingleExcitationMinus", 2, 1), ("DoubleExcitation", 4, 1), ("DoubleExcitationPlus", 4, 1), ("OrbitalRotation", 4, 1),
                          ("FermionicSWAP", 2, 1), ("ControlledPhaseShift", 2, 1), ("CRX", 2, 1), ("CPhaseShift10", 2, 1), ("PSWAP", 2, 1),
                          ("GlobalPhase", 0, 1), ("GlobalPhase", 0, 2)]:
        U[f"C({bname}/{nb})x{nc}"] = ctrl_of(bname, nb, nc)
    U["C(PauliRot)x1"] = ctrl_of("PauliRot", 2, 1, hyper=lambda: {"word": "".join(rng.choice(list("XYZ"), 2))})
    U["C(PCPhase)x1"] = ctrl_of("PCPhase", 2, 1, hyper=lambda: {"dim": int(rng.integers(0, 5))})
    U["C(Rot)x1"] = ctrl_of("Rot", 1, 2, npar=3)
    U["C(U2)x1"] = ctrl_of("U2", 1, 1, npar=2)
    U["C(CRot)x1"] = ctrl_of("CRot", 2, 1, npar=3)

    def adj_of(inner_tag):
        def fac():
            b, p0 = U[inner_tag]()
            return (lambda ps: qp.adjoint(b(ps))), p0
        return fac

    for t in ["RX", "PhaseShift", "CRot", "Rot", "U3", "U2", "OrbitalRotation", "DoubleExcitation", "SingleExcitation", "IsingXY", "CRY", "PCPhase", "PauliRot",
              "C(IsingXY/2)x1", "C(RX/1)x2", "C(GlobalPhase/0)x1", "FermionicSWAP", "MultiRZ"]:
        U[f"Adjoint({t})"] = adj_of(t)
    U["Adjoint(Adjoint(CRZ))"] = lambda: (lambda bp: ((lambda ps: qp.adjoint(qp.adjoint(bp[0](ps), lazy=True), lazy=True)), bp[1]))(U["CRZ"]())

    def evolution(kind):
        def fac():
            n = int(rng.integers(1, 4))
            w = num.wire_labels(rng, n)
            P = [qp.X, qp.Y, qp.Z]
            if kind == "word":
                H = qp.prod(*[P[int(rng.integers(3))](x) for x in w]) if n > 1 else P[int(rng.integers(3))](w[0])
            elif kind == "int-sum":  # commuting terms with small integer coefficients -> integer spectrum
                H = qp.sum(*[qp.s_prod(float(rng.integers(1, 4)), qp.Z(x)) for x in w]) if n > 1 else qp.s_prod(2.0, qp.Z(w[0]))
            else:  # generic: incommensurate spectrum
                terms = []
                for _ in range(int(rng.integers(2, 4))):
                    fac_ = [P[int(rng.integers(3))](x) for x in w if rng.random() < 0.7] or [P[int(rng.integers(3))](w[0])]
                    terms.append(qp.s_prod(float(np.round(rng.uniform(0.3, 1.5), 3)), qp.prod(*fac_) if len(fac_) > 1 else fac_[0]))
                H = qp.sum(*terms)
            return (lambda ps: qp.evolve(H, ps[0])), [float(rng.uniform(-3, 3))]
        return fac

    for kind in ("word", "int-sum", "generic"):
        U[f"Evolution/{kind}"] = evolution(kind)

    def fse():
        w = num.wire_labels(rng, int(rng.integers(2, 5)))
        return (lambda ps: qp.FermionicSingleExcitation(ps[0], wires=w)), [num.angle(rng)]

    def fde():
        n1, n2 = int(rng.integers(2, 4)), int(rng.integers(2, 4))
        w = num.wire_labels(rng, n1 + n2)
        return (lambda ps: qp.FermionicDoubleExcitation(ps[0], wires1=w[:n1], wires2=w[n1:])), [num.angle(rng)]

    U["FermionicSingleExcitation"] = fse
    U["FermionicDoubleExcitation"] = fde
    U["RotXZX"] = lambda: ((lambda ps, w=num.wire_labels(rng, 1): qp.ftqc.RotXZX(*ps, wires=w)), [num.angle(rng) for _ in range(3)])

    tags = sorted(U)
    ctx.note("types", tags)

    # ------------------------------------------------------------------ helpers
    def umat(op, wires):
        M = np.asarray(qp.matrix(op, wire_order=wires)).astype(complex)
        return M

    def analyse(tag, build, p0, pidx, freqs, n_ctx, k):
        """All monitors for one (instance, parameter)."""
        op0 = build(p0)
        wires = list(op0.wires)
        n = len(wires)
        d = 2**n
        F = sorted(float(f) for f in freqs)
        info = {"type": tag, "param_index": pidx, "params": p0, "declared": F, "wires": wires, "op": repr(op0)[:120]}
        if any(f <= 0 for f in F):
            ctx.ev("spectrum.lsq")
            ctx.violation("spectrum.lsq", f"{tag}: declared frequencies contain a non-positive value {F}", case=info, mech=f"nonpositive:{tag}")
            return
        cache = {}

        def Ux(x):
            key = float(x)
            if key not in cache:
                ps = list(p0)
                ps[pidx] = key
                cache[key] = umat(build(ps), wires)
            return cache[key]

        x0 = float(rng.uniform(-np.pi, np.pi))
        # frequencies derived from generator eigenvalues are rounded to 8 decimals by the implementation: unless every declared value is an
        # exact multiple of 1/2, a frequency error of ~1e-8 is inherent and the residual bounds are widened accordingly (1e-6)
        exact = all(abs(2 * f - round(2 * f)) < 1e-12 for f in F)
        # grids -------------------------------------------------------------------------------------------
        b = base_of(F)
        grid_dft = None
        if b is not None:
            bh = b / 2.0  # resolve half-base frequencies exactly
            K = int(round(F[-1] / bh))
            N = 4 * K + 9
            L = 2 * np.pi / bh
            grid_dft = x0 + L * np.arange(N) / N
            declared_idx = {0} | {int(round(f / bh)) for f in F}
        M = max(28, 4 * len(F) + 20)
        hstep = 0.7390851332151607
        grid_lsq = x0 + hstep * (np.arange(M) - M // 2)
        A = np.concatenate([np.ones((M, 1))] + [np.stack([np.cos(f * grid_lsq), np.sin(f * grid_lsq)], axis=1) for f in F], axis=1)
        rule = None
        if F:
            try:
                rule = np.asarray(qp.gradients.generate_shift_rule(tuple(F)), dtype=float)
            except Exception as e:  # noqa: BLE001
                ctx.ev("shift_rule.exact")
                ctx.violation("shift_rule.exact", f"{tag}: generate_shift_rule({F}) raised {type(e).__name__}: {e}", case=info, mech=f"rule-raise:{tag}")
        for c in range(n_ctx):
            psi = sv.random_state(rng, n + 1)
            Hm = rng.normal(size=(2 * d, 2 * d)) + 1j * rng.normal(size=(2 * d, 2 * d))
            O = Hm + Hm.conj().T
            if c % 3 == 2:  # Pauli-word observable (sparser spectrum weights)
                O = np.array([[1.0]])
                for _ in range(n + 1):
                    O = np.kron(O, [np.eye(2), np.array([[0, 1], [1, 0]]), np.array([[0, -1j], [1j, 0]]), np.diag([1.0, -1.0])][int(rng.integers(1, 4))])
            O = O / np.linalg.norm(O, 2)
            psiT = psi.reshape(d, 2)

            def f(x):
                v = (Ux(x) @ psiT).reshape(-1)
                return float(np.real(np.vdot(v, O @ v)))

            case = {**info, "x0": x0, "context": c}
            # ---- LSQ (always)
            y = np.array([f(x) for x in grid_lsq])
            scale = max(1.0, float(np.max(np.abs(y))))
            varies = float(np.max(y) - np.min(y)) > 1e-3
            ctx.case(fingerprint(tag, pidx, np.round(p0, 9), k, c, np.round(psi[:2], 6)), varies, cls=f"{tag}[{pidx}]", sample=case)
            ctx.ev("spectrum.lsq")
            coef, *_ = np.linalg.lstsq(A, y, rcond=None)
            res = float(np.max(np.abs(A @ coef - y)))
            bad = False
            nk = "max_lsq_residual_exact_freqs" if exact else "max_lsq_residual_rounded_freqs"
            ctx.note(nk, max(res / scale, ctx.notes.get(nk, 0.0)))
            if not res < (1e-8 if exact else 1e-6) * scale:
                bad = True
                # locate the strongest missing frequency for the message (long window DFT of the residual) — diagnostic only
                r = y - A @ coef
                ws = np.linspace(0.05, 8.0, 1591)
                amp = [abs(np.sum(r * np.exp(-1j * w * grid_lsq))) for w in ws]
                wmiss = float(ws[int(np.argmax(amp))])
                ctx.violation("spectrum.lsq", f"{tag} parameter {pidx}: expectation value is not in the span of the declared frequencies {F}: "
                              f"residual {res:.3e} (strongest missing component near frequency {wmiss:.2f})", case=case, mech=f"uncovered:{tag.split('/')[0]}[{pidx}]",
                              observed=res, expected=0.0)
            # ---- DFT (commensurate sets)
            if grid_dft is not None and not bad:
                yd = np.array([f(x) for x in grid_dft])
                ck = np.fft.fft(yd) / len(yd)
                ctx.ev("spectrum.dft")
                N_ = len(yd)
                worst, wk = 0.0, None
                for kk in range(N_):
                    kq = kk if kk <= N_ // 2 else kk - N_
                    if abs(kq) in declared_idx:
                        continue
                    if abs(ck[kk]) > worst:
                        worst, wk = float(abs(ck[kk])), kq
                if not worst < (1e-9 if exact else 1e-6) * scale:
                    bad = True
                    ctx.violation("spectrum.dft", f"{tag} parameter {pidx}: Fourier coefficient {worst:.3e} at frequency {abs(wk) * bh:.3f} which is not in "
                                  f"the declared set {F}", case=case, mech=f"uncovered:{tag.split('/')[0]}[{pidx}]", observed=worst, expected=0.0)
            # ---- constant function when nothing is declared
            if not F and not bad:
                ctx.ev("spectrum.constant")
                if not float(np.max(y) - np.min(y)) < 1e-9 * scale:
                    ctx.violation("spectrum.constant", f"{tag} parameter {pidx}: no frequency declared but the expectation value varies", case=case,
                                  mech=f"uncovered:{tag.split('/')[0]}[{pidx}]")
            # ---- consequence: the generated shift rule is exact
            if rule is not None and not bad:
                ctx.ev("shift_rule.exact")
                ref = fd8(f, x0)
                val = float(sum(cf * f(x0 + s) for cf, s in rule[:, :2]))
                csum = float(np.sum(np.abs(rule[:, 0])))
                rel = abs(val - ref) / (max(1.0, csum) * scale)
                ctx.note("max_rule_error_rel", max(rel, ctx.notes.get("max_rule_error_rel", 0.0)))
                if not rel < 1e-7:
                    ctx.violation("shift_rule.exact", f"{tag} parameter {pidx}: shift rule from declared frequencies {F} gives {val:.10f}, derivative is {ref:.10f}",
                                  case=case, mech=f"rule-inexact:{tag.split('/')[0]}[{pidx}]", observed=val, expected=ref)
            # ---- sampled values agree with a real device execution (guards the sampling itself)
            if c == 0 and k % 5 == 0 and n + 1 <= 5:
                ctx.ev("sample.device_crosscheck")
                spect = "__spectator__"
                xs = [grid_lsq[0], grid_lsq[3]]
                try:
                    tapes = []
                    for x in xs:
                        ps = list(p0)
                        ps[pidx] = float(x)
                        tapes.append(qp.tape.QuantumScript([qp.StatePrep(psi, wires=wires + [spect]), build(ps)], [qp.expval(qp.Hermitian(O, wires=wires + [spect]))]))
                    got = [float(np.real(r)) for r in qp.execute(tapes, dev)]
                    if not np.allclose(got, [y[0], y[3]], atol=1e-8):
                        ctx.inconclusive_case(f"{tag}: default.qubit execution {got} differs from matrix-based sampling {[y[0], y[3]]}")
                except Exception as e:  # noqa: BLE001
                    ctx.count("device_crosscheck_unavailable")
                    ctx.note_add("device_crosscheck_errors", f"{tag}: {type(e).__name__}: {str(e)[:100]}")

    # ------------------------------------------------------------------ 1. eigvals_to_frequencies helper
    e2f = qp.gradients.eigvals_to_frequencies
    nE = ctx.n(300, 20000)
    for i in range(nE):
        ctx.case_index = i
        m = int(rng.integers(1, 9))
        mode = int(rng.integers(4))
        if mode == 0:
            ev = rng.integers(-4, 5, size=m).astype(float)
        elif mode == 1:
            ev = rng.integers(-6, 7, size=m) / 2.0
        elif mode == 2:
            ev = np.round(rng.uniform(-3, 3, size=m), 8)
        else:
            ev = np.repeat(np.round(rng.uniform(-2, 2, size=max(1, m // 2)), 8), 2)[:m]
        ev = tuple(float(x) for x in ev)
        ctx.ev("eigvals_to_frequencies.cover")
        try:
            out = [float(x) for x in e2f(ev)]
        except Exception as e:  # noqa: BLE001
            ctx.violation("eigvals_to_frequencies.cover", f"eigvals_to_frequencies({ev}) raised {type(e).__name__}: {e}", case={"eigvals": ev}, mech="e2f:raise")
            continue
        want = sorted({round(abs(a - c), 12) for a in ev for c in ev if abs(a - c) > 1e-12})
        ctx.case(fingerprint("e2f", ev), len(want) > 0, cls="eigvals_to_frequencies")
        miss = [w for w in want if not any(abs(w - o) < 1e-9 for o in out)]
        if miss or any(o <= 0 for o in out):
            ctx.violation("eigvals_to_frequencies.cover", f"eigvals_to_frequencies({ev}) = {sorted(out)} misses differences {miss}", case={"eigvals": ev},
                          mech="e2f:missing" if miss else "e2f:nonpositive", observed=sorted(out), expected=want)

    # ------------------------------------------------------------------ 2. operator types x parameters
    reps = ctx.n(2 * 2, 8 * 12)  # instances per type per shard (each with n_ctx state/observable contexts per parameter)
    n_ctx = 3
    idx = 0
    dead = set()
    for k in range(reps):
        for tag in tags:
            if tag in dead:
                continue
            if not ctx.more():
                return
            idx += 1
            ctx.case_index = idx
            try:
                build, p0 = U[tag]()
                op = build(p0)
            except Exception as e:  # noqa: BLE001
                ctx.uncovered(tag, f"cannot instantiate: {type(e).__name__}: {e}")
                dead.add(tag)
                continue
            try:
                freqs = PF(op)
            except ParameterFrequenciesUndefinedError:
                ctx.reject("ParameterFrequenciesUndefinedError")
                ctx.note_add("undefined_types", tag)
                dead.add(tag)
                continue
            except Exception as e:  # noqa: BLE001
                ctx.ev("frequencies.raise")
                ctx.violation("frequencies.raise", f"{tag}: parameter_frequencies raised {type(e).__name__}: {e}", case={"type": tag, "op": repr(op)[:120]},
                              mech=f"pf-raise:{tag.split('/')[0]}")
                dead.add(tag)
                continue
            if len(freqs) != len(p0):
                ctx.ev("frequencies.arity")
                ctx.violation("frequencies.arity", f"{tag}: {len(freqs)} frequency tuples for {len(p0)} parameters", case={"type": tag, "freqs": [list(map(float, f)) for f in freqs]},
                              mech=f"arity:{tag.split('/')[0]}")
                dead.add(tag)
                continue
            if len(op.wires) + 1 > 7:
                ctx.count("skipped_large")
                continue
            for pidx in range(len(p0)):
                try:
                    analyse(tag, build, p0, pidx, freqs[pidx], n_ctx if len(op.wires) < 5 else 2, k)
                except Exception as e:  # noqa: BLE001
                    import traceback

                    ctx.inconclusive_case(f"{tag}[{pidx}]: {type(e).__name__}: {e} @ {traceback.format_exc()[-300:]}")
