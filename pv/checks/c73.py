"""C73 — The execution tracker counts what was executed.

Deciding monitors
* ``counter.call``   — independent counter: the seven public entry points of a device *instance* are shadowed by
  instance attributes that sit OUTSIDE the ``simulator_tracking`` decorator and log (entry point, circuits, shots,
  broadcast size, measurements, returned results).  When the call returns, the tracker updates that happened inside the
  call window (M-TRACKER attributes every ``Tracker.update`` to the innermost open device call) are compared per key, in
  order, with what the docstring of ``simulator_tracking`` documents for that entry point.
* ``counter.session`` — offline oracle at quiescent points (before every reset and at session end): totals/history of
  every tracker against counts recomputed from the call log alone (#execute calls, Σ circuits, Σ shots×executions, …).
* ``mtracker.invariant`` — M-TRACKER: ``Tracker.update/record/reset/__enter__/__exit__`` are wrapped; a shadow model
  (dict of lists + running numeric sums, documented reset/persistent semantics) is compared with the live tracker after
  every operation: numeric totals == Σ history, history grows by exactly the passed values, ``latest`` == last update,
  nothing is recorded while inactive, callback runs once per ``record`` with the current attributes.
"""
import warnings
from numbers import Number

import numpy as np

from pv.ctx import fingerprint

META = {
    "id": "C73",
    "level": "exploration",
    "technique": "recorded history + independent counter: device entry points wrapped outside the tracking decorator, "
                 "M-TRACKER shadow model on Tracker.update/record/reset/enter/exit, offline recount of totals from the call log",
    "level_text": "Random tracker sessions (QNode calls and gradients with backprop / adjoint / adjoint+device_vjp / parameter-shift / "
                  "finite-diff, qp.execute batches, gradient-transform batches, direct calls of all seven device entry points, "
                  "shot vectors, broadcasting, nested / re-entered / reset / persistent / replaced / manually activated trackers, "
                  "plugin-style updates, callbacks) on default.qubit, default.mixed, reference.qubit, null.qubit and a user-defined "
                  "reference-style device decorated with simulator_tracking. Every device call is counted independently outside "
                  "the decorator and every tracker mutation is checked against a shadow model; totals are recounted offline.",
    "level_note": "`executions` is asserted exactly for a single non-sum measurement or mutually qubit-wise-commuting Pauli words "
                  "(broadcast size or 1) and otherwise bounded: broadcast x (largest set of pairwise non-commuting measured Pauli "
                  "words) <= executions <= broadcast x (number of measured non-identity terms); the grouping heuristic itself is "
                  "not part of the statement. For execute_and_compute_* the documented count (one per submitted circuit) is "
                  "also accepted. `shots` = total shots of the circuit x its recorded executions (as documented by the "
                  "simulator_tracking example), absent for analytic circuits. Derivative entry points are only driven with analytic "
                  "circuits (finite-shot adjoint is outside the devices' supported domain) and calls that raise are not judged "
                  "(the statement is silent on failed computations, so the design mutant 'derivative tracking moved after the "
                  "computation' is equivalent here). `resources` are compared with an own gate-count / wire-count / depth model "
                  "(C46 decides specs themselves). Classical-shadow measurements, mid-circuit measurements and legacy devices are not driven. "
                  "jax/torch interfaces are not driven (autograd only; a probe showed jax reaches no further entry point); "
                  "compute_jvp/execute_and_compute_jvp are reached by direct calls only. Everything the oracle needs from a circuit is "
                  "read at call entry, because the tracking code rewrites measured observables of the submitted tape in place. "
                  "Mechanism tags seen on the pinned tree: `executions<lower-bound:execute:LinearCombination` and "
                  "`resources-mismatch:execute:num_wires:observable-rewritten-in-place`.",
    "design_ref": "7/C73",
    "shards": {"quick": 4, "thorough": 8},
    "budget_s": {"quick": 50, "thorough": 200},
    "min_evals": {"quick": 1500, "thorough": 20000},
    "min_nontrivial": {"quick": 40, "thorough": 400},
    "deciding": ["counter.call", "counter.session", "mtracker.invariant"],
    "rule": "case = one random tracker session (device, tracker actions, device actions); distinct = fingerprint of the "
            "logged call sequence (entry point, #circuits, shots, broadcast, measurement structure, tracker state); "
            "non-trivial = >= 2 different entry-point kinds were called while a tracker was active",
    "assumptions": ["a Pauli-word set that pairwise anticommutes needs one hardware circuit per word (lower bound on `executions`)",
                    "shadow model of the documented Tracker semantics (tracker.py docstrings) is correct"],
}

EPS = ("execute", "compute_derivatives", "execute_and_compute_derivatives", "compute_jvp", "execute_and_compute_jvp",
       "compute_vjp", "execute_and_compute_vjp")
BATCH_KEY = {"execute": "batches", "compute_derivatives": "derivative_batches",
             "execute_and_compute_derivatives": "execute_and_derivative_batches", "compute_jvp": "jvp_batches",
             "execute_and_compute_jvp": "execute_and_jvp_batches", "compute_vjp": "vjp_batches",
             "execute_and_compute_vjp": "execute_and_vjp_batches"}
COUNT_KEY = {"compute_derivatives": "derivatives", "execute_and_compute_derivatives": "derivatives", "compute_jvp": "jvps",
             "execute_and_compute_jvp": "jvps", "compute_vjp": "vjps", "execute_and_compute_vjp": "vjps"}
DOC_KEYS = {"executions", "shots", "resources", "simulations", "batches", "results", "derivatives", "vjps", "jvps"} | set(BATCH_KEY.values())
# for execute_and_compute_* the documentation says nothing about `simulations`, `results`, `shots`: neither demanded nor forbidden
PAULI = {"PauliX": "X", "PauliY": "Y", "PauliZ": "Z"}


# ============================================================================= independent circuit analysis
def obs_terms(o):
    """Terms of an observable read from operator *data*: list of Pauli words (dict wire->letter, {} = identity) or
    "opaque" (Hermitian/Projector/...); None = structure not recognised (no bound is asserted then)."""
    n = getattr(o, "name", None)
    if n in PAULI:
        return [{o.wires[0]: PAULI[n]}]
    if n == "Identity":
        return [{}]
    if n in ("Hermitian", "Projector", "Hadamard"):
        return ["opaque"]
    if n == "SProd":
        b = obs_terms(o.base)
        return b if b is not None and len(b) == 1 else None
    if n == "Prod":
        word = {}
        for f in o.operands:
            t = obs_terms(f)
            if t is None or len(t) != 1 or t[0] == "opaque":
                return None
            for w, l in t[0].items():
                if w in word:
                    return None
                word[w] = l
        return [word]
    if n in ("Sum", "LinearCombination", "Hamiltonian"):
        ops = o.operands if n == "Sum" else o.terms()[1]
        out = []
        for f in ops:
            t = obs_terms(f)
            if t is None:
                return None
            out += t
        return out
    return None


def commute(a, b):
    return sum(1 for w in a if w in b and a[w] != b[w]) % 2 == 0


def qwc(a, b):
    return all(a[w] == b[w] for w in a if w in b)


def max_noncommuting_clique(words):
    """Size of the largest set of pairwise NON-commuting words (exact, tiny inputs)."""
    uniq = []
    for w in words:
        if w and w not in uniq:
            uniq.append(w)
    uniq = uniq[:14]
    n = len(uniq)
    if n == 0:
        return 0
    adj = [[not commute(uniq[i], uniq[j]) for j in range(n)] for i in range(n)]
    best = 1

    def grow(clique, cand):
        nonlocal best
        best = max(best, len(clique))
        for k, c in enumerate(cand):
            if len(clique) + len(cand) - k <= best:
                return
            grow(clique + [c], [d for d in cand[k + 1:] if adj[c][d]])

    grow([], list(range(n)))
    return best


def exec_bounds(tape):
    """(lo, hi, kind) per-broadcast-element bounds on `executions` for one circuit, or None when not asserted."""
    ms = list(tape.measurements)
    words, hi, simple = [], 0, True
    for m in ms:
        tn = type(m).__name__
        if tn in ("ClassicalShadowMP", "ShadowExpvalMP") or getattr(m, "mv", None) is not None:
            return None
        if m.obs is None:
            hi += 1
            simple = False
            continue
        t = obs_terms(m.obs)
        if t is None:
            return None
        nonid = [x for x in t if x == "opaque" or x]
        hi += max(1, len(nonid))
        words += [x for x in nonid if x != "opaque"]
        if not (m.obs.name in PAULI or m.obs.name == "Prod") or len(t) != 1 or t[0] == "opaque":
            simple = False
    lo = max(1, max_noncommuting_clique(words))
    if len(ms) == 1 and hi == 1:
        return 1, 1, "single"
    if simple and len(ms) > 1 and all(qwc(a, b) for i, a in enumerate(words) for b in words[i + 1:]):
        return 1, 1, "qwc-words"
    return lo, max(hi, lo), "bounded"


def batch_size(tape):
    B = None
    for op in tape.operations:
        nd = getattr(op, "ndim_params", ())
        for p, d in zip(op.data, nd):
            if np.ndim(p) > d:
                B = int(np.shape(p)[0])
    return B


def total_shots(tape):
    sv = tape.shots.shot_vector if tape.shots is not None else ()
    return sum(int(s.shots) * int(s.copies) for s in sv) if sv else None


def my_resources(tape):
    """Own resource model: gate counts by name, #ops, #wires, depth (None where the convention is not modelled)."""
    counts, level, wires, depth_ok, counts_ok = {}, {}, [], True, True
    for op in tape.operations:
        if type(op).__name__ in ("Controlled", "ControlledOp"):
            counts_ok = False
        counts[op.name] = counts.get(op.name, 0) + 1
        ws = list(op.wires)
        if not ws:
            depth_ok = False
            continue
        l = 1 + max(level.get(w, 0) for w in ws)
        for w in ws:
            level[w] = l
            if w not in wires:
                wires.append(w)
    for m in tape.measurements:
        if getattr(m, "mv", None) is not None:
            depth_ok = False
        for w in m.wires:
            if w not in wires:
                wires.append(w)
    return {"counts": counts if counts_ok else None, "total": len(tape.operations), "num_wires": len(wires),
            "depth": (max(level.values()) if level else 0) if depth_ok else None, "n_meas": len(tape.measurements)}


def resources_mismatch(R, exp):
    try:
        if exp["counts"] is not None and dict(R.quantum_operations) != exp["counts"]:
            return f"gate counts {dict(R.quantum_operations)} != {exp['counts']}"
        if R.total_quantum_operations != exp["total"]:
            return f"total ops {R.total_quantum_operations} != {exp['total']}"
        if R.num_wires != exp["num_wires"]:
            return f"num_wires {R.num_wires} != {exp['num_wires']}"
        if exp["depth"] is not None and R.circuit_depth is not None and R.circuit_depth != exp["depth"]:
            return f"depth {R.circuit_depth} != {exp['depth']}"
        if sum(R.measurement_processes.values()) != exp["n_meas"]:
            return f"#measurements {sum(R.measurement_processes.values())} != {exp['n_meas']}"
    except AttributeError as e:
        return f"not a resources object: {type(R).__name__}: {e}"
    return None


def same_value(a, b):
    if a is b:
        return True
    try:
        if isinstance(a, (tuple, list)) and isinstance(b, (tuple, list)):
            return len(a) == len(b) and all(same_value(x, y) for x, y in zip(a, b))
        if isinstance(a, dict) and isinstance(b, dict):
            return a.keys() == b.keys() and all(same_value(a[k], b[k]) for k in a)
        return bool(np.array_equal(np.asarray(a), np.asarray(b), equal_nan=True))
    except Exception:  # noqa: BLE001
        return False


def close(a, b):
    try:
        if a == b:
            return True
        if a != a and b != b:
            return True
        return abs(a - b) <= 1e-9 * max(1.0, abs(b))
    except Exception:  # noqa: BLE001
        return False


def tape_sig(tape):
    return (len(tape.operations), tuple(sorted({o.name for o in tape.operations})),
            tuple(type(m).__name__ + ":" + (m.obs.name if m.obs is not None else "-") for m in tape.measurements),
            total_shots(tape), batch_size(tape))


# ============================================================================= M-TRACKER + entry-point counter
class Shadow:
    def __init__(self, tr):
        self.tr = tr
        self.totals = dict(getattr(tr, "totals", {}) or {})
        self.history = {k: list(v) for k, v in (getattr(tr, "history", {}) or {}).items()}
        self.latest = dict(getattr(tr, "latest", {}) or {})
        self.calls = []      # active device calls since the last reset (offline recount)
        self.plugin = []     # plugin-style updates made by the workload since the last reset
        self.tainted = False
        self.cb_calls = 0

    def clear(self):
        self.totals, self.history, self.latest, self.calls, self.plugin = {}, {}, {}, [], []
        self.tainted = False

    def update(self, kw):
        self.latest = dict(kw)
        for k, v in kw.items():
            self.history.setdefault(k, []).append(v)
            if v is not None and isinstance(v, Number):   # "Only numeric values will be added to totals"
                self.totals[k] = v + self.totals.get(k, 0)


class Snap:
    """What the harness reads off one circuit at call ENTRY (with an active tracker the tracking code itself rewrites
    measurement observables in place — qubit/sampling.py::_group_measurements — so nothing is read after the call)."""
    __slots__ = ("tape", "sig", "bounds", "B", "ts", "res", "meas", "obsn", "ham")

    def __init__(self, tape):
        self.tape = tape
        self.sig = tape_sig(tape)
        self.bounds = exec_bounds(tape)
        self.B = batch_size(tape) or 1
        self.ts = total_shots(tape)
        self.res = my_resources(tape)
        self.meas = [repr(m) for m in tape.measurements][:8]
        self.obsn = sorted({type(m).__name__.replace("MP", "") + "(" + (m.obs.name if m.obs is not None else "") + ")" for m in tape.measurements})
        self.ham = any(m.obs is not None and m.obs.name in ("LinearCombination", "Hamiltonian")
                       and max_noncommuting_clique([w for w in (obs_terms(m.obs) or []) if w != "opaque"]) >= 2
                       for m in tape.measurements)


class CallRec:
    __slots__ = ("ep", "dev", "devname", "circuits", "single", "tracker", "active", "updates", "result", "exc", "n", "verified")

    def __init__(self, ep, dev, devname, circuits, single, tracker, active):
        circuits = [Snap(c) for c in circuits]
        self.ep, self.dev, self.devname, self.circuits, self.single = ep, dev, devname, circuits, single
        self.tracker, self.active = tracker, active
        self.updates, self.result, self.exc, self.n, self.verified = [], None, None, len(circuits), None


class Monitor:
    def __init__(self, ctx, qp):
        self.ctx, self.qp = ctx, qp
        self.T = qp.Tracker
        self.shadows = {}        # id(tracker) -> Shadow (holds a strong ref, so ids are never reused)
        self.stack = []
        self.calls = []          # per-session log of finished top-level and nested calls, in start order
        self.session = None      # json-able description of the running session (witness)
        self.orig = {}

    # ------------------------------------------------------------------ reporting
    def viol(self, monitor, msg, mech, observed=None, expected=None, extra=None):
        case = {"session": self.session}
        if extra:
            case.update(extra)
        self.ctx.violation(monitor, msg, case=case, mech=mech, observed=observed, expected=expected)

    def shadow(self, tr):
        s = self.shadows.get(id(tr))
        if s is None:
            s = self.shadows[id(tr)] = Shadow(tr)
        return s

    def compare(self, tr, what):
        """M-TRACKER invariant: live tracker == shadow model."""
        self.ctx.ev("mtracker.invariant")
        sh = self.shadow(tr)
        tot, hist, lat = tr.totals, tr.history, tr.latest
        if set(hist) != set(sh.history):
            self.viol("mtracker.invariant", f"after {what}: history keys {sorted(hist)} != expected {sorted(sh.history)}",
                      f"mtracker:{what}:history-keys", sorted(hist), sorted(sh.history))
        else:
            for k, lst in hist.items():
                ref = sh.history[k]
                if len(lst) != len(ref) or any(a is not b and not same_value(a, b) for a, b in zip(lst, ref)):
                    self.viol("mtracker.invariant", f"after {what}: history[{k!r}] has {len(lst)} entries, expected the "
                              f"{len(ref)} values passed to update() since the last reset, in order",
                              f"mtracker:{what}:history!=updates:{k}", repr(lst)[:300], repr(ref)[:300])
                    break
        if set(tot) != set(sh.totals):
            self.viol("mtracker.invariant", f"after {what}: totals keys {sorted(tot)} != keys with numeric history {sorted(sh.totals)}",
                      f"mtracker:{what}:totals-keys", sorted(tot), sorted(sh.totals))
        else:
            for k, v in tot.items():
                if not close(v, sh.totals[k]):
                    self.viol("mtracker.invariant", f"after {what}: totals[{k!r}]={v!r} != sum(history[{k!r}])={sh.totals[k]!r}",
                              f"totals!=sum(history):{k}" if k in DOC_KEYS else "totals!=sum(history):<plugin-key>",
                              repr(v), repr(sh.totals[k]))
                    break
        if set(lat) != set(sh.latest) or any(lat[k] is not sh.latest[k] and not same_value(lat[k], sh.latest[k]) for k in lat):
            self.viol("mtracker.invariant", f"after {what}: latest {sorted(lat)} is not the last update {sorted(sh.latest)}",
                      f"mtracker:{what}:latest!=last-update", repr(lat)[:300], repr(sh.latest)[:300])

    # ------------------------------------------------------------------ Tracker wrappers
    def install(self):
        T, mon = self.T, self
        self.orig = {n: T.__dict__[n] for n in ("update", "record", "reset", "__enter__", "__exit__")}
        o = self.orig

        def update(tr, **kwargs):
            sh = mon.shadow(tr)
            r = o["update"](tr, **kwargs)
            sh.update(kwargs)
            active = bool(getattr(tr, "active", False))
            if mon.stack:
                mon.stack[-1].updates.append((tr, dict(kwargs), active))
            if not active:
                mon.ctx.ev("mtracker.inactive")
                mon.viol("mtracker.invariant", f"Tracker.update({sorted(kwargs)}) while the tracker is inactive",
                         "update-while-inactive", sorted(kwargs), "no update")
            mon.compare(tr, "update")
            return r

        def reset(tr):
            sh = mon.shadow(tr)
            r = o["reset"](tr)
            sh.clear()
            mon.compare(tr, "reset")
            return r

        def record(tr):
            sh = mon.shadow(tr)
            before = sh.cb_calls
            r = o["record"](tr)
            cb = getattr(tr, "callback", None)
            if getattr(cb, "c73", False):
                mon.ctx.ev("mtracker.callback")
                if sh.cb_calls != before + 1:
                    mon.viol("mtracker.callback", f"record() ran the callback {sh.cb_calls - before} times (documented: once per record call)",
                             "callback-count", sh.cb_calls - before, 1)
            return r

        def enter(tr):
            sh = mon.shadow(tr)
            persistent = bool(tr.persistent)
            if not persistent:
                mon.quiescent(tr, "before-enter-reset")
            r = o["__enter__"](tr)
            if not persistent:
                sh.clear()
            if r is not tr or tr.active is not True:
                mon.viol("mtracker.invariant", "__enter__ did not activate/return the tracker", "mtracker:enter:active", repr(tr.active), True)
            mon.compare(tr, "enter-persistent" if persistent else "enter")
            return r

        def exit_(tr, *a):
            r = o["__exit__"](tr, *a)
            if tr.active is not False:
                mon.viol("mtracker.invariant", "__exit__ left the tracker active", "mtracker:exit:active", repr(tr.active), False)
            mon.compare(tr, "exit")
            return r

        T.update, T.reset, T.record, T.__enter__, T.__exit__ = update, reset, record, enter, exit_

    def uninstall(self):
        for n, f in self.orig.items():
            setattr(self.T, n, f)

    def make_callback(self, tr_holder):
        mon = self

        def cb(totals, history, latest):
            tr = tr_holder[0]
            sh = mon.shadow(tr)
            sh.cb_calls += 1
            if totals is not tr.totals and totals != tr.totals or history is not tr.history and history != tr.history \
                    or latest is not tr.latest and not same_value(latest, tr.latest):
                mon.viol("mtracker.callback", "callback did not receive the current totals/history/latest", "callback-args")
            # what the user sees in the callback is the shadow state (totals consistent with history at record time)
            if set(totals) != set(sh.totals) or any(not close(totals[k], sh.totals[k]) for k in totals):
                mon.viol("mtracker.callback", "totals seen by the callback differ from the sum of recorded history",
                         "callback-totals", repr(totals)[:300], repr(sh.totals)[:300])

        cb.c73 = True
        return cb

    # ------------------------------------------------------------------ device entry points
    def instrument(self, dev, devname):
        qp, mon = self.qp, self
        QS = qp.tape.QuantumScript
        for ep in EPS:
            inner = getattr(dev, ep)   # bound, tracked method of the class

            def make(ep, inner):
                def outer(circuits, *a, **k):
                    single = isinstance(circuits, QS)
                    batch = [circuits] if single else list(circuits)
                    tr = dev.tracker
                    rec = CallRec(ep, dev, devname, batch, single, tr, bool(tr.active))
                    mon.calls.append(rec)
                    mon.stack.append(rec)
                    try:
                        rec.result = inner(circuits, *a, **k)
                        return rec.result
                    except BaseException as e:  # noqa: BLE001
                        rec.exc = e
                        raise
                    finally:
                        mon.stack.pop()
                        mon.finish(rec)
                outer.__name__ = ep
                return outer

            setattr(dev, ep, make(ep, inner))
        return dev

    def finish(self, rec):
        """Per-call oracle (counter.call)."""
        ctx = self.ctx
        sh = self.shadow(rec.tracker)
        if rec.exc is not None:
            # a raising call is not judged; totals of this tracker are unknown until the next reset
            if rec.active or rec.updates:
                sh.tainted = True
            ctx.count("calls-raised")
            return
        ctx.ev("counter.call")
        ctx.cover(f"{rec.devname}:{rec.ep}:{'active' if rec.active else 'inactive'}")
        base = {"entry_point": rec.ep, "device": rec.devname, "n_circuits": rec.n, "single_tape": rec.single,
                "circuits": [repr(t.sig) for t in rec.circuits][:6]}
        if bool(rec.tracker.active) != rec.active or rec.dev.tracker is not rec.tracker:
            sh.tainted = True   # toggled inside the call (callback) – nothing asserted
            return
        foreign = [sorted(kw) for tr, kw, act in rec.updates if tr is not rec.tracker]
        if foreign:
            self.viol("counter.call", f"{rec.ep} updated a tracker that is not the device's tracker: {foreign[:3]}",
                      f"update-foreign-tracker:{rec.ep}", foreign[:3], [], base)
        own = [kw for tr, kw, act in rec.updates if tr is rec.tracker]
        if not rec.active:
            if own:
                self.viol("counter.call", f"{rec.ep} recorded {[sorted(k) for k in own][:4]} while its tracker was inactive",
                          f"recorded-while-inactive:{rec.ep}", [sorted(k) for k in own][:4], [], base)
            rec.verified = {}
            return
        got = {}
        for kw in own:
            for k, v in kw.items():
                got.setdefault(k, []).append(v)
        rec.verified = got
        sh.calls.append(rec)
        ep, n = rec.ep, rec.n
        for k in got:
            if k not in DOC_KEYS:
                ctx.note_add("undocumented_keys", f"{ep}:{k}")

        def expect_list(key, exp, cmp=lambda a, b: a == b, show=repr):
            g = got.get(key, [])
            if len(g) != len(exp) or not all(cmp(a, b) for a, b in zip(g, exp)):
                self.viol("counter.call", f"{ep} on {n} circuit(s): history contribution of {key!r} is {show(g)[:200]}, expected {show(exp)[:200]}",
                          f"{key}-count:{ep}", show(g)[:300], show(exp)[:300], base)
                return False
            return True

        def expect_sum(key, exp):
            g = got.get(key, [])
            if not all(isinstance(x, Number) for x in g) or sum(g) != exp:
                self.viol("counter.call", f"{ep} on {n} circuit(s): {key!r} contributions {g!r} do not add up to {exp}",
                          f"{key}-count:{ep}", repr(g)[:200], exp, base)

        # the batch counter of this entry point, and no other batch counter
        for e2, bk in BATCH_KEY.items():
            expect_list(bk, [1] if e2 == ep else [])
        if ep == "execute":
            results = [rec.result] if rec.single else list(rec.result)
            expect_list("simulations", [1] * n)
            expect_list("results", results, cmp=lambda a, b: a is b or same_value(a, b), show=lambda x: repr(x)[:200])
            for ck in ("derivatives", "vjps", "jvps"):
                expect_list(ck, [])
            ex = got.get("executions", [])
            if len(ex) != n:
                self.viol("counter.call", f"execute on {n} circuit(s): {len(ex)} `executions` entries", "executions-count:execute", ex, n, base)
            else:
                for c, e in zip(rec.circuits, ex):
                    self.check_executions(ep, c, e, base)
            # shots: total shots x recorded executions for finite-shot circuits, absent for analytic ones
            exp_shots = []
            for c, e in zip(rec.circuits, ex if len(ex) == n else [None] * n):
                ts = c.ts
                if ts is not None:
                    exp_shots.append(None if e is None else ts * e)
            g = got.get("shots", [])
            if len(g) != len(exp_shots):
                self.viol("counter.call", f"execute: {len(g)} `shots` entries for {len(exp_shots)} finite-shot circuit(s) of {n}",
                          "shots-count:execute:" + ("analytic-recorded" if len(g) > len(exp_shots) else "finite-missing"), g, exp_shots, base)
            else:
                for a, b, c in zip(g, exp_shots, [c for c in rec.circuits if c.ts is not None]):
                    if b is not None and a != b:
                        self.viol("counter.call", f"execute: shots entry {a} != total_shots {c.ts} x executions {b // max(c.ts, 1)}",
                                  "shots!=total_shots*executions", a, b, dict(base, circuit=repr(c.sig)))
            self.check_resources(ep, rec.circuits, got.get("resources", []), base)
        else:
            expect_sum(COUNT_KEY[ep], n)
            for ck in {"derivatives", "vjps", "jvps"} - {COUNT_KEY[ep]}:
                expect_list(ck, [])
            if ep.startswith("execute_and"):
                ex = got.get("executions", [])
                bounds = [c.bounds for c in rec.circuits]
                tot = sum(ex) if all(isinstance(x, Number) for x in ex) else None
                if tot is None or tot != n:
                    ok = tot is not None and all(b is not None for b in bounds) and \
                        sum(b[0] for b in bounds) <= tot <= sum(b[1] for b in bounds)
                    if not ok and not (tot is not None and any(b is None for b in bounds) and tot >= n):
                        self.viol("counter.call", f"{ep} on {n} circuit(s): `executions` contributions {ex!r}",
                                  f"executions-count:{ep}", ex, n, base)
                self.check_resources(ep, rec.circuits, got.get("resources", []), base)
            else:
                for key in ("executions", "simulations", "results", "shots", "resources"):
                    expect_list(key, [])

    def check_executions(self, ep, c, e, base):
        b, B = c.bounds, c.B
        if b is None or not isinstance(e, Number):
            self.ctx.count("executions-not-asserted")
            return
        lo, hi, kind = b
        self.ctx.cover("executions:" + kind + (":broadcast" if B > 1 else ""))
        if not lo * B <= e <= hi * B:
            obsn = c.obsn
            side = "<lower-bound" if e < lo * B else ">upper-bound"
            mech = f"executions{side}:{ep}:" + "+".join(obsn)
            if kind != "bounded":
                mech = f"executions!=broadcast:{ep}:{kind}"
            elif e < lo * B and c.ham:
                # a Hamiltonian-type observable whose own terms need >= 2 circuits is in the tape: one stable tag
                mech = f"executions<lower-bound:{ep}:LinearCombination"
            self.viol("counter.call", f"{ep}: executions={e} for a circuit with broadcast size {B} and measurements "
                      f"{c.meas[:5]}: expected between {lo * B} and {hi * B}", mech, e, [lo * B, hi * B],
                      dict(base, circuit=repr(c.sig), measurements=c.meas))

    def check_resources(self, ep, circuits, got, base):
        if len(got) != len(circuits):
            self.viol("counter.call", f"{ep}: {len(got)} `resources` entries for {len(circuits)} circuit(s)", f"resources-count:{ep}",
                      len(got), len(circuits), base)
            return
        for i, (R, c) in enumerate(zip(got, circuits)):
            bad = resources_mismatch(R, c.res)
            if bad:
                mech = f"resources-mismatch:{ep}"
                now = [repr(m) for m in c.tape.measurements][:8]
                if bad.startswith("num_wires") and now != c.meas:
                    # the tracking code rewrote a measured observable of the submitted tape in place (simplify) before
                    # taking its specs: the recorded wire count is that of the rewritten circuit, not of the executed one
                    mech += ":num_wires:observable-rewritten-in-place"
                self.viol("counter.call", f"{ep}: resources entry {i} does not describe circuit {i} as submitted: {bad}", mech,
                          repr(R)[:300], repr(c.res), dict(base, measurements_submitted=c.meas, measurements_after_call=now)
                          if now != c.meas else base)
                return

    # ------------------------------------------------------------------ offline recount
    def quiescent(self, tr, when):
        """counter.session: totals/history of `tr` recounted from the call log alone (since its last reset)."""
        sh = self.shadows.get(id(tr))
        if sh is None or self.stack:
            return
        if sh.tainted:
            self.ctx.count("session-recount-skipped")
            return
        self.ctx.ev("counter.session")
        exp = {}

        def add(k, v):
            exp[k] = exp.get(k, 0) + v

        nres = nresults = 0
        for rec in sh.calls:
            add(BATCH_KEY[rec.ep], 1)
            if rec.ep == "execute":
                add("simulations", rec.n)
                nres += rec.n
                nresults += rec.n
            else:
                add(COUNT_KEY[rec.ep], rec.n)
                if rec.ep.startswith("execute_and"):
                    nres += rec.n
        for kw in sh.plugin:
            for k, v in kw.items():
                if isinstance(v, Number):
                    add(k, v)
        tot, hist = tr.totals, tr.history
        for k, v in exp.items():
            if k in ("executions", "shots", "results"):
                continue
            if not close(tot.get(k, 0), v):
                self.viol("counter.session", f"{when}: totals[{k!r}]={tot.get(k)!r} but the device performed {v} (recount from the call log)",
                          f"session-total:{k}", repr(tot.get(k)), v)
        for k in (set(BATCH_KEY.values()) | {"simulations", "derivatives", "vjps", "jvps"}) - set(exp):
            if tot.get(k):
                self.viol("counter.session", f"{when}: totals[{k!r}]={tot.get(k)!r} although no such computation was performed while active",
                          f"session-total:{k}", repr(tot.get(k)), 0)
        if len(hist.get("resources", [])) != nres:
            self.viol("counter.session", f"{when}: {len(hist.get('resources', []))} resources entries for {nres} executed circuits",
                      "session-total:resources", len(hist.get("resources", [])), nres)
        if len(hist.get("results", [])) != nresults:
            self.viol("counter.session", f"{when}: {len(hist.get('results', []))} results entries for {nresults} executed circuits",
                      "session-total:results", len(hist.get("results", [])), nresults)
        # shots / executions: recount from the per-circuit figures verified call by call
        ex = sh_ = 0
        for rec in sh.calls:
            v = rec.verified or {}
            ex += sum(x for x in v.get("executions", []) if isinstance(x, Number))
            sh_ += sum(x for x in v.get("shots", []) if isinstance(x, Number))
        for k, v in (("executions", ex), ("shots", sh_)):
            if not close(tot.get(k, 0), v + sum(kw.get(k, 0) for kw in sh.plugin if isinstance(kw.get(k, 0), Number))):
                self.viol("counter.session", f"{when}: totals[{k!r}]={tot.get(k)!r} != {v} recounted over the calls", f"session-total:{k}",
                          repr(tot.get(k)), v)
        if "shots" in tot and not any("shots" in (r.verified or {}) for r in sh.calls) and not any("shots" in kw for kw in sh.plugin):
            self.viol("counter.session", f"{when}: totals has `shots` although only analytic circuits ran", "session-total:shots-analytic",
                      repr(tot.get("shots")), None)


# ============================================================================= workload generators
GATES1 = ["PauliX", "PauliY", "PauliZ", "Hadamard", "S", "T", "SX"]
ROT1 = ["RX", "RY", "RZ", "PhaseShift"]
GATES2 = ["CNOT", "CZ", "CY", "SWAP"]
ROT2 = ["CRX", "CRY", "CRZ", "IsingXX", "IsingZZ"]
REF_GATES1, REF_ROT1, REF_GATES2 = ["PauliX", "PauliY", "PauliZ", "Hadamard"], ["RX", "RY", "RZ"], ["CNOT", "CZ"]


def gen_ops(qp, rng, nw, n_ops, ref_only=False, broadcast=None, min_rot=0, cover_wires=False):
    """Named gates on wires 0..nw-1; `broadcast` = batch size put on 1-2 rotation angles; `cover_wires`: the first nw
    gates touch wires 0..nw-1 in order (default.qubit's adjoint vjp/jvp crash on tapes whose wire order is not standard —
    a defect outside this property, reported separately)."""
    ops, nrot = [], 0
    g1, r1, g2, r2 = (REF_GATES1, REF_ROT1, REF_GATES2, []) if ref_only else (GATES1, ROT1, GATES2, ROT2)
    if cover_wires:
        for w in range(nw):
            if rng.random() < 0.5:
                ops.append(getattr(qp, r1[int(rng.integers(len(r1)))])(float(rng.uniform(-3, 3)), wires=w))
                nrot += 1
            else:
                ops.append(getattr(qp, g1[int(rng.integers(len(g1)))])(wires=w))
    while len(ops) < n_ops or nrot < min_rot:
        r = rng.random()
        if nrot < min_rot or r < 0.4:
            name = r1[int(rng.integers(len(r1)))]
            ops.append(getattr(qp, name)(float(rng.uniform(-3, 3)), wires=int(rng.integers(nw))))
            nrot += 1
        elif r < 0.6:
            ops.append(getattr(qp, g1[int(rng.integers(len(g1)))])(wires=int(rng.integers(nw))))
        elif nw >= 2 and r < 0.85:
            a, b = (int(x) for x in rng.choice(nw, size=2, replace=False))
            ops.append(getattr(qp, g2[int(rng.integers(len(g2)))])(wires=[a, b]))
        elif nw >= 2 and r2:
            a, b = (int(x) for x in rng.choice(nw, size=2, replace=False))
            ops.append(getattr(qp, r2[int(rng.integers(len(r2)))])(float(rng.uniform(-3, 3)), wires=[a, b]))
            nrot += 1
        elif nw >= 3 and not ref_only:
            ops.append(qp.Toffoli(wires=[int(x) for x in rng.choice(nw, size=3, replace=False)]))
    if broadcast:
        idx = [i for i, o in enumerate(ops) if o.num_params == 1]
        if not idx:
            ops.append(qp.RX(0.1, wires=0))
            idx = [len(ops) - 1]
        for i in rng.choice(idx, size=min(len(idx), int(rng.integers(1, 3))), replace=False):
            o = ops[int(i)]
            ops[int(i)] = type(o)(np.asarray(rng.uniform(-3, 3, size=broadcast)), wires=o.wires)
    return ops


def gen_word(qp, rng, nw, letters="XYZ", maxlen=3):
    k = int(rng.integers(1, min(maxlen, nw) + 1))
    ws = [int(w) for w in rng.choice(nw, size=k, replace=False)]
    fac = [getattr(qp, "Pauli" + letters[int(rng.integers(len(letters)))])(w) for w in ws]
    ob = fac[0]
    for f in fac[1:]:
        ob = ob @ f
    return ob


def gen_sumlike(qp, rng, nw, cls):
    """Sum or Hamiltonian of Pauli words; sometimes the 'wire-group trap' (disjoint, disjoint-from-first, anticommuting)."""
    if nw >= 2 and rng.random() < 0.3:
        a, b = (int(x) for x in rng.choice(nw, size=2, replace=False))
        l1, l2 = rng.choice(list("XYZ"), size=2, replace=False)
        words = [getattr(qp, "Pauli" + "XYZ"[int(rng.integers(3))])(a), getattr(qp, "Pauli" + l1)(b), getattr(qp, "Pauli" + l2)(b)]
    else:
        words = [gen_word(qp, rng, nw) for _ in range(int(rng.integers(2, 5)))]
    coeffs = [float(c) for c in rng.uniform(0.2, 2.0, size=len(words))]
    if rng.random() < 0.2:
        words.append(qp.Identity(0))
        coeffs.append(0.7)
    if cls == "ham":
        return qp.Hamiltonian(coeffs, words)
    return qp.sum(*[c * w for c, w in zip(coeffs, words)])


def gen_measurements(qp, rng, nw, finite, profile="any"):
    """profile: any | expval (adjoint-compatible) | basic (Pauli expval/var/probs, sample/counts when finite)"""
    r = rng.random()
    ms = []
    if profile == "expval":
        n = int(rng.integers(1, 4))
        for _ in range(n):
            q = rng.random()
            ms.append(qp.expval(gen_word(qp, rng, nw) if q < 0.6 else gen_sumlike(qp, rng, nw, "ham" if q < 0.8 else "sum")))
        return ms
    if r < 0.2:     # all words mutually qubit-wise commuting
        basis = [("X", "Y", "Z")[int(rng.integers(3))] for _ in range(nw)]
        for _ in range(int(rng.integers(1, 5))):
            k = int(rng.integers(1, nw + 1))
            ws = sorted(int(w) for w in rng.choice(nw, size=k, replace=False))
            ob = getattr(qp, "Pauli" + basis[ws[0]])(ws[0])
            for w in ws[1:]:
                ob = ob @ getattr(qp, "Pauli" + basis[w])(w)
            kind = int(rng.integers(4 if finite else 2))
            ms.append([qp.expval, qp.var, qp.sample, qp.counts][kind](ob))
        return ms
    if r < 0.35:    # single measurement of each sort
        q = int(rng.integers(6))
        if q == 0:
            return [qp.expval(gen_word(qp, rng, nw))]
        if q == 1:
            return [qp.probs(wires=list(range(int(rng.integers(1, nw + 1)))))]
        if q == 2:
            return [qp.expval(gen_sumlike(qp, rng, nw, "ham" if rng.random() < 0.5 else "sum"))]
        if q == 3 and profile == "any":
            A = rng.normal(size=(2, 2)) + 1j * rng.normal(size=(2, 2))
            return [qp.expval(qp.Hermitian(A + A.conj().T, wires=int(rng.integers(nw))))]
        if q == 4 and finite:
            return [qp.sample(wires=list(range(nw)))] if rng.random() < 0.5 else [qp.counts(wires=[0])]
        if q == 5 and not finite and profile == "any":
            return [qp.state()]
        return [qp.var(gen_word(qp, rng, nw))]
    for _ in range(int(rng.integers(2, 5))):
        q = rng.random()
        if q < 0.4:
            ms.append((qp.expval if rng.random() < 0.7 else qp.var)(gen_word(qp, rng, nw)))
        elif q < 0.6:
            ms.append(qp.expval(gen_sumlike(qp, rng, nw, "ham" if rng.random() < 0.5 else "sum")))
        elif q < 0.75:
            ms.append(qp.probs(wires=[int(w) for w in rng.choice(nw, size=int(rng.integers(1, nw + 1)), replace=False)]))
        elif q < 0.85 and finite:
            ms.append(qp.sample(gen_word(qp, rng, nw)) if rng.random() < 0.5 else qp.counts(wires=[int(rng.integers(nw))]))
        elif q < 0.93 and profile == "any":
            ms.append(qp.expval(qp.Projector([int(rng.integers(2))], wires=[int(rng.integers(nw))])))
        else:
            ms.append(qp.expval(gen_word(qp, rng, nw, letters="Z")))
    return ms


def gen_shots(rng, allow_vector=True):
    r = rng.random()
    if r < 0.45:
        return None
    if r < 0.8 or not allow_vector:
        return int(rng.integers(1, 40))
    k = int(rng.integers(2, 4))
    spec = []
    for _ in range(k):
        s = int(rng.integers(1, 12))
        spec.append((s, int(rng.integers(2, 4))) if rng.random() < 0.4 else s)
    return spec


def gen_tape(qp, rng, devname, shots="rand", profile=None, broadcast_ok=True):
    nw = int(rng.integers(1, 4))
    sh = gen_shots(rng) if shots == "rand" else shots
    finite = sh is not None
    B = int(rng.integers(2, 4)) if broadcast_ok and rng.random() < 0.2 else None
    ops = gen_ops(qp, rng, nw, int(rng.integers(1, 7)), ref_only=(devname == "reference.qubit"), broadcast=B)
    prof = profile or ("any" if devname in ("default.qubit", "null.qubit", "custom") else "basic")
    ms = gen_measurements(qp, rng, nw, finite, prof)
    return qp.tape.QuantumScript(ops, ms, shots=sh)


def gen_diff_tape(qp, rng):
    """Adjoint-compatible analytic tape with explicit trainable gate parameters."""
    nw = int(rng.integers(1, 4))
    ops = gen_ops(qp, rng, nw, int(rng.integers(1, 6)), min_rot=1, cover_wires=True)
    ms = gen_measurements(qp, rng, nw, False, "expval")
    t = qp.tape.QuantumScript(ops, ms)
    npar = sum(len(o.data) for o in ops)
    t.trainable_params = list(range(npar))   # gate parameters only (observable coefficients are not trainable here)
    return t


def make_custom_device(qp):
    from pennylane.devices.modifiers import simulator_tracking, single_tape_support

    @simulator_tracking
    @single_tape_support
    class C73Device(qp.devices.Device):
        """Reference-style user device: every entry point defined, results are distinct tagged numbers."""
        name = "c73.refstyle"

        def __init__(self):
            super().__init__()
            self._k = 0

        def _res(self, c):
            self._k += 1
            return np.float64(self._k) if len(c.measurements) == 1 else tuple(np.float64(self._k + 0.01 * j) for j in range(len(c.measurements)))

        def execute(self, circuits, execution_config=None):
            return tuple(self._res(c) for c in circuits)

        def supports_derivatives(self, execution_config=None, circuit=None):
            return True

        def compute_derivatives(self, circuits, execution_config=None):
            return tuple(0.0 for _ in circuits)

        def execute_and_compute_derivatives(self, circuits, execution_config=None):
            return tuple(self._res(c) for c in circuits), tuple(0.0 for _ in circuits)

        def compute_jvp(self, circuits, tangents, execution_config=None):
            return tuple(0.0 for _ in circuits)

        def execute_and_compute_jvp(self, circuits, tangents, execution_config=None):
            return tuple(self._res(c) for c in circuits), tuple(0.0 for _ in circuits)

        def compute_vjp(self, circuits, cotangents, execution_config=None):
            return tuple((0.0,) for _ in circuits)

        def execute_and_compute_vjp(self, circuits, cotangents, execution_config=None):
            return tuple(self._res(c) for c in circuits), tuple((0.0,) for _ in circuits)

    return C73Device


DEVICES = ["default.qubit", "default.qubit", "default.mixed", "reference.qubit", "null.qubit", "custom"]
QNODE_METHODS = {
    "default.qubit": ["backprop", "adjoint", "adjoint-nograd-on-exec", "adjoint-vjp", "parameter-shift", "finite-diff"],
    "default.mixed": ["backprop", "parameter-shift", "finite-diff"],
    "reference.qubit": ["parameter-shift", "finite-diff"],
    "null.qubit": ["backprop", "adjoint", "adjoint-nograd-on-exec", "adjoint-vjp", "parameter-shift", "finite-diff"],
}


class Session:
    """One random tracker session on one device (plus, sometimes, a bystander device with its own tracker)."""

    def __init__(self, ctx, qp, mon, rng, index, CustomDev):
        self.ctx, self.qp, self.mon, self.rng, self.index = ctx, qp, mon, rng, index
        self.devname = DEVICES[int(rng.integers(len(DEVICES)))]
        self.dev = self.make_dev(self.devname, CustomDev)
        self.other = None
        if rng.random() < 0.2:
            self.other_name = ["null.qubit", "default.qubit"][int(rng.integers(2))]
            self.other = self.make_dev(self.other_name, CustomDev)
        self.trackers = []     # trackers created by the workload (strong refs)
        self.desc = []
        self.flags = set()

    def make_dev(self, name, CustomDev):
        qp = self.qp
        if name == "custom":
            dev = CustomDev()
        elif name in ("default.mixed", "reference.qubit"):
            dev = qp.device(name, wires=3)
        elif name == "default.qubit":
            dev = qp.device(name, seed=int(self.rng.integers(1 << 30)))
        else:
            dev = qp.device(name)
        return self.mon.instrument(dev, name)

    # ------------------------------------------------------------------ tracker actions
    def new_tracker(self, dev=None):
        rng, qp = self.rng, self.qp
        dev = dev or self.dev
        persistent = bool(rng.random() < 0.35)
        holder = [None]
        cb = self.mon.make_callback(holder) if rng.random() < 0.5 else None
        r = rng.random()
        if r < 0.7:
            tr = qp.Tracker(dev, callback=cb, persistent=persistent)
        else:   # the device's own tracker object, configured in place
            tr = dev.tracker
            tr.persistent, tr.callback = persistent, cb
            self.flags.add("own-tracker")
        holder[0] = tr
        self.mon.shadow(tr)
        if dev is self.dev:
            self.trackers.append(tr)
        if persistent:
            self.flags.add("persistent")
        if cb:
            self.flags.add("callback")
        self.desc.append(f"tracker(new,persistent={persistent},cb={cb is not None})")
        return tr

    def tracker_action(self):
        rng = self.rng
        tr = self.dev.tracker
        r = rng.random()
        if r < 0.30:
            tr.__enter__()
            self.desc.append("enter")
            self.flags.add("re-enter")
        elif r < 0.50:
            tr.__exit__(None, None, None)
            self.desc.append("exit")
        elif r < 0.60:
            self.mon.quiescent(tr, "before-reset")
            tr.reset()
            self.desc.append("reset")
            self.flags.add("reset")
        elif r < 0.72:
            tr.active = bool(rng.random() < 0.7)
            self.desc.append(f"active={tr.active}")
            self.flags.add("manual-active")
        elif r < 0.84:
            self.new_tracker()
            if rng.random() < 0.8:
                self.dev.tracker.__enter__()
                self.desc.append("enter")
            self.flags.add("replaced")
        elif r < 0.92 and self.trackers:
            # an old (detached or current) tracker is re-entered: only the attached one may receive data
            old = self.trackers[int(rng.integers(len(self.trackers)))]
            old.__enter__()
            self.desc.append("enter-old" if old is not tr else "enter")
            self.flags.add("nested")
        else:
            if tr.active:   # plugin-style update, as documented in Tracker.update
                kw = [dict(a=1, b=2, c="c"), dict(a=2.5, note=None), dict(executions=3, shots=30), dict(b=np.float64(0.25), tag=[1, 2])][int(rng.integers(4))]
                self.mon.shadow(tr).plugin.append(kw)
                tr.update(**kw)
                tr.record()
                self.desc.append(f"plugin-update({sorted(kw)})")
                self.flags.add("plugin-update")

    # ------------------------------------------------------------------ device actions
    def device_action(self):
        rng, name = self.rng, self.devname
        kinds = ["exec", "exec", "qexec", "qexec"]
        if name in ("default.qubit", "null.qubit", "custom"):
            kinds += ["deriv", "deriv", "deriv"]
        if name in QNODE_METHODS:
            kinds += ["qnode", "qnode", "qnode", "gradtf"]
        if name == "custom":
            kinds = ["exec", "deriv", "deriv", "qexec"]
        kind = kinds[int(rng.integers(len(kinds)))]
        getattr(self, "act_" + kind)()
        if self.other is not None and rng.random() < 0.25:   # bystander device runs something in between
            t = gen_tape(self.qp, rng, self.other_name)
            self.other.execute((t,))
            self.desc.append("bystander-exec")

    def prep(self, tapes):
        """Device preprocessing as qp.execute would do it (so that hand-made tapes are executable)."""
        from pennylane.devices import ExecutionConfig
        prog, cfg = self.dev.preprocess(ExecutionConfig())
        new, _ = prog(tapes)
        return tuple(new), cfg

    def act_exec(self):
        qp, rng, dev, name = self.qp, self.rng, self.dev, self.devname
        n = int(rng.integers(1, 5))
        tapes = tuple(gen_tape(qp, rng, name) for _ in range(n))
        cfg = None
        if name in ("default.mixed", "reference.qubit") or (name == "default.qubit" and rng.random() < 0.3):
            tapes, cfg = self.prep(tapes)
            self.flags.add("preprocessed")
        if not tapes:
            return
        self.desc.append(f"execute(n={len(tapes)})")
        if len(tapes) == 1 and rng.random() < 0.5:
            dev.execute(tapes[0]) if cfg is None else dev.execute(tapes[0], cfg)     # single-tape support
        elif rng.random() < 0.3:
            dev.execute(list(tapes), execution_config=cfg)
        else:
            dev.execute(tapes) if cfg is None else dev.execute(tapes, cfg)

    def act_deriv(self):
        from pennylane.devices import ExecutionConfig
        qp, rng, dev = self.qp, self.rng, self.dev
        ep = EPS[1 + int(rng.integers(6))]
        n = int(rng.integers(1, 4))
        tapes = tuple(gen_diff_tape(qp, rng) for _ in range(n))
        cfg = ExecutionConfig(gradient_method="adjoint")
        single = n == 1 and rng.random() < 0.5
        extra = ()
        if "jvp" in ep:
            tang = tuple(tuple(float(x) for x in rng.normal(size=len(t.trainable_params))) for t in tapes)
            extra = (tang[0] if single else tang,)
        elif "vjp" in ep:
            cot = tuple(float(rng.normal()) if len(t.measurements) == 1 else tuple(float(x) for x in rng.normal(size=len(t.measurements)))
                        for t in tapes)
            extra = (cot[0] if single else cot,)
        self.desc.append(f"{ep}(n={n},single={single})")
        getattr(dev, ep)(tapes[0] if single else tapes, *extra, cfg)

    def act_qexec(self):
        qp, rng, dev, name = self.qp, self.rng, self.dev, self.devname
        n = int(rng.integers(1, 5))
        tapes = [gen_tape(qp, rng, name, broadcast_ok=(name != "custom")) for _ in range(n)]
        self.desc.append(f"qp.execute(n={n})")
        qp.execute(tapes, dev, diff_method=None)

    def act_gradtf(self):
        """Gradient-transform-produced batch executed through qp.execute."""
        qp, rng, dev, name = self.qp, self.rng, self.dev, self.devname
        nw = int(rng.integers(1, 4))
        ops = gen_ops(qp, rng, nw, int(rng.integers(1, 5)), ref_only=(name == "reference.qubit"), min_rot=1)
        sh = None if rng.random() < 0.5 else int(rng.integers(5, 40))
        ms = [qp.expval(gen_word(qp, rng, nw)) for _ in range(int(rng.integers(1, 3)))]
        t = qp.tape.QuantumScript(ops, ms, shots=sh)
        t.trainable_params = list(range(sum(len(o.data) for o in ops)))
        tf = qp.gradients.param_shift if rng.random() < 0.6 else qp.gradients.finite_diff
        batch, fn = tf(t)
        self.desc.append(f"{tf.__name__ if hasattr(tf, '__name__') else 'gradtf'}->qp.execute(n={len(batch)})")
        if batch:
            fn(qp.execute(batch, dev, diff_method=None))

    def act_qnode(self):
        qp, rng, dev, name = self.qp, self.rng, self.dev, self.devname
        from pennylane import numpy as pnp
        methods = QNODE_METHODS[name]
        dm = methods[int(rng.integers(len(methods)))]
        kw = {}
        real = dm
        if dm == "adjoint-vjp":
            real, kw = "adjoint", {"device_vjp": True}
        elif dm == "adjoint-nograd-on-exec":
            real, kw = "adjoint", {"grad_on_execution": False}
        nw = int(rng.integers(1, 4))
        ops = gen_ops(qp, rng, nw, int(rng.integers(1, 6)), ref_only=(name == "reference.qubit"), min_rot=1, cover_wires=(real == "adjoint"))
        rot_idx = [i for i, o in enumerate(ops) if o.num_params == 1]
        k = int(rng.integers(1, min(3, len(rot_idx)) + 1))
        pidx = {int(i): j for j, i in enumerate(rng.choice(rot_idx, size=k, replace=False))}
        finite = real in ("parameter-shift", "finite-diff") and rng.random() < 0.5
        shots = (int(rng.integers(5, 40)) if rng.random() < 0.7 else [int(rng.integers(3, 9)), int(rng.integers(3, 9))]) if finite else None
        if real == "adjoint":
            ms = gen_measurements(qp, rng, nw, False, "expval")
        else:
            ms = [m for m in gen_measurements(qp, rng, nw, finite, "basic" if name != "default.qubit" or real != "backprop" else "any")
                  if type(m).__name__ not in ("SampleMP", "CountsMP", "StateMP", "VarianceMP")] or [qp.expval(qp.Z(0))]

        def qfunc(x):
            for i, o in enumerate(ops):
                if i in pidx:
                    type(o)(x[pidx[i]], wires=o.wires)
                else:
                    qp.apply(o)
            return tuple(qp.apply(m) for m in ms) if len(ms) > 1 else qp.apply(ms[0])

        qn = qp.QNode(qfunc, dev, diff_method=real, **kw)
        if shots is not None:
            qn = qp.set_shots(qn, shots=shots)
        mode = "fwd" if rng.random() < 0.35 else "grad"
        broadcast = mode == "fwd" and name != "reference.qubit" and rng.random() < 0.3
        self.desc.append(f"qnode({dm},shots={shots},{mode},nm={len(ms)}{',broadcast' if broadcast else ''})")

        def flat_sum(r):
            if isinstance(r, (tuple, list)):
                return sum(flat_sum(y) for y in r)
            return pnp.sum(r)

        if mode == "fwd":
            if broadcast:
                x = [pnp.array(rng.uniform(-2, 2, size=3), requires_grad=False) for _ in range(k)]
            else:
                x = pnp.array(rng.uniform(-2, 2, size=k), requires_grad=False)
            qn(x)
        else:
            x = pnp.array(rng.uniform(-2, 2, size=k), requires_grad=True)
            qp.grad(lambda y: flat_sum(qn(y)))(x)

    # ------------------------------------------------------------------ driver
    def run(self):
        rng, mon, ctx = self.rng, self.mon, self.ctx
        mon.calls, mon.stack = [], []
        mon.session = {"index": self.index, "device": self.devname, "actions": self.desc}
        # some calls before any tracker is active: nothing may be recorded
        if rng.random() < 0.3:
            self.device_action()
        tr = self.new_tracker()
        if self.other is not None:
            otr = self.new_tracker(self.other)
            otr.__enter__()
        nact = int(rng.integers(3, 9))
        use_with = rng.random() < 0.5
        if use_with:
            with tr:
                self.desc.append("with")
                for _ in range(nact):
                    self.step()
            self.desc.append("end-with")
            if rng.random() < 0.5:
                self.device_action()      # after the context: inactive (unless re-activated by an action)
        else:
            tr.__enter__() if rng.random() < 0.7 else setattr(tr, "active", True)
            self.desc.append("activate")
            for _ in range(nact):
                self.step()
        for t in {id(t): t for t in self.trackers + [self.dev.tracker]}.values():
            mon.compare(t, "session-end")
            mon.quiescent(t, "session-end")
        if self.other is not None:
            mon.compare(self.other.tracker, "session-end")
            mon.quiescent(self.other.tracker, "session-end")

    def step(self):
        if self.rng.random() < 0.3:
            self.tracker_action()
        else:
            self.device_action()


def run(ctx):
    warnings.filterwarnings("ignore")
    import pennylane as qp

    mon = Monitor(ctx, qp)
    mon.install()
    CustomDev = make_custom_device(qp)
    total = 400 if ctx.quick else 16000
    indices = [i for i in range(total) if i % ctx.nshards == ctx.shard]
    if ctx.only_case is not None:
        indices = [ctx.only_case]
    rejections = (qp.exceptions.DeviceError, qp.exceptions.QuantumFunctionError, NotImplementedError) \
        if hasattr(qp, "exceptions") else (qp.DeviceError, qp.QuantumFunctionError, NotImplementedError)
    try:
        for i in indices:
            if not ctx.more():
                break
            ctx.case_index = i
            rng = ctx.case_rng(i)
            mon.shadows, mon.calls, mon.stack = {}, [], []   # trackers of earlier sessions are dropped (ids may be reused)
            s = Session(ctx, qp, mon, rng, i, CustomDev)
            ok = True
            try:
                s.run()
            except rejections as e:
                ctx.reject(type(e).__name__ + ":" + s.devname)
                ctx.note_add("rejection_messages", f"{s.devname}: {s.desc[-1] if s.desc else ''}: {str(e)[:120]}")
                ok = False
            except Exception as e:  # noqa: BLE001
                import traceback
                ctx.inconclusive_case(f"session {i} on {s.devname} after {s.desc[-3:]}: {type(e).__name__}: {str(e)[:200]} @ "
                                      + "".join(traceback.format_tb(e.__traceback__)[-2:])[-300:])
                ok = False
            finally:
                mon.stack = []
            calls = [c for c in mon.calls if c.exc is None]
            kinds = {c.ep for c in calls if c.active}
            sig = [(c.ep, c.n, c.single, c.active, tuple(t.sig for t in c.circuits)) for c in calls]
            fp = fingerprint(s.devname, repr(sig), repr(s.desc))
            if ok:
                ctx.case(fp, nontrivial=len(kinds) >= 2, cls=s.devname,
                         sample={"device": s.devname, "actions": s.desc[:14], "entry_points_active": sorted(kinds),
                                 "calls": len(calls), "totals": {k: repr(v)[:40] for k, v in s.dev.tracker.totals.items() if k != "results"}})
            for f in s.flags:
                ctx.cover("tracker:" + f)
            for c in calls:
                for t in c.circuits:
                    if t.ts is not None:
                        sv = t.tape.shots.shot_vector
                        ctx.cover("shots:vector" if len(sv) > 1 or sv[0].copies > 1 else "shots:int")
                    if t.B > 1:
                        ctx.cover("broadcast")
            ctx.count("device-calls", len(calls))
            ctx.count("device-calls-active", sum(1 for c in calls if c.active))
    finally:
        mon.uninstall()
