"""C17 — Optimisation passes preserve semantics and accept all valid circuits.

Translation validation at run time: a post-condition handler sits on ``Transform.tape_transform`` (the attach point every
tape-level application goes through, so passes running *inside* ``qp.compile`` / ``match_*`` are validated too).  Every
program a real pass returns is compared with its source by the independent reference simulator (pv.ref: R-GATES table +
einsum simulator through pv.ref.bridge):

* ``pass.equiv``        min_phi || U_out - e^{i phi} U_in ||_F / sqrt(dim) <= tol  (statement: "same unitary up to a global phase");
                        ``undo_swaps``: U_in = U_out · P with P the product of the input's SWAPs (documented input relabelling) and
                        equal final states; ``merge_amplitude_embedding`` / state preparations: equal prepared states;
                        ``rz_phase_gradient``: equal final state on all registers with the phase-gradient register prepared.
* ``pass.measurements`` every measurement of the output tape evaluated by the reference on the output program equals the same
                        measurement of the input tape on the input program (expval / var / probs / density matrix).
* ``pass.accepts``      the pass returned instead of raising (documented rejections are counted as rejections).
* ``pass.phase_exact``  (additional) passes that only delete inverse pairs / reorder commuting gates / sum GlobalPhases
                        (cancel_inverses, commute_controlled, remove_barrier, combine_global_phases, rowcol) keep the phase exactly.
* ``ir.parity_matrix`` / ``ir.phase_polynomial``  U|x> = e^{i p(x)} |P x> with (P, parity table, angles) returned by the real code.
"""
import math
import warnings
from functools import partial

import numpy as np

from pv.ctx import fingerprint

META = {
    "id": "C17",
    "level": "translation_validation",
    "technique": "translation validation: post-condition on Transform.tape_transform comparing every program a real pass emits with its source "
                 "by an independent reference simulator (documented gate table + einsum state-vector/unitary simulator)",
    "level_text": "Each run validates every output program of every covered pass (also when the pass runs nested inside qp.compile or the "
                  "match_* passes) against its input on pattern-biased generated circuits (1-5 wires, hostile angles, arbitrary wire labels, "
                  "all pass options, random compile pipelines): unitary equal up to global phase, reference measurement values equal, pass did "
                  "not raise. Equivalence is decided per program, not proved for the pass.",
    "level_note": "Trusted: numpy, the transcription of the documented gate formulas (pv/ref/gates.py), and qp.matrix for the few untabulated "
                  "operators (ChangeOpBasis/SemiAdder in rz_phase_gradient outputs, fractional Pow); the independent fraction is reported in "
                  "evidence. Tolerances: 1e-7 (+ n_ops*atol for passes with an atol option, 1e-6 for passes that use the documented "
                  "numerically unstable fuse_rot_angles). ZX passes are only run on range-labelled and arbitrarily labelled small circuits; "
                  "rz_phase_gradient only with precision <= 3 bits (register size). Catalyst/qjit variants of the passes are not installed here.",
    "shards": {"quick": 4, "thorough": 16},
    "budget_s": {"quick": 75, "thorough": 420},
    "min_evals": {"quick": 800, "thorough": 10000},
    "deciding": ["pass.equiv", "pass.accepts", "pass.measurements"],
    "rule": "case = (pass, options, generated circuit + measurements); distinct = fingerprint of (pass, options, deep tape structure); "
            "non-trivial = the pass changed the operator list (something was cancelled / merged / moved / replaced)",
    "assumptions": ["reference gate table transcribes the documented unitaries faithfully",
                    "'valid circuit over the gates it documents' = unitary gate circuits over PennyLane's named qubit gates, their adjoint/pow/ctrl "
                    "forms, QubitUnitary, Barrier, GlobalPhase, Identity (pass-specific families for ZX / CNOT / amplitude-embedding passes)"],
    "allow_rejections": True,
}

TOL = 1e-7
FUSE_TOL = 1e-6
EXACT_PHASE = {"cancel_inverses", "commute_controlled", "remove_barrier", "combine_global_phases", "rowcol"}
FUSING = {"single_qubit_fusion", "merge_rotations", "compile", "unitary_to_rot"}
ZX = ("push_hadamards", "todd", "optimize_t_count", "reduce_non_clifford")


# ----------------------------------------------------------------------------- the post-condition
class Validator:
    def __init__(self, ctx, qp):
        self.ctx, self.qp = ctx, qp
        self.ctxinfo = {}      # set by the driver: description of the current case
        self.state_only = 0    # >0 while a pipeline that legitimately permutes input wires (undo_swaps) is running
        self.last = None

    # -- helpers
    def _tol(self, name, tape, kwargs):
        tol = TOL
        if name in FUSING:
            tol = FUSE_TOL
        atol = kwargs.get("atol", 1e-8 if name in ("merge_rotations", "single_qubit_fusion") else 0.0) or 0.0
        if name == "compile":
            atol = max(atol, self.ctxinfo.get("atol", 1e-8))
        return tol + len(tape.operations) * float(atol) * 2

    def _witness(self, name, tape, out, kwargs, extra=None):
        from pv.gen import circ
        w = {"pass": name, "options": {k: (repr(v)[:200]) for k, v in kwargs.items() if k not in ("pattern_tapes",)},
             "input": circ.describe(tape), "output": circ.describe(out) if out is not None else None, "driver_case": self.ctxinfo.get("desc")}
        if extra:
            w.update(extra)
        return w

    def _classify(self, name, U_in, U_out, wires, tol):
        """Mechanism classifier for a semantic mismatch: is the output the input up to a relabelling of wires?"""
        import itertools
        from pv.mon import c17_tv as tv
        from pv.ref import sv
        n = len(wires)
        if name in ("pattern_matching_optimization", "match_relative_phase_toffoli", "match_controlled_iX_gate"):
            tw = list(self._cur_tape.wires)
            if set(tw) != set(range(len(tw))):
                return "pm-nonrange-wire-labels"  # template wires are looked up in sorted(tape.wires) instead of by position
            if len(self._cur_kwargs.get("pattern_tapes", ())) > 1:
                return "pm-multi-pattern-stale-wire-map"  # inverse wire map computed once, tape.wires order changes after a substitution
            if any(getattr(o, "control_values", None) is not None and not all(o.control_values) for o in self._cur_tape.operations):
                return "pm-ignores-control-values"  # operations are matched by name/arity/data only (hyper-parameters ignored)
        if name in ZX:
            tw = list(self._cur_tape.wires)
            if tw != list(range(len(tw))):
                # the pass maps tape.wires[i] -> i for PyZX and never maps back: undo that and re-compare
                try:
                    m = dict(enumerate(tw))
                    ops2 = [o.map_wires({w: m[w] for w in o.wires}) for o in self._cur_out.operations]
                    U2, _ = tv.unitary(ops2, tw)
                    U1, _ = tv.unitary(list(self._cur_tape.operations), tw)
                    if tv.udist(U2, U1) <= tol:
                        return f"zx-wires-not-mapped-back:{name}"
                except Exception:  # noqa: BLE001
                    pass
        if name == "unitary_to_rot":
            # the pass synthesises 4x4 QubitUnitary gates with two_qubit_decomposition, whose CNOT-class detection loses accuracy near
            # the class boundaries (C14 'boundary-loss:two_qubit'): name it when replacing every 2-wire QubitUnitary of the OUTPUT's
            # synthesis by the exact matrix (i.e. leaving them un-synthesised) removes the discrepancy
            try:
                ops_in = list(self._cur_tape.operations)
                if any(type(o).__name__ == "QubitUnitary" and len(o.wires) == 2 for o in ops_in):
                    import pennylane as _qp
                    ok = True
                    for o in ops_in:
                        if type(o).__name__ == "QubitUnitary" and len(o.wires) == 2:
                            dec = _qp.ops.two_qubit_decomposition(np.asarray(o.data[0]), wires=o.wires)
                            Ud, _ = tv.unitary(list(dec), list(o.wires))
                            Ue, _ = tv.unitary([o], list(o.wires))
                            if tv.udist(Ud, Ue) > tol:
                                ok = False
                    if not ok:
                        return "unitary_to_rot:two-qubit-synthesis-boundary-loss"
            except Exception:  # noqa: BLE001
                pass
        if n <= 5:
            for perm in itertools.permutations(range(n)):
                if list(perm) == list(range(n)):
                    continue
                # relabel output: wire i -> wire perm[i]
                P = np.eye(2**n).reshape([2] * n + [2**n]).transpose(list(perm) + [n]).reshape(2**n, 2**n)
                if tv.udist(P.T @ U_out @ P, U_in) <= tol:
                    return f"wire-relabel:{name}"
        return f"semantics:{name}"

    # -- the handler
    def __call__(self, name, tape, args, kwargs, out, depth):
        from pv.mon import c17_tv as tv
        ctx = self.ctx
        if not (isinstance(out, tuple) and len(out) == 2 and callable(out[1])):
            return
        tapes, fn = out
        if name in ("parity_matrix", "phase_polynomial", "commutation_dag", "to_zx", "decompose", "map_wires", "diagonalize_measurements"):
            return
        if len(tapes) != 1:
            ctx.ev("pass.equiv")
            ctx.violation("pass.equiv", f"{name} returned {len(tapes)} tapes for one input", case=self._witness(name, tape, None, kwargs), mech=f"batch:{name}")
            return
        new = tapes[0]
        self._cur_tape, self._cur_kwargs, self._cur_out = tape, kwargs, new
        ctx.count("programs")
        ctx.count(f"programs.{name}")
        if depth:
            ctx.count("programs.nested")
        self.last = (name, new)
        wires = tv.all_wires(tape, new)
        if len(wires) > 11:
            ctx.inconclusive_case(f"{name}: {len(wires)} wires")
            return
        tol = self._tol(name, tape, kwargs)
        ops_in, ops_out = list(tape.operations), list(new.operations)
        has_prep = any(getattr(o, "name", "") in tv.PREP_NAMES for o in ops_in + ops_out)
        mode = "state" if (has_prep or name in ("rz_phase_gradient",) or (self.state_only and name == "compile")) else "unitary"
        for o in ops_out:
            try:
                bad = any(np.any(np.isnan(np.asarray(d, dtype=complex))) for d in o.data)
            except Exception:  # noqa: BLE001
                bad = False
            if bad:
                ctx.ev("pass.equiv")
                ctx.violation("pass.equiv", f"{name}: output operator {o.name} on wires {list(o.wires)} has NaN parameters",
                              case=self._witness(name, tape, new, kwargs),
                              mech="nan-angles:fuse_rot_angles" if name in FUSING else f"nan-angles:{name}")
                return
        try:
            if mode == "unitary":
                U_in, f1 = tv.unitary(ops_in, wires)
                U_out, f2 = tv.unitary(ops_out, wires)
                ctx.ev("pass.equiv")
                ctx.count("independent_gate_fraction_sum", min(f1, f2))
                if name == "undo_swaps":
                    P, _ = tv.unitary([o for o in ops_in if o.name == "SWAP"], wires)
                    d = tv.udist(U_out @ P, U_in)
                    what = "U_in != U_out · (product of the input's SWAPs)"
                else:
                    d = tv.udist(U_out, U_in)
                    what = "output unitary differs from the input's by more than a global phase"
                if not d <= tol:
                    mech = self._classify(name, U_in, U_out, wires, tol) if name != "undo_swaps" else f"semantics:{name}"
                    ctx.violation("pass.equiv", f"{name}: {what} (normalised distance {d:.3e} > {tol:.1e})",
                                  case=self._witness(name, tape, new, kwargs), mech=mech, observed=d, expected=f"<= {tol}")
                    return
                if name in EXACT_PHASE:
                    ctx.ev("pass.phase_exact")
                    d2 = tv.udist_exact(U_out, U_in)
                    if not d2 <= tol:
                        ctx.violation("pass.phase_exact", f"{name}: output unitary equals the input's only up to a phase (exact distance {d2:.3e})",
                                      case=self._witness(name, tape, new, kwargs), mech=f"phase:{name}", observed=d2)
                psi_in, psi_out = U_in[:, 0], U_out[:, 0]
            else:
                init = None
                if name == "rz_phase_gradient":
                    # documented pre-condition: phase-gradient state on the first len(angle_wires) phase_grad_wires, rest |0>
                    tol = tol + float(self.ctxinfo.get("rz_tol", 0.0))
                    b = len(kwargs["angle_wires"])
                    phg = list(kwargs["phase_grad_wires"])[:b]
                    wires = wires + [w for w in phg if w not in wires]
                    N = 2**b
                    M = np.zeros((N, N), dtype=complex)
                    M[:, 0] = np.exp(-2j * np.pi * np.arange(N) / N) / np.sqrt(N)
                    init = tv.sv.apply_tensor(tv.sv.zero_state(len(wires)), M, [wires.index(w) for w in phg]).reshape(-1)
                psi_in, f1 = tv.state(ops_in, wires, init=init)
                psi_out, f2 = tv.state(ops_out, wires, init=init)
                ctx.ev("pass.equiv")
                ctx.count("independent_gate_fraction_sum", min(f1, f2))
                d = tv.sv.phase_dist(psi_out, psi_in)
                if not d <= tol * 4:
                    ctx.violation("pass.equiv", f"{name}: final state of the output program differs from the input's by more than a global phase "
                                                f"(distance {d:.3e} > {4 * tol:.1e})",
                                  case=self._witness(name, tape, new, kwargs), mech=f"semantics:{name}", observed=d)
                    return
        except tv.NoRef as e:
            ctx.inconclusive_case(f"{name}: no reference ({e})")
            return
        # measurements of the output tape on the output program == measurements of the input tape on the input program
        ms_in, ms_out = list(tape.measurements), list(new.measurements)
        ctx.ev("pass.measurements")
        if len(ms_in) != len(ms_out):
            ctx.violation("pass.measurements", f"{name}: {len(ms_in)} measurements became {len(ms_out)}", case=self._witness(name, tape, new, kwargs),
                          mech=f"measurements:{name}")
            return
        for i, (a, b) in enumerate(zip(ms_in, ms_out)):
            try:
                ra = tv.measure(psi_in, wires, a)
                rb = tv.measure(psi_out, wires, b)
            except tv.NoRef:
                ctx.count("measurements_without_reference")
                continue
            ok, err = tv.results_close(rb, ra, tol * 8)
            if not ok:
                ctx.violation("pass.measurements", f"{name}: measurement {i} ({a!r}) changed: reference value on the output program differs by {err:.3e}",
                              case=self._witness(name, tape, new, kwargs, {"measurement": i}), mech=f"measurements:{name}", observed=rb, expected=ra)
                return


# ----------------------------------------------------------------------------- circuits per pass
def _meas(qp, rng, gen, wires, n=None):
    return gen.random_measurements(qp, rng, list(wires), n=n, kinds=("expval", "var", "probs", "expval"), obs_kinds=("pauli", "sum", "herm", "proj", "sprod"))


def _labels(rng, n, mode=None):
    from pv.gen import num
    return num.wire_labels(rng, n, mode)


def _tape(qp, rng, gen, ops, wires):
    used = []
    for o in ops:
        for w in o.wires:
            if w not in used:
                used.append(w)
    mw = used or list(wires)[:1]
    return qp.tape.QuantumScript(ops, _meas(qp, rng, gen, mw if rng.random() < 0.7 else list(wires)))


def g_biased(weights, nw=(1, 5), items=(2, 7), pool=None):
    def f(qp, rng, gen, g17):
        n = int(rng.integers(nw[0], nw[1] + 1))
        wires = _labels(rng, n)
        ops = g17.biased_ops(qp, rng, wires, int(rng.integers(items[0], items[1] + 1)), weights, pool=pool)
        return _tape(qp, rng, gen, ops, wires)
    return f


def g_amp(qp, rng, gen, g17):
    from pv.ref import sv
    n = int(rng.integers(2, 6))
    wires = _labels(rng, n)
    free = list(wires)
    rng.shuffle(free)
    ops = []
    k = int(rng.integers(1, 4))
    overlap = rng.random() < 0.12
    emb = []
    while free and len(emb) < k:
        m = int(rng.integers(1, min(2, len(free)) + 1))
        ws, free = free[:m], free[m:]
        emb.append(ws)
    gates_on = free[:]  # wires that never get an embedding: gates may come first
    for ws in emb:
        if gates_on and rng.random() < 0.6:
            ops.extend(g17.biased_ops(qp, rng, gates_on, int(rng.integers(1, 3)), {"plain": 1, "oneq": 1}, max_w=min(2, len(gates_on))))
        v = sv.random_state(rng, len(ws))
        r = rng.random()
        if r < 0.2:
            v = np.real(v) / np.linalg.norm(np.real(v))
        if r > 0.8:
            ops.append(qp.AmplitudeEmbedding(v * 3.0, wires=ws, normalize=True))
        else:
            ops.append(qp.AmplitudeEmbedding(v, wires=ws))
    if overlap:
        ops.insert(int(rng.integers(0, len(ops))), qp.Hadamard(emb[-1][0]))
    ops.extend(g17.biased_ops(qp, rng, wires, int(rng.integers(0, 4)), {"plain": 2, "rot": 1}, max_w=min(3, n)))
    return _tape(qp, rng, gen, ops, wires)


PM_FIXED = None


def _pm_patterns(qp):
    return [
        [qp.CNOT([0, 1]), qp.CNOT([0, 1])],
        [qp.S(0), qp.S(0), qp.Z(0)],
        [qp.Hadamard(0), qp.X(0), qp.Hadamard(0), qp.Z(0)],
        [qp.CNOT([1, 2]), qp.CNOT([0, 1]), qp.CNOT([1, 2]), qp.CNOT([0, 1]), qp.CNOT([0, 2])],
        [qp.Hadamard(1), qp.CNOT([0, 1]), qp.Hadamard(1), qp.CZ([0, 1])],
        [qp.X(1), qp.CNOT([0, 1]), qp.X(1), qp.CNOT([0, 1])],
        [qp.Z(0), qp.CNOT([0, 1]), qp.Z(0), qp.CNOT([0, 1])],
        [qp.T(0), qp.T(0), qp.adjoint(qp.S(0))],
        [qp.SWAP([0, 1]), qp.CNOT([0, 1]), qp.CNOT([1, 0]), qp.CNOT([0, 1])],
        [qp.Toffoli([0, 1, 2]), qp.Toffoli([0, 1, 2])],
    ]


def g_pm(qp, rng, gen, g17):
    """(tape, pattern tapes): the circuit contains (part of) a pattern on random wires between random gates."""
    pats = _pm_patterns(qp)
    chosen = []
    for _ in range(1 if rng.random() < 0.7 else 2):
        if rng.random() < 0.7:
            chosen.append(pats[int(rng.integers(len(pats)))])
        else:  # random pattern A · A^-1
            pw = list(range(int(rng.integers(1, 4))))
            # gates of the default quantum-cost table only (the set of pattern gates the pass documents)
            A = g17.biased_ops(qp, rng, pw, int(rng.integers(1, 4)), {"plain": 1}, pool=["Hadamard", "S", "T", "PauliX", "PauliY", "PauliZ", "CNOT", "CZ", "RZ", "RX", "SWAP", "Toffoli", "CCZ"], max_w=3)
            inv = lambda o: o if o.name in g17.SELF_INV else (type(o)(-o.data[0], wires=o.wires) if o.num_params else qp.adjoint(o))  # noqa: E731
            chosen.append(A + [inv(o) for o in reversed(A)])
    pat_w = max(len({w for o in p for w in o.wires}) for p in chosen)
    n = int(rng.integers(pat_w, max(pat_w, 4) + 1))
    wires = _labels(rng, n, "range" if rng.random() < 0.35 else ("perm" if rng.random() < 0.5 else None))
    ops = []
    pool = ["Hadamard", "S", "T", "PauliX", "PauliZ", "CNOT", "CZ", "RZ", "RX", "SWAP", "PauliY", "Toffoli", "CRZ"]
    for p in chosen:
        ops.extend(g17.biased_ops(qp, rng, wires, int(rng.integers(0, 3)), {"plain": 1}, pool=pool, max_w=min(3, n)))
        pw = sorted({w for o in p for w in o.wires})
        tgt = g17.some_wires(rng, wires, len(pw))
        m = dict(zip(pw, tgt))
        k = int(rng.integers(max(1, len(p) // 2), len(p) + 1))
        start = 0 if rng.random() < 0.7 else int(rng.integers(0, len(p) - k + 1))
        for o in p[start:start + k]:
            ops.append(o.map_wires(m))
            if rng.random() < 0.2:
                others = [w for w in wires if w not in tgt]
                if others:
                    ops.append(g17.one_q(qp, rng, g17.pick(rng, others), rich=False))
    ops.extend(g17.biased_ops(qp, rng, wires, int(rng.integers(0, 3)), {"plain": 1}, pool=pool, max_w=min(3, n)))
    ops = ops[:14]
    return _tape(qp, rng, gen, ops, wires), [qp.tape.QuantumScript(p) for p in chosen]


def g_match(which):
    def f(qp, rng, gen, g17):
        nc = int(rng.integers(1, 3)) if which == "iX" else 2
        need = nc + 2 if which == "iX" else 4
        n = int(rng.integers(need, 6))
        wires = _labels(rng, n, "range" if rng.random() < 0.35 else ("perm" if rng.random() < 0.5 else None))
        ws = g17.some_wires(rng, wires, need)
        pool = ["Hadamard", "S", "T", "PauliX", "CNOT", "CZ", "RZ", "Toffoli", "PauliZ"]
        ops = g17.biased_ops(qp, rng, wires, int(rng.integers(0, 3)), {"plain": 1}, pool=pool, max_w=min(3, n))
        exact = rng.random() < 0.75
        if which == "iX":
            head = [qp.ctrl(qp.S(ws[nc]), control=ws[:nc]), qp.ctrl(qp.X(ws[nc + 1]), control=ws[:nc + 1])]
            if not exact:
                head = [qp.ctrl(qp.S(ws[nc]), control=ws[:nc], control_values=[0] * nc) if rng.random() < 0.5 else qp.ctrl(qp.T(ws[nc]), control=ws[:nc]),
                        qp.ctrl(qp.X(ws[nc + 1]), control=ws[:nc + 1])]
        else:
            head = [qp.CCZ([ws[0], ws[1], ws[3]]), qp.ctrl(qp.S(ws[1]), control=[ws[0]]), qp.ctrl(qp.S(ws[2]), control=[ws[0], ws[1]]),
                    qp.MultiControlledX(wires=ws)]
            if not exact:
                r = int(rng.integers(3))
                if r == 0:
                    head[3] = qp.MultiControlledX(wires=ws, control_values=[1, 0, 1])
                elif r == 1:
                    head = head[1:]
                else:
                    head[1] = qp.ctrl(qp.T(ws[1]), control=[ws[0]])
        if rng.random() < 0.15:
            head = head[: int(rng.integers(1, len(head) + 1))]
        ops += head
        ops += g17.biased_ops(qp, rng, wires, int(rng.integers(0, 3)), {"plain": 1}, pool=pool, max_w=min(3, n))
        return _tape(qp, rng, gen, ops, wires), ({"num_controls": nc} if which == "iX" else {})
    return f


def g_zx(extra=()):
    def f(qp, rng, gen, g17):
        n = int(rng.integers(1, 5))
        canonical = rng.random() < 0.5
        wires = list(range(n)) if canonical else _labels(rng, n)
        ops = g17.clifford_t_ops(qp, rng, wires, int(rng.integers(2, 12)), extra=extra)
        if canonical:  # relabel so that wires are 0..k-1 in order of first appearance (tape.wires == range)
            seen = []
            for o in ops:
                for w in o.wires:
                    if w not in seen:
                        seen.append(w)
            m = {w: i for i, w in enumerate(seen)}
            ops = [o.map_wires(m) for o in ops]
            wires = list(range(len(seen)))
        used = sorted({w for o in ops for w in o.wires}, key=str)
        if canonical:
            ms = [qp.expval(gen.pauli_word_obs(qp, rng, used)), qp.probs(wires=used)]
        else:
            ms = _meas(qp, rng, gen, used)
        t = qp.tape.QuantumScript(ops, ms)
        return t
    return f


def g_cnot(p_rz=0.0, conn=False):
    def f(qp, rng, gen, g17):
        n = int(rng.integers(2, 6))
        wires = _labels(rng, n)
        ops = g17.cnot_rz_ops(qp, rng, wires, int(rng.integers(1, 12)), p_rz)
        if not any(o.name == "CNOT" for o in ops):
            ops.append(qp.CNOT(wires=wires[:2]))
        t = qp.tape.QuantumScript(ops, _meas(qp, rng, gen, list(qp.tape.QuantumScript(ops).wires)))
        return t
    return f


def g_rzpg(qp, rng, gen, g17):
    b = int(rng.integers(2, 4))
    nc = 1 if b == 3 else int(rng.integers(1, 3))
    comp = [f"c{i}" for i in range(nc)]
    ang = [f"ang{i}" for i in range(b)]
    phg = [f"phg{i}" for i in range(b)]
    work = [f"wk{i}" for i in range(b - 1)]
    ops = []
    exact = rng.random() < 0.7
    nrz = 0
    for _ in range(int(rng.integers(2, 6))):
        r = rng.random()
        if r < 0.5:
            k = int(rng.integers(-2**b, 2**b + 1))
            phi = 2 * math.pi * k / 2**b if exact else float(rng.uniform(-6, 6))
            ops.append(qp.RZ(phi, wires=g17.pick(rng, comp)))
            nrz += 1
        elif r < 0.8 or nc < 2:
            ops.append(g17.gate(qp, rng, g17.pick(rng, ["Hadamard", "RX", "RY", "S", "PauliX", "T"]), [g17.pick(rng, comp)]))
        else:
            ops.append(qp.CNOT(wires=g17.some_wires(rng, comp, 2)))
    if not nrz:
        ops.append(qp.RZ(2 * math.pi / 2**b, wires=comp[0]))
        nrz = 1
    t = qp.tape.QuantumScript(ops, [qp.expval(qp.Z(comp[0])), qp.probs(wires=comp)])
    return t, {"angle_wires": ang, "phase_grad_wires": phg, "work_wires": work}, {"b": b, "nrz": nrz, "exact": exact, "order": comp + ang + phg + work}


PIPE_POOL = ["commute_controlled:left", "commute_controlled:right", "cancel_inverses", "cancel_inverses:nr", "merge_rotations", "remove_barrier",
             "single_qubit_fusion", "undo_swaps", "unitary_to_rot", "combine_global_phases", "merge_rotations:atol"]


def _pipe_item(qp, s):
    T = qp.transforms
    return {
        "commute_controlled:left": partial(T.commute_controlled, direction="left"),
        "commute_controlled:right": T.commute_controlled,
        "cancel_inverses": T.cancel_inverses,
        "cancel_inverses:nr": partial(T.cancel_inverses, recursive=False),
        "merge_rotations": T.merge_rotations,
        "merge_rotations:atol": partial(T.merge_rotations, atol=1e-6),
        "remove_barrier": T.remove_barrier,
        "single_qubit_fusion": T.single_qubit_fusion,
        "undo_swaps": T.undo_swaps,
        "unitary_to_rot": T.unitary_to_rot,
        "combine_global_phases": T.combine_global_phases,
    }[s]


# ----------------------------------------------------------------------------- documented rejections
def _documented_rejection(name, e):
    t, msg = type(e).__name__, str(e)
    if name == "merge_amplitude_embedding" and t == "DeviceError":
        return "overlapping-embedding"
    if name in ZX and t == "TypeError" and ("Clifford + T" in msg or "phase-polynomial" in msg):
        return "zx-unsupported-gate"
    if t == "QuantumFunctionError" and "not supported" in msg and name in ("commute_controlled", "pattern_matching_optimization", "compile",
                                                                              "match_relative_phase_toffoli", "match_controlled_iX_gate"):
        return "is_commuting-unsupported-op"  # documented list of operations qp.is_commuting does not support
    if name in ("rowcol", "parity_matrix", "phase_polynomial") and t == "TypeError" and ("CNOT" in msg):
        return "non-cnot"
    if t == "QuantumFunctionError" and "less qubits than the pattern" in msg:
        return "circuit-smaller-than-pattern"
    if name == "compile" and t == "DecompositionUndefinedError":
        return "basis-set-unreachable"
    return None


def run(ctx):
    import pennylane as qp
    import pennylane.transforms.zx as zx

    from pv.gen import c17_circ as g17
    from pv.gen import circ as gen
    from pv.mon import c17_tv as tv

    warnings.filterwarnings("ignore")
    _v = ctx.violation

    def violation(monitor, message, case=None, mech=None, observed=None, expected=None):
        return _v(monitor, f"{message} [mech={mech}]", case=case, mech=mech, observed=observed, expected=expected)

    ctx.violation = violation
    T = qp.transforms
    V = Validator(ctx, qp)
    tv.install_pure(ctx)
    names = ["cancel_inverses", "merge_rotations", "commute_controlled", "single_qubit_fusion", "undo_swaps", "remove_barrier",
             "merge_amplitude_embedding", "combine_global_phases", "unitary_to_rot", "pattern_matching_optimization",
             "match_relative_phase_toffoli", "match_controlled_iX_gate", "compile", "rowcol", "rz_phase_gradient", *ZX]
    tv.install(ctx, {n: V for n in names})

    W = g17  # noqa: N806
    gen_generic = g_biased({"plain": 4, "inverse": 2, "rot": 2, "commute": 1.5, "run1q": 1, "swaps": 0.7, "markers": 0.7, "unitary": 0.5, "ctrl": 1})

    def opts_merge(rng):
        o = {}
        r = rng.random()
        if r < 0.25:
            o["atol"] = [1e-10, 1e-6, 1e-5][int(rng.integers(3))]
        if rng.random() < 0.25:
            o["include_gates"] = [str(x) for x in rng.choice(W.COMPOSABLE, size=int(rng.integers(1, 5)), replace=False)]
        return o

    def opts_fusion(rng):
        o = {}
        if rng.random() < 0.25:
            o["atol"] = [1e-10, 1e-6, 1e-5][int(rng.integers(3))]
        if rng.random() < 0.3:
            o["exclude_gates"] = [str(x) for x in rng.choice(["RX", "RY", "RZ", "Hadamard", "S", "T", "Rot", "PauliX", "SX", "PhaseShift", "QubitUnitary"],
                                                             size=int(rng.integers(1, 4)), replace=False)]
        return o

    # name -> (transform, generator, options factory, weight quick, weight thorough)
    R = {
        "cancel_inverses": (T.cancel_inverses, g_biased({"inverse": 5, "plain": 3, "ctrl": 1, "markers": 0.4, "rot": 0.4, "oneq": 1}),
                            lambda r: {"recursive": bool(r.integers(2))} if r.random() < 0.7 else {}, 70),
        "merge_rotations": (T.merge_rotations, g_biased({"rot": 5, "plain": 3, "inverse": 0.5, "oneq": 1, "ctrl": 0.5}), opts_merge, 70),
        "commute_controlled": (T.commute_controlled, g_biased({"commute": 5, "plain": 2, "ctrl": 2, "oneq": 2, "markers": 0.3}, nw=(2, 5)),
                               lambda r: {"direction": ["left", "right"][int(r.integers(2))]} if r.random() < 0.8 else {}, 80),
        "single_qubit_fusion": (T.single_qubit_fusion, g_biased({"run1q": 5, "plain": 2, "ctrl": 1, "unitary": 0.5, "oneq": 2, "rot": 1}), opts_fusion, 70),
        "undo_swaps": (T.undo_swaps, g_biased({"swaps": 5, "plain": 3, "oneq": 2, "ctrl": 1}, nw=(2, 5)), lambda r: {}, 50),
        "remove_barrier": (T.remove_barrier, g_biased({"markers": 4, "plain": 4, "oneq": 1}), lambda r: {}, 25),
        "combine_global_phases": (T.combine_global_phases, g_biased({"markers": 5, "plain": 3, "ctrl": 1}), lambda r: {}, 30),
        "merge_amplitude_embedding": (T.merge_amplitude_embedding, g_amp, lambda r: {}, 40),
        "unitary_to_rot": (T.unitary_to_rot, g_biased({"unitary": 5, "plain": 3, "oneq": 1}), lambda r: {}, 50),
        "pattern_matching_optimization": (T.pattern_matching_optimization, g_pm, None, 40),
        "match_relative_phase_toffoli": (T.match_relative_phase_toffoli, g_match("rpt"), None, 10),
        "match_controlled_iX_gate": (T.match_controlled_iX_gate, g_match("iX"), None, 16),
        "compile": (qp.compile, gen_generic, None, 70),
        "push_hadamards": (zx.push_hadamards, g_zx(("RZ", "PhaseShift")), lambda r: {}, 24),
        "todd": (zx.todd, g_zx(), lambda r: {}, 20),
        "optimize_t_count": (zx.optimize_t_count, g_zx(), lambda r: {}, 20),
        "reduce_non_clifford": (zx.reduce_non_clifford, g_zx(("RZ", "PhaseShift", "RX", "RY")), lambda r: {}, 24),
        "rowcol": (T.rowcol, g_cnot(), None, 40),
        "parity_matrix": (T.parity_matrix, g_cnot(), None, 20),
        "phase_polynomial": (T.phase_polynomial, g_cnot(0.4), None, 30),
        "rz_phase_gradient": (T.rz_phase_gradient, g_rzpg, None, 6),
    }
    scale = 2.5 if ctx.quick else 100
    work = []
    import os
    only = [x for x in os.environ.get("PV_ONLY", "").split(",") if x]  # developer workflow (mutant triage): restrict to some passes
    for name in sorted(R):
        if only and name not in only:
            continue
        work += [(name, j) for j in range(int(R[name][3] * scale))]
    # deterministic shuffle so that every shard sees every pass early (time budget cuts the tail, not whole passes)
    order = np.random.default_rng([ctx.seed, 17]).permutation(len(work))
    work = [work[int(i)] for i in order]
    mine = ctx.my(work)

    for name, j in mine:
        if not ctx.more():
            break
        idx = int(fingerprint(name, j), 16) % (2**31)
        if ctx.only_case is not None and idx != ctx.only_case:
            continue
        ctx.case_index = idx
        rng = ctx.case_rng(idx)
        tr, gfun, optf, _ = R[name]
        extra = {}
        V.ctxinfo = {}
        V.state_only = 0
        try:
            made = gfun(qp, rng, gen, g17)
            call_kwargs = {}
            if name == "pattern_matching_optimization":
                tape, pats = made
                call_kwargs = {"pattern_tapes": pats}
                extra["patterns"] = [gen.describe(p)["ops"] for p in pats]
            elif name.startswith("match_"):
                tape, call_kwargs = made
            elif name == "rz_phase_gradient":
                tape, call_kwargs, info = made
                V.ctxinfo["rz_tol"] = 0.0 if info["exact"] else info["nrz"] * 2 * math.pi / 2**info["b"]
                extra.update(info)
            elif name == "compile":
                tape = made
                k = int(rng.integers(1, 5))
                items = [PIPE_POOL[int(i)] for i in rng.integers(0, len(PIPE_POOL), size=k)]
                r = rng.random()
                if r < 0.25:
                    call_kwargs = {}
                    items = ["default"]
                else:
                    call_kwargs = {"pipeline": [_pipe_item(qp, s) for s in items]}
                r = rng.random()
                if r < 0.2:
                    call_kwargs["basis_set"] = ["CNOT", "RX", "RY", "RZ", "GlobalPhase"]
                elif r < 0.3:
                    call_kwargs["basis_set"] = ["CNOT", "Rot", "GlobalPhase", "Hadamard", "PhaseShift"]
                elif r < 0.35:
                    call_kwargs["basis_set"] = ["CZ", "RX", "RY", "RZ", "GlobalPhase", "Toffoli"]
                elif r < 0.4:
                    call_kwargs["basis_set"] = ["CNOT", "RX", "RY", "RZ"]
                if rng.random() < 0.4:
                    call_kwargs["num_passes"] = int(rng.integers(1, 4))
                V.state_only = int(any(s == "undo_swaps" for s in items))
                V.ctxinfo["atol"] = 1e-6 if any(s.endswith(":atol") for s in items) else 1e-8
                extra["pipeline"] = items
            elif name == "rowcol":
                tape = made
                if rng.random() < 0.6:
                    import networkx as nx
                    n = len(tape.wires)
                    call_kwargs = {"connectivity": nx.Graph(g17.random_connected_graph(rng, n))} if n >= 2 else {}
                    extra["connectivity"] = sorted(call_kwargs["connectivity"].edges) if call_kwargs else None
            elif name in ("parity_matrix", "phase_polynomial"):
                tape = made
                if rng.random() < 0.5:
                    wo = list(tape.wires)
                    rng.shuffle(wo)
                    if rng.random() < 0.3:
                        wo.append("extra")
                    call_kwargs = {"wire_order": wo}
            else:
                tape = made
                call_kwargs = optf(rng)
        except Exception as e:  # noqa: BLE001
            ctx.inconclusive_case(f"generator failed for {name}: {type(e).__name__}: {e}")
            continue
        desc = {"pass": name, "options": {k: repr(v)[:120] for k, v in call_kwargs.items() if k not in ("pattern_tapes", "pipeline")}, **{k: v for k, v in extra.items() if k != "order"},
                "tape": gen.describe(tape)}
        V.ctxinfo["desc"] = {k: v for k, v in desc.items() if k != "tape"}
        fp = fingerprint(name, repr(sorted(desc["options"].items())), repr(extra.get("pipeline")), repr(extra.get("patterns")), gen.tape_struct(tape))
        ctx.ev("pass.accepts")
        V.last = None
        try:
            out = tr(tape, **call_kwargs)
        except Exception as e:  # noqa: BLE001
            kind = _documented_rejection(name, e)
            pm = name in ("pattern_matching_optimization", "match_relative_phase_toffoli", "match_controlled_iX_gate")
            if not kind and pm and set(tape.wires) != set(range(len(tape.wires))):
                # same root cause as the semantic mismatches: template wires looked up in sorted(tape.wires) (sort of mixed labels raises,
                # wrong labels collide)
                ctx.case(fp, nontrivial=True, cls=name, sample=desc)
                ctx.violation("pass.accepts", f"{name} raised {type(e).__name__}: {str(e)[:300]} on a circuit whose wire labels are not 0..n-1",
                              case=desc, mech="pm-nonrange-wire-labels")
                continue
            if (not kind and type(e).__name__ == "MatrixUndefinedError" and name in ("single_qubit_fusion", "compile")
                    and any(len(o.wires) == 1 and not o.has_matrix for o in tape.operations)):
                # single_qubit_fusion asks every one-wire operation for ZYZ angles through its matrix; markers have none
                ctx.case(fp, nontrivial=True, cls=name, sample=desc)
                ctx.violation("pass.accepts", f"{name} raised MatrixUndefinedError on a circuit containing a one-wire operation without a matrix "
                                              f"({[o.name for o in tape.operations if len(o.wires) == 1 and not o.has_matrix][:3]})", case=desc,
                              mech="fusion-one-wire-op-without-matrix")
                continue
            if kind:
                ctx.reject(f"{name}:{kind}")
                ctx.case(fp, nontrivial=False, cls=name)
            else:
                import traceback
                tb = traceback.extract_tb(e.__traceback__)
                where = next((f"{fr.filename.split('/pennylane/')[-1]}:{fr.name}" for fr in reversed(tb) if "/pennylane/" in fr.filename), "?")
                ctx.case(fp, nontrivial=True, cls=name, sample=desc)
                ctx.violation("pass.accepts", f"{name} raised {type(e).__name__}: {str(e)[:300]} (at {where})", case=desc,
                              mech=f"raises:{name}:{type(e).__name__}:{where.split(':')[-1]}")
            continue
        # informative IR functions: validated here against the reference unitary
        if name in ("parity_matrix", "phase_polynomial"):
            _check_ir(ctx, qp, tv, name, tape, call_kwargs, out, desc)
            ctx.case(fp, nontrivial=len(tape.operations) > 1, cls=name, sample=desc)
            continue
        try:
            new = out[0][0]
            changed = gen.tape_struct(new)[0] != gen.tape_struct(tape)[0]
        except Exception:  # noqa: BLE001
            changed = False
        ctx.case(fp, nontrivial=bool(changed), cls=name, sample={**desc, "output_ops": gen.describe(new)["ops"] if changed else "unchanged"})
        if name == "rowcol" and call_kwargs.get("connectivity") is not None:
            # observability only (not part of the C17 statement): are the emitted CNOTs on edges when node i is read as tape.wires[i]?
            G = call_kwargs["connectivity"]
            wl = list(tape.wires)
            bad = [o for o in new.operations if not G.has_edge(wl.index(o.wires[0]), wl.index(o.wires[1]))]
            ctx.count("rowcol.cnots_off_connectivity", len(bad))


def _check_ir(ctx, qp, tv, name, tape, kw, out, desc):
    """U|x> = e^{i p(x)} |P x>,  p(x) = sum_k -(1 - 2 (x·ptab[:,k] mod 2))/2 * angle_k  (documented)."""
    wo = list(kw.get("wire_order") or tape.wires)
    n = len(wo)
    mon = "ir." + name
    ctx.ev(mon)
    ctx.count("programs")
    if name == "parity_matrix":
        P, ptab, angles = np.asarray(out), np.zeros((n, 0), dtype=int), np.zeros(0)
    else:
        P, ptab, angles = (np.asarray(x) for x in out)
        if ptab.size == 0:
            ptab = np.zeros((n, 0), dtype=int)
    if P.shape != (n, n):
        ctx.violation(mon, f"{name}: parity matrix shape {P.shape} for {n} wires", case=desc, mech=f"ir-shape:{name}")
        return
    U, _ = tv.unitary(list(tape.operations), wo)
    worst = 0.0
    for xi in range(2**n):
        x = np.array([int(c) for c in format(xi, f"0{n}b")], dtype=int)
        y = (P @ x) % 2
        yi = int("".join(str(int(c)) for c in y), 2)
        ph = 0.0
        if ptab.shape[1]:
            par = (x @ ptab) % 2
            ph = float((-(1 - 2 * par) / 2) @ angles)
        col = np.zeros(2**n, dtype=complex)
        col[yi] = np.exp(1j * ph)
        worst = max(worst, float(np.max(np.abs(U[:, xi] - col))))
    if not worst <= 1e-8:
        ctx.violation(mon, f"{name}: U|x> != e^(i p(x)) |P x> for the returned representation (max deviation {worst:.3e})", case=desc,
                      mech=f"ir:{name}", observed=worst)
