"""C44 — Shots specifications are interpreted consistently.

Deciding monitor: post-conditions on the real ``Shots`` constructor / operators against an expanded
Python-list model (None → analytic; otherwise the flat list of per-execution shot counts).
"""
from pv.ctx import fingerprint

META = {
    "id": "C44",
    "level": "exploration",
    "technique": "runtime post-conditions on Shots() and its operators vs. an expanded-list reference model, random specifications",
    "level_text": "Every generated shot specification is pushed through the real Shots class and every exposed view "
                  "(total_shots, iteration, shot_vector, bins, has_partitioned_shots, num_copies, +, *, eq/hash, idempotence) "
                  "is compared with a flat Python list model; invalid specifications must raise the documented ValueError.",
    "level_note": "Trusts Python list arithmetic; abstract (traced) shot values and numpy integer scalars are outside the statement and not driven.",
    "design_ref": "7/C44",
    "shards": {"quick": 2, "thorough": 16},
    "budget_s": {"quick": 40, "thorough": 300},
    "min_evals": {"quick": 2000, "thorough": 50000},
    "deciding": ["shots.views", "shots.add", "shots.mul", "shots.invalid"],
    "rule": "random specs (None | int | sequence of ints and (shots, copies) pairs, values biased to collide so adjacent "
            "merging happens); distinct = distinct spec repr; non-trivial = spec is a sequence with >= 2 entries",
    "assumptions": ["list model of the documented semantics is correct"],
}


def gen_spec(rng):
    """Returns (spec, expanded list or None)."""
    r = rng.random()
    if r < 0.05:
        return None, None
    if r < 0.15:
        n = int(rng.integers(1, 1000))
        return n, [n]
    k = int(rng.integers(1, 7))
    pool = [int(x) for x in rng.integers(1, 60, size=int(rng.integers(1, 4)))]  # few values -> adjacent repeats
    spec, flat = [], []
    for _ in range(k):
        s = int(pool[int(rng.integers(len(pool)))])
        if rng.random() < 0.45:
            c = int(rng.integers(1, 5))
            spec.append((s, c) if rng.random() < 0.7 else [s, c])
            flat += [s] * c
        else:
            spec.append(s)
            flat.append(s)
    if rng.random() < 0.5:
        spec = tuple(spec)
    return spec, flat


def rle(flat):
    out = []
    for s in flat:
        if out and out[-1][0] == s:
            out[-1][1] += 1
        else:
            out.append([s, 1])
    return [tuple(x) for x in out]


def check_views(ctx, Shots, sh, flat, what):
    ctx.ev("shots.views")
    bad = []
    if flat is None:
        if sh.total_shots is not None or sh.shot_vector != () or bool(sh) or list(sh) != [] or sh.has_partitioned_shots \
                or list(sh.bins()) != [] or sh.num_copies != 0:
            bad.append("analytic spec has non-empty views")
    else:
        if sh.total_shots != sum(flat):
            bad.append(f"total_shots {sh.total_shots} != {sum(flat)}")
        if list(sh) != flat:
            bad.append(f"iteration {list(sh)} != {flat}")
        sv = [(int(s.shots), int(s.copies)) for s in sh.shot_vector]
        if sv != rle(flat):
            bad.append(f"shot_vector {sv} != RLE {rle(flat)}")
        lo, bins = 0, []
        for s in flat:
            bins.append((lo, lo + s))
            lo += s
        if list(sh.bins()) != bins:
            bad.append(f"bins {list(sh.bins())} != {bins}")
        if bool(sh.has_partitioned_shots) != (len(flat) > 1):
            bad.append(f"has_partitioned_shots {sh.has_partitioned_shots} for {len(flat)} executions")
        if sh.num_copies != len(flat):
            bad.append(f"num_copies {sh.num_copies} != {len(flat)}")
        if not bool(sh):
            bad.append("finite-shot spec is falsy")
    if Shots(sh) is not sh:
        bad.append("Shots(Shots(x)) is not x")
    for b in bad:
        ctx.violation("shots.views", f"{what}: {b}", case={"what": what, "flat": flat, "repr": repr(sh)}, mech="views")
    return not bad


def run(ctx):
    from pennylane.measurements import Shots

    N = ctx.n(20000, 1600000)
    rng = ctx.rng
    for i in range(N):
        if i % 512 == 0 and not ctx.more():
            break
        ctx.case_index = i
        spec, flat = gen_spec(rng)
        try:
            sh = Shots(spec)
        except Exception as e:  # noqa: BLE001
            ctx.violation("shots.views", f"valid spec rejected: {type(e).__name__}: {e}", case={"spec": spec}, mech="reject-valid")
            continue
        nontriv = isinstance(spec, (list, tuple)) and len(spec) >= 2
        ctx.case(fingerprint(repr(spec)), nontrivial=nontriv, cls=type(spec).__name__,
                 sample={"spec": spec, "expanded": flat, "shot_vector": repr(sh.shot_vector)})
        check_views(ctx, Shots, sh, flat, f"Shots({spec!r})")
        # eq/hash: same expanded list built a different way must be equal with equal hash
        if flat is not None:
            alt = Shots([(s, 1) for s in flat])
            ctx.ev("shots.eqhash")
            if alt != sh or hash(alt) != hash(sh):
                ctx.violation("shots.eqhash", f"equal expanded lists but Shots differ/hash differ: {sh!r} vs {alt!r}",
                              case={"spec": spec, "flat": flat}, mech="eqhash")
        # addition = concatenation
        spec2, flat2 = gen_spec(rng)
        sh2 = Shots(spec2)
        ctx.ev("shots.add")
        try:
            tot = sh + sh2
            if flat is None:
                exp = flat2
            elif flat2 is None:
                exp = flat
            else:
                exp = flat + flat2
            check_views(ctx, Shots, tot, exp, f"Shots({spec!r})+Shots({spec2!r})")
        except Exception as e:  # noqa: BLE001
            ctx.violation("shots.add", f"addition raised {type(e).__name__}: {e}", case={"a": spec, "b": spec2}, mech="add-raise")
        # scaling
        ctx.ev("shots.mul")
        sc = [2, 3, 1, 1.5, 0.5, 2.25, 10, 0.1][int(rng.integers(8))]
        exp = None if flat is None else [int(s * sc) for s in flat]
        try:
            res = sh * sc if rng.random() < 0.5 else sc * sh
            if exp is not None and min(exp) < 1:
                ctx.violation("shots.mul", f"scaling to a non-positive shot count did not raise: {res!r}",
                              case={"spec": spec, "scalar": sc}, mech="mul-nonpositive")
            else:
                check_views(ctx, Shots, res, exp, f"Shots({spec!r})*{sc}")
        except ValueError:
            if exp is None or min(exp) >= 1:
                ctx.violation("shots.mul", "valid scaling raised ValueError", case={"spec": spec, "scalar": sc}, mech="mul-raise")
            else:
                ctx.reject("mul-to-zero")
        # invalid specifications must raise the documented ValueError
        if i % 4 == 0:
            badspec = [0, -3, 2.5, "10", [3, 0], [(5, 0)], [(5, -1)], [4, (3, 2, 1)], [2.0, 3], {"a": 1}, [[]], [(0, 2)]][int(rng.integers(12))]
            ctx.ev("shots.invalid")
            try:
                r = Shots(badspec)
                ctx.violation("shots.invalid", f"invalid spec {badspec!r} accepted as {r!r}", case={"spec": badspec}, mech="accept-invalid")
            except ValueError:
                pass
            except Exception as e:  # noqa: BLE001
                ctx.violation("shots.invalid", f"invalid spec {badspec!r} raised {type(e).__name__} instead of ValueError: {e}",
                              case={"spec": badspec}, mech="invalid-wrong-error")
