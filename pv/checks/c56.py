"""C56 — Arithmetic templates compute their documented functions.

Deciding monitor ``arith.basis``: for every template instance, EVERY computational-basis input of its documented domain (work wires
|0>) is pushed through the real code on ``default.qubit`` as one broadcast batch and the final state vector must be exactly the
basis state given by a pure-Python integer model of the documented function, with amplitude 1 (no phase) and all work wires
(provided or dynamically allocated) back in |0>.  Paths, each decided separately:

* ``native``         the template itself in the circuit (device preprocessing decomposes it)
* ``rule:<name>``    every registered decomposition rule that is applicable (``qp.list_decomps``), queued and executed
* ``decomposition``  ``op.decomposition()``
* ``native-graph``   the template on the device with the graph decomposition system enabled (rule selection path)
* ``matrix``         ``qp.matrix(op)`` columns on the domain (monitor ``arith.matrix``; small instances only)

Templates: Adder, PhaseAdder (QFT sandwich as documented), SemiAdder, OutAdder, Multiplier, OutMultiplier, SignedOutMultiplier,
ModExp, OutSquare, SignedOutSquare, OutPoly, IntegerComparator, Incrementer, TemporaryAND/Elbow (+ adjoint on its domain),
QubitCarry, QubitSum, and controlled versions of SemiAdder / Incrementer / Adder.
"""
import itertools
import math

import numpy as np

from pv.ctx import fingerprint

META = {
    "id": "C56",
    "level": "exploration",
    "technique": "exhaustive basis-state enumeration per instance through default.qubit (template, each registered rule, decomposition(), "
                 "matrix) vs. a Python integer model of the documented function (reference-model monitor)",
    "level_text": "For random register sizes, moduli, constants, polynomials, control values and interleaved wire layouts every template is "
                  "executed on all basis inputs of its documented domain; the output must be the documented integer result with amplitude 1 "
                  "and clean work wires, for the template itself and for each of its decomposition rules. Exhaustive per instance, random "
                  "over instances; held on the instances observed.",
    "level_note": "Trusts default.qubit's simulation of elementary gates (decided by C26) and numpy. Register sizes are bounded (<= 4 per "
                  "register quick, <= 5 thorough; <= 15 wires). Inputs outside the documented domain (x >= mod etc.) are not asserted. "
                  "PhaseAdder is exercised through the documented QFT - PhaseAdder - QFT^-1 sandwich, with mod <= 2^(n-1) when mod != 2^n.",
    "shards": {"quick": 3, "thorough": 16},
    "budget_s": {"quick": 100, "thorough": 480},
    "min_evals": {"quick": 1500, "thorough": 40000},
    "min_nontrivial": {"quick": 30, "thorough": 300},
    "deciding": ["arith.basis"],
    "rule": "case = (template, hyper-parameters, register sizes, wire layout); one evaluation = one (instance, path, basis input); "
            "distinct = distinct (template, hyper-parameters, sizes); non-trivial = at least 4 domain inputs and a non-identity expected map",
    "assumptions": ["integer models transcribe the docstrings"],
    "exhaustive": False,
}

ATOL = 1e-7
HEAVY = {"ModExp", "Multiplier", "OutAdder", "OutPoly", "OutMultiplier", "SignedOutMultiplier", "SignedOutSquare", "OutSquare", "PhaseAdder"}


# ------------------------------------------------------------------------------------------ helpers
def bits_of(v, n):
    return [(v >> (n - 1 - i)) & 1 for i in range(n)]


def signed(v, n):
    """two's complement value of the n-bit pattern v."""
    return v - (1 << n) if n > 0 and (v >> (n - 1)) & 1 else v


class Layout:
    """hands out wire labels from a shuffled pool so that registers are interleaved / oddly labelled."""

    def __init__(self, r):
        style = r.random()
        if style < 0.4:
            self.pool = list(range(40))
        elif style < 0.75:
            self.pool = [int(x) for x in r.permutation(40)]
        else:
            self.pool = [f"w{int(x)}" if x % 3 == 0 else int(x) for x in r.permutation(40)]
        self.i = 0

    def take(self, n):
        out = self.pool[self.i: self.i + n]
        self.i += n
        return list(out)


class Spec:
    def __init__(self, name, make, regs, work, domain, expect, hyper, pool=0, pre=None, post=None, classifier=None, matrix_ok=True):
        self.name = name            # template name
        self.make = make            # () -> operator
        self.regs = regs            # ordered list of (regname, wires) : the registers that are enumerated
        self.work = work            # provided work wires (must start and end in |0>)
        self.domain = domain        # dict regname->int  -> bool
        self.expect = expect        # dict regname->int  -> dict regname->int (missing = unchanged)
        self.hyper = hyper          # json-able description
        self.pool = pool            # number of extra device wires for dynamic allocation
        self.pre = pre              # () -> list of ops applied before every path (PhaseAdder sandwich)
        self.post = post
        self.matrix_ok = matrix_ok
        self.classifier = classifier  # (path, why, wrong_inputs, all_wrong) -> mechanism tag or None


def coprime_to(r, mod, lo=1, hi=None):
    hi = hi or max(2, 2 * mod)
    for _ in range(100):
        k = int(r.integers(lo, hi + 1))
        if math.gcd(k, mod) == 1:
            return k
    return 1


def pick_mod(r, n, allow_small=True):
    """modulus for an n-wire register: 2^n (default None / explicit), prime, or arbitrary in [2, 2^n)."""
    top = 2**n
    c = r.random()
    if c < 0.3 or top <= 2:
        return top, (None if r.random() < 0.5 else top)
    if c < 0.5:
        primes = [p for p in (2, 3, 5, 7, 11, 13, 17, 19, 23, 29, 31) if p < top]
        m = int(primes[int(r.integers(0, len(primes)))])
        return m, m
    if c < 0.65:
        return top - 1, top - 1
    m = int(r.integers(2, top))
    return m, m


# ------------------------------------------------------------------------------------------ spec builders
def build_specs(qp, r, quick):
    """returns a list of builder callables name -> Spec (each call draws a fresh random instance)."""
    maxn = 4 if quick else 5

    def adder(cap=None):
        L = Layout(r)
        n = int(r.integers(1, (cap or maxn) + 1))
        mod, mod_arg = pick_mod(r, n)
        k = int(r.integers(-2 * mod, 2 * mod + 1))
        xw = L.take(n)
        ww = L.take(2) if (mod != 2**n or r.random() < 0.2) else []
        return Spec("Adder", lambda: qp.Adder(k, xw, mod_arg, work_wires=ww), [("x", xw)], ww,
                    lambda v: v["x"] < mod, lambda v: {"x": (v["x"] + k) % mod}, {"k": k, "mod": mod, "mod_arg": mod_arg, "n": n, "nwork": len(ww)})

    def phase_adder():
        L = Layout(r)
        n = int(r.integers(1, maxn + 1))
        if n >= 2 and r.random() < 0.6:
            mod = int(r.integers(2, 2 ** (n - 1) + 1)) if 2 ** (n - 1) >= 2 else 2**n
            mod_arg = mod
        else:
            mod, mod_arg = 2**n, (None if r.random() < 0.5 else 2**n)
        if mod == 2**n:
            mod_arg = None if r.random() < 0.5 else mod
        k = int(r.integers(-2 * mod, 2 * mod + 1))
        xw = L.take(n)
        ww = L.take(1) if mod != 2**n else []

        def dom(v):
            return v["x"] < mod and (mod == 2**n or v["x"] < 2 ** (n - 1))

        return Spec("PhaseAdder", lambda: qp.PhaseAdder(k, xw, mod_arg, work_wire=ww), [("x", xw)], ww, dom,
                    lambda v: {"x": (v["x"] + k) % mod}, {"k": k, "mod": mod, "n": n},
                    pre=lambda: [qp.QFT(wires=xw)], post=lambda: [qp.adjoint(qp.QFT(wires=xw))], matrix_ok=False)

    def semi_adder(cap=None):
        L = Layout(r)
        nx, ny = int(r.integers(1, (cap or maxn) + 1)), int(r.integers(1, (cap or maxn) + 1))
        xw, yw = L.take(nx), L.take(ny)
        need = max(0, ny - 1)
        c = r.random()
        # exactly enough / none / fewer-or-one-more / surplus (valid call: surplus work wires are simply unused)
        nprov = need if c < 0.4 else (0 if c < 0.6 else (int(r.integers(0, need + 2)) if c < 0.75 else need + int(r.integers(1, 4))))
        ww = L.take(nprov)
        pool = max(0, need - nprov)
        return Spec("SemiAdder", lambda: qp.SemiAdder(xw, yw, ww if (ww or r.random() < 0.5) else None), [("x", xw), ("y", yw)], ww,
                    lambda v: True, lambda v: {"y": (v["x"] + v["y"]) % 2**ny}, {"nx": nx, "ny": ny, "nwork": nprov}, pool=pool,
                    matrix_ok=(pool == 0))

    def out_adder():
        L = Layout(r)
        m = 2 if quick else 3
        nx, ny, no = int(r.integers(1, m + 1)), int(r.integers(1, m + 1)), int(r.integers(1, m + 2))
        mod, mod_arg = pick_mod(r, no)
        xw, yw, ow = L.take(nx), L.take(ny), L.take(no)
        ww = L.take(2) if (mod != 2**no or r.random() < 0.2) else []
        return Spec("OutAdder", lambda: qp.OutAdder(xw, yw, ow, mod_arg, work_wires=ww), [("x", xw), ("y", yw), ("o", ow)], ww,
                    lambda v: v["x"] < mod and v["y"] < mod and v["o"] < mod, lambda v: {"o": (v["o"] + v["x"] + v["y"]) % mod},
                    {"nx": nx, "ny": ny, "no": no, "mod": mod, "mod_arg": mod_arg})

    def multiplier():
        L = Layout(r)
        n = int(r.integers(1, (3 if quick else 4) + 1))
        mod, mod_arg = pick_mod(r, n)
        k = coprime_to(r, mod)
        if r.random() < 0.3:
            k = -k
        xw = L.take(n)
        ww = L.take(n if mod == 2**n else n + 2)
        return Spec("Multiplier", lambda: qp.Multiplier(k, xw, mod_arg, work_wires=ww), [("x", xw)], ww,
                    lambda v: v["x"] < mod, lambda v: {"x": (v["x"] * k) % mod}, {"k": k, "mod": mod, "mod_arg": mod_arg, "n": n})

    def out_multiplier():
        L = Layout(r)
        m = 2 if quick else 3
        nx, ny, no = int(r.integers(1, m + 1)), int(r.integers(1, m + 1)), int(r.integers(1, (3 if quick else 4) + 1))
        mod, mod_arg = pick_mod(r, no)
        zeroed = bool(r.random() < 0.4)
        xw, yw, ow = L.take(nx), L.take(ny), L.take(no)
        c = r.random()
        nwork = (2 if mod != 2**no else 0) if c < 0.35 else int(r.integers(2 if mod != 2**no else 0, (no + ny + 4) if not quick else 6))
        ww = L.take(nwork)

        def dom(v):
            return v["x"] < mod and v["y"] < mod and v["o"] < mod and (not zeroed or v["o"] == 0)

        return Spec("OutMultiplier", lambda: qp.OutMultiplier(xw, yw, ow, mod_arg, work_wires=ww, output_wires_zeroed=zeroed),
                    [("x", xw), ("y", yw), ("o", ow)], ww, dom, lambda v: {"o": (v["o"] + v["x"] * v["y"]) % mod},
                    {"nx": nx, "ny": ny, "no": no, "mod": mod, "mod_arg": mod_arg, "zeroed": zeroed, "nwork": nwork}, pool=3)

    def signed_out_multiplier():
        L = Layout(r)
        nx, ny, no = int(r.integers(1, 4)), int(r.integers(1, 4)), int(r.integers(1, (3 if quick else 5) + 1))
        zeroed = bool(r.random() < 0.5)
        xw, yw, ow = L.take(nx), L.take(ny), L.take(no)
        nwork = 2 if zeroed else 2 * no + 1
        if r.random() < 0.3:
            nwork += int(r.integers(0, 3))
        ww = L.take(nwork)
        def cls_som(path, why, wrong, allwrong):
            if why.startswith("raise:") and (no == 1 or nx == 1 or ny == 1):
                return "SignedOutMultiplier:one-wire-register-raises"
            if why in ("value", "dirty-work", "superposition") and wrong:
                sx = [(signed(w["x"], nx), signed(w["y"], ny)) for w in wrong]
                if all(a * b == 0 and (a < 0) != (b < 0) for a, b in sx):
                    return "SignedOutMultiplier:negative-zero"          # 0 * negative gives -2^(k-1): the sign bit is set for a zero product
                if all(a < 0 or b < 0 for a, b in sx):
                    return "SignedOutMultiplier:negative-operand"       # also covers magnitudes computed with the broken Incrementer fallback
                if no < nx + ny:
                    return "SignedOutMultiplier:small-output-register"  # (z + xy) mod 2^|z| is documented for any size, wrong when |z| < |x| + |y|
            return None

        return Spec("SignedOutMultiplier", lambda: qp.SignedOutMultiplier(xw, yw, ow, work_wires=ww, output_wires_zeroed=zeroed),
                    [("x", xw), ("y", yw), ("o", ow)], ww, lambda v: (not zeroed or v["o"] == 0),
                    lambda v: {"o": (v["o"] + signed(v["x"], nx) * signed(v["y"], ny)) % 2**no},
                    {"nx": nx, "ny": ny, "no": no, "zeroed": zeroed, "nwork": nwork}, pool=3, classifier=cls_som)

    def mod_exp():
        L = Layout(r)
        nx, no = int(r.integers(1, 3 if quick else 4)), int(r.integers(1, 3 if quick else 4))
        mod, mod_arg = pick_mod(r, no)
        base = coprime_to(r, mod, 1, max(3, 2 * mod))
        xw, ow = L.take(nx), L.take(no)
        ww = L.take(no if mod == 2**no else no + 2)
        return Spec("ModExp", lambda: qp.ModExp(xw, ow, base, mod_arg, work_wires=ww), [("x", xw), ("o", ow)], ww,
                    lambda v: v["x"] < mod and v["o"] < mod, lambda v: {"o": (v["o"] * pow(base, v["x"], mod)) % mod if mod > 1 else 0},
                    {"nx": nx, "no": no, "mod": mod, "mod_arg": mod_arg, "base": base})

    def out_square():
        L = Layout(r)
        n, m = int(r.integers(1, 4)), int(r.integers(1, (4 if quick else 6)))
        zeroed = bool(r.random() < 0.5)
        xw, ow = L.take(n), L.take(m)
        need = min(n + 1, m) if zeroed else m
        ww = L.take(need + (int(r.integers(0, 3)) if r.random() < 0.3 else 0))
        return Spec("OutSquare", lambda: qp.OutSquare(xw, ow, ww, output_wires_zeroed=zeroed), [("x", xw), ("o", ow)], ww,
                    lambda v: (not zeroed or v["o"] == 0), lambda v: {"o": (v["o"] + v["x"] ** 2) % 2**m},
                    {"n": n, "m": m, "zeroed": zeroed, "nwork": len(ww)}, pool=3)

    def signed_out_square():
        L = Layout(r)
        n, m = int(r.integers(1, 4)), int(r.integers(1, (4 if quick else 6)))
        zeroed = bool(r.random() < 0.5)
        xw, ow = L.take(n), L.take(m)
        need = min(n, m) if zeroed else m
        ww = L.take(need + (int(r.integers(0, 3)) if r.random() < 0.3 else 0))
        def cls_sos(path, why, wrong, allwrong):
            if why.startswith("raise:") and n == 1:
                return "SignedOutSquare:one-wire-register-raises"
            if why in ("value", "dirty-work", "superposition") and wrong and all(signed(w["x"], n) < 0 for w in wrong):
                return "SignedOutSquare:negative-operand"
            return None

        return Spec("SignedOutSquare", lambda: qp.SignedOutSquare(xw, ow, ww, output_wires_zeroed=zeroed), [("x", xw), ("o", ow)], ww,
                    lambda v: (not zeroed or v["o"] == 0), lambda v: {"o": (v["o"] + signed(v["x"], n) ** 2) % 2**m},
                    {"n": n, "m": m, "zeroed": zeroed, "nwork": len(ww)}, pool=3, classifier=cls_sos)

    def out_poly():
        L = Layout(r)
        nvars = int(r.integers(1, 3 if quick else 4))
        sizes = [int(r.integers(1, 3 if nvars > 1 else 4)) for _ in range(nvars)]
        no = int(r.integers(1, 4))
        mod, mod_arg = pick_mod(r, no)
        # random integer polynomial: sum of monomials with degrees <= 2 per variable
        monos = []
        for _ in range(int(r.integers(1, 5))):
            exps = tuple(int(r.integers(0, 3)) for _ in range(nvars))
            coef = int(r.integers(-4, 5)) or 1
            monos.append((coef, exps))

        def f(*xs):
            tot = 0
            for coef, exps in monos:
                t = coef
                for x, e in zip(xs, exps):
                    t = t * x**e
                tot = tot + t
            return tot

        regs = [L.take(s) for s in sizes]
        ow = L.take(no)
        ww = L.take(2) if (mod != 2**no or r.random() < 0.2) else []
        names = [f"x{i}" for i in range(nvars)]

        def dom(v):
            return all(v[nm] < mod for nm in names) and v["o"] < mod

        const = sum(c for c, e in monos if all(x == 0 for x in e))

        def cls_poly(path, why, wrong, allwrong):
            # the constant term is added by a PhaseAdder without `mod`: wrong as soon as mod != 2^n and the constant is non-zero
            if why in ("value", "superposition", "dirty-work") and (mod != 2**no or len(ww) > 0) and const % mod != 0:
                return "OutPoly:constant-term-not-modular"
            return None

        return Spec("OutPoly", lambda: qp.OutPoly(f, regs, ow, mod=mod_arg, work_wires=ww), list(zip(names, regs)) + [("o", ow)], ww, dom,
                    lambda v: {"o": (v["o"] + f(*[v[nm] for nm in names])) % mod},
                    {"monomials": monos, "sizes": sizes, "no": no, "mod": mod, "mod_arg": mod_arg}, classifier=cls_poly)

    def comparator():
        L = Layout(r)
        n = int(r.integers(1, maxn + 2))
        value = int(r.choice([0, 1, 2**n - 1, 2**n, 2**n + 1, int(r.integers(0, 2**n + 1)), int(r.integers(0, 2**n + 1))]))
        geq = bool(r.random() < 0.5)
        cw, tw = L.take(n), L.take(1)
        nwork = int(r.integers(0, n + 1)) if r.random() < 0.6 else 0
        ww = L.take(nwork)
        kw = {"work_wires": ww} if ww else {}

        def exp(v):
            flip = (v["c"] >= value) if geq else (v["c"] < value)
            return {"t": v["t"] ^ int(flip)}

        def cls_cmp(path, why, wrong, allwrong):
            if why.startswith("raise:") and value > 2**n:   # geq=True reaches the same code through the flip_geq rule
                return "IntegerComparator:lt-value-beyond-register-raises"
            return None

        return Spec("IntegerComparator", lambda: qp.IntegerComparator(value, geq=geq, wires=cw + tw, **kw), [("c", cw), ("t", tw)], ww,
                    lambda v: True, exp, {"n": n, "value": value, "geq": geq, "nwork": nwork}, pool=0, classifier=cls_cmp)

    def incrementer(cap=None):
        L = Layout(r)
        n = int(r.integers(1, (cap or (maxn + 2)) + 1))
        xw = L.take(n)
        nwork = int(r.choice([0, max(0, n - 2), n, int(r.integers(0, n + 1))]))
        ww = L.take(nwork)
        def cls_inc(path, why, wrong, allwrong, extra_ctrl=0):
            # the fallback rule (too few work wires) never flips the most significant bit: exactly the inputs whose lower n-1 bits are all 1 fail
            if why == "value" and nwork + 1 < n + extra_ctrl and wrong and all((w["x"] + 1) % 2 ** (n - 1) == 0 for w in wrong):
                return "Incrementer:fallback-msb-not-flipped"
            return None

        sp = Spec("Incrementer", lambda: qp.Incrementer(xw, ww), [("x", xw)], ww, lambda v: True, lambda v: {"x": (v["x"] + 1) % 2**n},
                  {"n": n, "nwork": nwork}, pool=0, classifier=cls_inc)
        sp.cls_inc = cls_inc
        return sp

    def temporary_and():
        L = Layout(r)
        w = L.take(3)
        cv = (int(r.integers(0, 2)), int(r.integers(0, 2)))
        cls = qp.TemporaryAND if r.random() < 0.7 else qp.Elbow
        default = cv == (1, 1) and r.random() < 0.5
        return Spec("TemporaryAND", (lambda: cls(w)) if default else (lambda: cls(w, control_values=cv)), [("a", w[:1]), ("b", w[1:2]), ("t", w[2:])], [],
                    lambda v: v["t"] == 0, lambda v: {"t": int(v["a"] == cv[0] and v["b"] == cv[1])}, {"control_values": cv})

    def qubit_carry():
        L = Layout(r)
        w = L.take(4)
        return Spec("QubitCarry", lambda: qp.QubitCarry(wires=w), [("a", w[:1]), ("b", w[1:2]), ("c", w[2:3]), ("d", w[3:])], [],
                    lambda v: True, lambda v: {"c": v["b"] ^ v["c"], "d": (v["b"] & v["c"]) ^ v["d"] ^ ((v["b"] ^ v["c"]) & v["a"])}, {})

    def qubit_sum():
        L = Layout(r)
        w = L.take(3)
        return Spec("QubitSum", lambda: qp.QubitSum(wires=w), [("a", w[:1]), ("b", w[1:2]), ("c", w[2:])], [],
                    lambda v: True, lambda v: {"c": v["a"] ^ v["b"] ^ v["c"]}, {})

    def controlled(inner):
        def make():
            s = inner(3 if quick else 4)
            nc = int(r.integers(1, 3))
            cw = [f"ctl{i}" for i in range(nc)]
            cv = [int(r.integers(0, 2)) for _ in range(nc)]
            want = sum(b << (nc - 1 - i) for i, b in enumerate(cv))
            base_make = s.make

            def exp(v):
                return s.expect(v) if v["ctrl"] == want else {}

            def dom(v):
                return s.domain(v)

            cls = None
            if getattr(s, "cls_inc", None) is not None:
                inner_cls = s.cls_inc

                def cls(path, why, wrong, allwrong):
                    return inner_cls(path, why, wrong, allwrong, extra_ctrl=nc)

            return Spec(f"C({s.name})", lambda: qp.ctrl(base_make(), control=cw, control_values=cv), [("ctrl", cw)] + s.regs, s.work, dom, exp,
                        {**s.hyper, "control_values": cv}, pool=s.pool + 2, pre=s.pre, post=s.post, matrix_ok=False, classifier=cls)
        return make

    builders = {
        "Adder": adder, "PhaseAdder": phase_adder, "SemiAdder": semi_adder, "OutAdder": out_adder, "Multiplier": multiplier,
        "OutMultiplier": out_multiplier, "SignedOutMultiplier": signed_out_multiplier, "ModExp": mod_exp, "OutSquare": out_square,
        "SignedOutSquare": signed_out_square, "OutPoly": out_poly, "IntegerComparator": comparator, "Incrementer": incrementer,
        "TemporaryAND": temporary_and, "QubitCarry": qubit_carry, "QubitSum": qubit_sum,
        "C(SemiAdder)": controlled(semi_adder), "C(Incrementer)": controlled(incrementer), "C(Adder)": controlled(adder),
    }
    return builders


# ------------------------------------------------------------------------------------------ engine
def make_engine(ctx, qp):
    from pennylane.decomposition.utils import _get_decomp_args

    try:
        from pennylane.exceptions import AllocationError
    except Exception:  # noqa: BLE001
        class AllocationError(Exception):
            pass

    def rule_name(rule):
        for attr in ("name", "__name__"):
            v = getattr(rule, attr, None)
            if isinstance(v, str):
                return v
        impl = getattr(rule, "_impl", None)
        return getattr(impl, "__name__", repr(rule)[:40])

    def exercise(spec, r, maxN=14):
        info = {"template": spec.name, **spec.hyper, "registers": {nm: [str(w) for w in ws] for nm, ws in spec.regs}, "work": [str(w) for w in spec.work]}
        try:
            op = spec.make()
        except Exception as e:  # noqa: BLE001
            # constructor refusing a configuration: documented ValueError = rejection, anything else is a candidate
            if isinstance(e, ValueError):
                ctx.reject(f"ctor:{spec.name}")
                ctx.note_add("ctor_rejections", {"template": spec.name, "msg": str(e)[:160], **{k: v for k, v in spec.hyper.items() if k != "monomials"}}, cap=30)
                return
            ctx.violation("arith.basis", f"{spec.name}: constructor raised {type(e).__name__}: {e}", case=info, mech=f"ctor:{spec.name}")
            return
        in_wires = [w for _, ws in spec.regs for w in ws]
        sizes = [len(ws) for _, ws in spec.regs]
        names = [nm for nm, _ in spec.regs]
        nin = len(in_wires)
        base_wires = in_wires + list(spec.work)
        N0 = len(base_wires)
        if N0 > maxN:
            ctx.count("skipped_too_wide")
            return
        # domain enumeration
        dom_inputs, exp_out = [], []
        nontrivial_map = False
        for vals in itertools.product(*[range(2**s) for s in sizes]):
            v = dict(zip(names, vals))
            if not spec.domain(v):
                continue
            out = dict(v)
            out.update(spec.expect(v))
            idx_in = idx_out = 0
            for nm, s in zip(names, sizes):
                idx_in = (idx_in << s) | v[nm]
                idx_out = (idx_out << s) | (out[nm] % 2**s)
            nontrivial_map = nontrivial_map or idx_out != idx_in
            dom_inputs.append(idx_in)
            exp_out.append(idx_out)
        if not dom_inputs:
            ctx.count("empty_domain")
            return
        ctx.case(fingerprint(spec.name, sorted((k, repr(v)) for k, v in spec.hyper.items()), sizes),
                 nontrivial=(len(dom_inputs) >= 4 and nontrivial_map), cls=spec.name, sample={**info, "domain_size": len(dom_inputs)})
        dom_inputs = np.array(dom_inputs)
        exp_out = np.array(exp_out)

        def decode(idx):
            out, sh = {}, nin
            for nm, s in zip(names, sizes):
                sh -= s
                out[nm] = int((idx >> sh) & (2**s - 1))
            return out

        def run_ops(ops_fn, npool):
            """returns (B, 2^N) final states for all domain inputs on wires base_wires + pool."""
            dev_wires = base_wires + [f"_pool{i}" for i in range(npool)]
            N = len(dev_wires)
            dev = qp.device("default.qubit", wires=dev_wires)
            chunk = max(1, (1 << 20) // (1 << N))
            outs = []
            for s0 in range(0, len(dom_inputs), chunk):
                sel = dom_inputs[s0: s0 + chunk]
                if len(sel) == 1:
                    prep = qp.BasisState(np.array(bits_of(int(sel[0]), nin)), wires=in_wires)
                else:
                    batch = np.zeros((len(sel), 2**nin))
                    batch[np.arange(len(sel)), sel] = 1.0
                    prep = qp.StatePrep(batch, wires=in_wires)
                pre = spec.pre() if spec.pre else []
                post = spec.post() if spec.post else []
                tape = qp.tape.QuantumScript([prep] + pre + list(ops_fn()) + post, [qp.state()])
                res = np.asarray(qp.execute([tape], dev)[0])
                outs.append(res.reshape(len(sel), -1))
            return np.concatenate(outs, axis=0), N

        def path_kind(path):
            return path.split("#")[0]

        def judge(states, N, path):
            if states.shape[1] != 2**N:
                ctx.violation("arith.basis", f"{spec.name} [{path}]: state has dimension {states.shape[1]}, expected 2^{N}", case={**info, "path": path},
                              mech=f"shape:{spec.name}:{path_kind(path)}")
                return False
            exp_index = exp_out << (N - nin)
            amps = states[np.arange(len(exp_index)), exp_index]
            ctx.ev("arith.basis", len(exp_index))
            bad = np.nonzero(np.abs(amps - 1.0) > ATOL)[0]
            if len(bad) == 0:
                return True
            b = int(bad[0])
            got = int(np.argmax(np.abs(states[b])))
            gamp = states[b, got]
            v_in, v_exp, v_got = decode(int(dom_inputs[b])), decode(int(exp_out[b])), decode(got >> (N - nin))
            rest = got & ((1 << (N - nin)) - 1)
            if abs(abs(gamp) - 1) < ATOL and got == int(exp_index[b]):
                why, msg = "phase", f"correct basis state but amplitude {complex(gamp):.6f} (phase != 1)"
            elif abs(abs(gamp) - 1) < ATOL and (got >> (N - nin)) == int(exp_out[b]):
                why, msg = "dirty-work", f"work/auxiliary wires not restored to |0> (work bits {rest:0{max(1, N - nin)}b})"
            elif abs(abs(gamp) - 1) < ATOL:
                why, msg = "value", f"output {v_got}, documented {v_exp}"
            else:
                why, msg = "superposition", f"output is not a basis state (max |amp| = {abs(gamp):.4f} at {v_got}), documented {v_exp}"
            wrong = [decode(int(dom_inputs[i])) for i in bad[:64]]
            mech = None
            if spec.classifier is not None:
                mech = spec.classifier(path, why, wrong, len(bad) == len(exp_index))
            ctx.note_add("violation_mechs", mech or f"{why}:{spec.name}:{path_kind(path)}", cap=200)
            ctx.violation("arith.basis", f"{spec.name} [{path}] input {v_in}: {msg} ({len(bad)}/{len(exp_index)} domain inputs wrong)",
                          case={**info, "path": path, "input": v_in, "wrong_inputs": wrong[:16]},
                          observed={"registers": v_got, "work_bits": rest, "amp": complex(gamp)},
                          expected=v_exp, mech=mech or f"{why}:{spec.name}:{path_kind(path)}")
            return False

        def attempt(path, ops_fn):
            states = None
            for npool in (0, 1, 2, 3, 5, 8):
                if N0 + npool > maxN + 2:
                    ctx.count("skipped_pool_too_wide")
                    return
                try:
                    states, N = run_ops(ops_fn, npool)
                    break
                except AllocationError:
                    continue
                except Exception as e:  # noqa: BLE001
                    if type(e).__name__ == "DecompositionError" and "work wires" in str(e):
                        continue   # graph mode: not enough free device wires for dynamic allocation -> bigger pool
                    mech = None
                    if spec.classifier is not None:
                        mech = spec.classifier(path, f"raise:{type(e).__name__}", [], True)
                    ctx.note_add("violation_mechs", mech or f"raise:{spec.name}:{path_kind(path)}:{type(e).__name__}", cap=200)
                    ctx.violation("arith.basis", f"{spec.name} [{path}]: raised {type(e).__name__}: {str(e)[:300]}", case={**info, "path": path},
                                  mech=mech or f"raise:{spec.name}:{path_kind(path)}:{type(e).__name__}")
                    return
            if states is None:
                ctx.inconclusive_case(f"{spec.name} [{path}]: could not satisfy dynamic wire allocation")
                return
            ctx.cover(f"{spec.name}:{path_kind(path)}")
            judge(states, N, path)

        heavy = spec.name in HEAVY
        # ---- native
        if not heavy or r.random() < 0.5:
            attempt("native", lambda: [op])
        # ---- every applicable registered rule
        try:
            rules = list(qp.list_decomps(op))
            params, args, kwargs = _get_decomp_args(op)
        except Exception as e:  # noqa: BLE001
            rules = []
            ctx.note_add("list_decomps_errors", f"{spec.name}: {type(e).__name__}: {e}")
        for rule in rules:
            try:
                if not rule.is_applicable(**params):
                    ctx.count(f"rule_not_applicable:{spec.name}:{rule_name(rule)}")
                    continue
            except Exception:  # noqa: BLE001
                pass

            def queue_rule(rule=rule):
                with qp.queuing.AnnotatedQueue() as q:
                    rule(*args, **kwargs)
                return qp.tape.QuantumScript.from_queue(q).operations

            attempt(f"rule:{rule_name(rule)}", queue_rule)
        # ---- decomposition()
        if getattr(op, "has_decomposition", False) and not heavy and r.random() < 0.5:
            attempt("decomposition", lambda: op.decomposition())
        # ---- graph-enabled device path
        if r.random() < (0.3 if not heavy else (0.0 if ctx.quick else 0.15)):
            try:
                qp.decomposition.enable_graph()
                attempt("native-graph", lambda: [spec.make()])
            finally:
                qp.decomposition.disable_graph()
        # ---- matrix
        if spec.matrix_ok and N0 <= 9 and not spec.pre:
            N = N0
            try:
                M = np.asarray(qp.matrix(op, wire_order=base_wires))
            except Exception as e:  # noqa: BLE001
                ctx.count(f"matrix_unavailable:{spec.name}:{type(e).__name__}")
                ctx.note_add("matrix_errors", f"{spec.name}: {type(e).__name__}: {str(e)[:120]}", cap=20)
                M = None
            if M is not None:
                ctx.ev("arith.matrix")
                exp_index = exp_out << (N - nin)
                cols = M[:, dom_inputs << (N - nin)]
                amps = cols[exp_index, np.arange(len(exp_index))]
                bad = np.nonzero(np.abs(amps - 1.0) > ATOL)[0]
                if len(bad):
                    b = int(bad[0])
                    wrong = [decode(int(dom_inputs[i])) for i in bad[:64]]
                    mech = spec.classifier("matrix", "value", wrong, len(bad) == len(exp_index)) if spec.classifier else None
                    ctx.violation("arith.matrix", f"{spec.name}: qp.matrix column for input {decode(int(dom_inputs[b]))} is not the documented basis "
                                  f"state {decode(int(exp_out[b]))}", case={**info, "path": "matrix"}, mech=mech or f"matrix:{spec.name}")

    # ---- adjoint(TemporaryAND): domain = target holds a AND b; ends with target |0>  (MCM based: probabilities, not batched)
    def adjoint_and(r):
        L = Layout(r)
        w = L.take(3)
        cv = (int(r.integers(0, 2)), int(r.integers(0, 2)))
        info = {"template": "Adjoint(TemporaryAND)", "control_values": cv, "wires": [str(x) for x in w]}
        ctx.case(fingerprint("adjAND", cv), nontrivial=True, cls="Adjoint(TemporaryAND)", sample=info)
        dev = qp.device("default.qubit", wires=w)
        for a in (0, 1):
            for b in (0, 1):
                t = int(a == cv[0] and b == cv[1])
                try:
                    tape = qp.tape.QuantumScript([qp.BasisState(np.array([a, b, t]), wires=w), qp.adjoint(qp.TemporaryAND(w, control_values=cv))],
                                                 [qp.probs(wires=w)])
                    p = np.asarray(qp.execute([tape], dev)[0]).reshape(-1)
                except Exception as e:  # noqa: BLE001
                    ctx.violation("arith.basis", f"Adjoint(TemporaryAND): raised {type(e).__name__}: {str(e)[:200]}", case=info,
                                  mech=f"raise:Adjoint(TemporaryAND):native:{type(e).__name__}")
                    return
                ctx.ev("arith.basis")
                want = (a << 2) | (b << 1)
                if abs(p[want] - 1) > ATOL:
                    ctx.violation("arith.basis", f"Adjoint(TemporaryAND) on |{a}{b}{t}>: P(|{a}{b}0>) = {p[want]:.6f}", case={**info, "input": [a, b, t]},
                                  mech="value:Adjoint(TemporaryAND):native")
                    return
        ctx.cover("Adjoint(TemporaryAND):native")

    return exercise, adjoint_and


def run(ctx):
    import warnings

    import pennylane as qp

    warnings.filterwarnings("ignore")
    from pv.ref.c53_limit import limit_repeats
    limit_repeats(ctx)
    exercise, adjoint_and = make_engine(ctx, qp)
    rng = ctx.rng
    builders = build_specs(qp, rng, ctx.quick)
    names = sorted(builders)
    per = 3 if ctx.quick else 14   # instances per (light) template for this shard; heavy (QFT based) templates get about half
    order = [nm for rep in range(per) for nm in names if not (nm in HEAVY and (rep % 2 == 1 or (ctx.quick and rep > 0)))]
    for i, nm in enumerate(order):
        if not ctx.more():
            break
        ctx.case_index = i * ctx.nshards + ctx.shard
        try:
            spec = builders[nm]()
        except Exception as e:  # noqa: BLE001
            ctx.inconclusive_case(f"spec builder {nm}: {type(e).__name__}: {e}")
            continue
        exercise(spec, rng, 13 if ctx.quick else 15)
        if i % len(names) == 0:
            adjoint_and(rng)
    # exhaustive small sub-space: IntegerComparator for every value 0..2^n+1, both comparisons, n = 1..3 (boundary values)
    jobs = [(n, value, geq) for n in (1, 2, 3) for value in range(0, 2**n + 2) for geq in (True, False)]
    for (n, value, geq) in ctx.my(jobs):
        if not ctx.more():
            break
        cw, tw = list(range(n)), [n]
        nwork = (value + n) % 2
        ww = [n + 1] if nwork else []
        kw = {"work_wires": ww} if ww else {}

        def exp(v, value=value, geq=geq):
            return {"t": v["t"] ^ int((v["c"] >= value) if geq else (v["c"] < value))}

        def cls_cmp(path, why, wrong, allwrong, value=value, geq=geq, n=n):
            if why.startswith("raise:") and value > 2**n:   # geq=True reaches the same code through the flip_geq rule
                return "IntegerComparator:lt-value-beyond-register-raises"
            return None

        exercise(Spec("IntegerComparator", lambda: qp.IntegerComparator(value, geq=geq, wires=cw + tw, **kw), [("c", cw), ("t", tw)], ww,
                      lambda v: True, exp, {"n": n, "value": value, "geq": geq, "nwork": nwork, "sweep": True}, classifier=cls_cmp), rng, 13)
    for nm in names:
        if nm not in ctx.classes:
            ctx.uncovered(nm, "not reached within the budget")
