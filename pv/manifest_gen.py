"""Regenerates /verif/MANIFEST.json from the META blocks of pv/checks/cXX.py and not_applicable.json.

    /venv/bin/python -m pv.manifest_gen        (check modules import pennylane lazily, so this is fast)
"""
import glob
import importlib
import json
import os
import subprocess

ROOT = os.path.dirname(os.path.dirname(os.path.abspath(__file__)))

BASELINE_OFF = ("cd /repo && env -u PENNYLANE_VERIF /venv/bin/python -m pytest -ra -q -p no:cacheprovider --timeout=900 "
                "--continue-on-collection-errors --junitxml=/tmp/pv_baseline_off.junit.xml")


def main():
    props = [json.loads(l) for l in open(os.path.join(ROOT, "properties.jsonl"))]
    ids = [p["id"] for p in props]
    checks = []
    have = set()
    for path in sorted(p_ for p_ in glob.glob(os.path.join(ROOT, "pv", "checks", "c[0-9]*.py")) if os.path.basename(p_)[1:-3].isdigit()):
        name = os.path.basename(path)[:-3]
        mod = importlib.import_module(f"pv.checks.{name}")
        M = mod.META
        if M.get("disabled") or M["id"] in set(filter(None, os.environ.get("PV_EXCLUDE", "").split(","))):
            continue
        pid = M["id"]
        have.add(pid)
        checks.append({
            "property_id": pid,
            "quick_cmd": f"./check {pid} --tier quick",
            "thorough_cmd": f"./check {pid} --tier thorough",
            "evidence_file": f"/verif/evidence/{pid}.json",
            "replay_cmd_template": "./check --replay {path}",
            "engine": "pv",
            "level_claimed": {"category": M.get("level", "exploration"), "text": M["level_text"],
                              "design_ref": M.get("design_ref", f"7/{pid}")},
            "level_note": M["level_note"],
            "technique": M["technique"],
        })
    na_path = os.path.join(ROOT, "not_applicable.json")
    na_reasons = json.load(open(na_path)) if os.path.exists(na_path) else {}
    not_app = []
    for pid in ids:
        if pid not in have:
            not_app.append({"property_id": pid,
                            "reason": na_reasons.get(pid, "check not built yet in this session (planned in DESIGN.md section 7; not claimed until its monitor exists and is silent on the unchanged tree)")})
    try:
        hooks = subprocess.run(["git", "-C", "/repo", "log", "--format=%H %s", "--grep=^hook:"], capture_output=True, text=True).stdout.split("\n")
        hook_commits = [h.split()[0] for h in hooks if h.strip()]
    except Exception:  # noqa: BLE001
        hook_commits = []
    man = {
        "version": 1,
        "setup_cmd": "cd /verif && ./setup.sh",
        "hooks": {
            "guard": "PENNYLANE_VERIF",
            "enable": "no source hooks are needed: every monitor is attached from the harness by wrapping real classes/functions at run time; ./check exports PENNYLANE_VERIF=1 only for its own processes",
            "baseline_off_cmd": BASELINE_OFF,
            "source_commits": hook_commits,
            "add_only": True,
        },
        "engines": [{"name": "pv", "path": "/verif/pv", "serves_properties": sorted(have),
                     "kind_free_text": "runtime monitoring harness: contracts/post-conditions on the real functions, reference-model monitors, "
                                       "history recorders + offline checkers, schedule perturbation; sharded subprocess runner"}],
        "checks": checks,
        "notes": "Exit codes: 0 held on what was observed (possibly with KNOWN-FINDING lines), 1 VIOLATION, 2 INCONCLUSIVE. "
                 "VERIF_SEED / VERIF_TIER honoured. See DESIGN.md.",
        "not_applicable": not_app,
    }
    with open(os.path.join(ROOT, "MANIFEST.json"), "w") as f:
        json.dump(man, f, indent=1)
    print(f"MANIFEST.json: {len(checks)} checks, {len(not_app)} not claimed")


if __name__ == "__main__":
    main()
