"""pytest plugin: runs the repository's own (doc)tests with ambient monitors switched on — an extra, independent
workload for C18 (M-PURE) and C41 (M-QSTACK).  Used by the thorough tiers:

    cd /repo && PYTHONPATH=/verif PV_AMBIENT=pure PV_AMBIENT_OUT=<file> /venv/bin/python -m pytest -p pv.pytest_plugin doc ...

The bus is dumped to PV_AMBIENT_OUT at session end and absorbed by the calling shard.
"""
import os

_CTX = None


def pytest_configure(config):
    global _CTX
    from pv.ctx import Ctx

    which = [w for w in os.environ.get("PV_AMBIENT", "pure").split(",") if w]
    _CTX = Ctx(os.environ.get("PV_AMBIENT_PROP", "C18"), "thorough", int(os.environ.get("VERIF_SEED") or 0), 0, 1, 10**9)
    if "pure" in which:
        from pv.mon import pure
        pure.install(_CTX, wrap_post=False)
    if "qstack" in which:
        try:
            from pv.mon import qstack
            qstack.install(_CTX)
        except Exception as e:  # noqa: BLE001
            _CTX.note("qstack_install_error", repr(e))


def pytest_sessionfinish(session, exitstatus):
    out = os.environ.get("PV_AMBIENT_OUT")
    if _CTX is not None and out:
        from pv.ctx import dumps
        d = _CTX.dump()
        d["pytest_exitstatus"] = int(exitstatus)
        d["tests_collected"] = getattr(session, "testscollected", None)
        d["tests_failed"] = getattr(session, "testsfailed", None)
        with open(out, "w") as f:
            f.write(dumps(d))
