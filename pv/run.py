"""CLI of the harness.

    ./check C17 [--tier quick|thorough] [--seed N] [--jobs N]
    ./check --replay replay/C17-<fp>.json
    (internal) python -m pv.run C17 --shard K --nshards N --out FILE

A check = one parent that plans shards deterministically from VERIF_SEED and runs every shard in a
fresh subprocess (fresh import of /repo's working tree), merges their buses, matches violations with
known_findings.json, writes evidence/<id>.json and prints the verdict lines.

Exit codes: 0 held (possibly with KNOWN-FINDING lines), 1 violated, 2 inconclusive.
"""
from __future__ import annotations

import argparse
import importlib
import json
import os
import shutil
import subprocess
import sys
import threading
import time
import traceback
from concurrent.futures import ThreadPoolExecutor

ROOT = os.path.dirname(os.path.dirname(os.path.abspath(__file__)))
EVID = os.path.join(ROOT, "evidence")
REPLAY = os.path.join(ROOT, "replay")

if os.environ.get("PV_REPO"):  # developer workflow only: run against a scratch (mutated) copy
    sys.path.insert(0, os.environ["PV_REPO"])


def load_check(pid):
    return importlib.import_module(f"pv.checks.{pid.lower()}")


def meta_of(mod, tier):
    m = dict(mod.META)
    def pick(k, default):
        v = m.get(k, default)
        return v.get(tier, default) if isinstance(v, dict) else v
    def quick_of(k, default):
        v = m.get(k, default)
        return v.get("quick", default) if isinstance(v, dict) else v
    me, mn = int(pick("min_evals", 20)), int(pick("min_nontrivial", 2))
    if tier == "thorough":
        # The floors exist to detect "the deciding monitor was never reached", not to certify depth (the evidence file reports the counts).
        # Budgets are wall-clock, so the number of evaluations depends on machine load: a thorough run must not turn INCONCLUSIVE
        # merely because other jobs share the cores.  Floor = 1/8 of the value calibrated on an idle machine, never below the quick floor.
        me = max(int(quick_of("min_evals", 20)), me // 8)
        mn = max(int(quick_of("min_nontrivial", 2)), mn // 8)
    return {
        "nshards": int(os.environ.get("PV_SHARDS") or pick("shards", 1 if tier == "quick" else 8)),
        "budget_s": float(os.environ.get("PV_BUDGET") or (pick("budget_s", 60) if tier == "quick" else
                                                           min(float(pick("budget_s", 600)), float(os.environ.get("PV_THOROUGH_CAP", "200"))))),
        "min_evals": me,
        "min_nontrivial": mn,
    }


# ----------------------------------------------------------------------------- shard side
def run_shard(pid, tier, seed, shard, nshards, budget_s, out, only_case=None):
    import faulthandler

    faulthandler.enable()
    from pv.ctx import Ctx, dumps

    mod = load_check(pid)
    try:  # the soft budget starts after the (slow, load-dependent) import of the code under test
        import pennylane  # noqa: F401
    except Exception:  # noqa: BLE001 - the check itself will report it
        pass
    ctx = Ctx(pid, tier, seed, shard, nshards, budget_s, only_case=only_case)
    # generous in-process watchdog: dumps stacks (observability only), the parent's timeout decides
    faulthandler.dump_traceback_later(budget_s * 3 + 100, exit=False)
    crashed = None

    def _save(d):
        if out:
            tmp = out + f".tmp{threading.get_ident()}"
            with open(tmp, "w") as f:
                f.write(dumps(d))
            os.replace(tmp, out)

    # Hard deadline (a call into the code under test that never returns, e.g. a LAPACK routine inside quimb that no Python-level signal
    # can interrupt): well after the soft budget, but before the parent's kill, a daemon thread saves everything observed so far, records
    # the unfinished case as an inconclusive case and ends the process.  The observations of the shard are kept; the case that hung is
    # neither held nor violated.
    done = threading.Event()

    def _deadline():
        if done.wait(budget_s * 2 + 150):
            return
        try:
            ctx.inconclusive_case(f"shard {shard}: a call did not return by the hard deadline ({budget_s * 2 + 150:.0f} s); case index {getattr(ctx, 'case_index', None)}")
            ctx.count("hard_deadline_stops")
            d = ctx.dump()
            d["crashed"] = None
            d["hard_deadline_stop"] = True
            _save(d)
        finally:
            os._exit(0)

    if out:
        threading.Thread(target=_deadline, daemon=True).start()
        ctx.checkpoint_path = out + ".ckpt"
    try:
        mod.run(ctx)
    except BaseException as e:  # noqa: BLE001 - harness crash ⇒ inconclusive shard, reported
        crashed = f"{type(e).__name__}: {e}\n" + traceback.format_exc()[-3000:]
    done.set()
    faulthandler.cancel_dump_traceback_later()
    d = ctx.dump()
    d["crashed"] = crashed
    _save(d)
    return d


# ----------------------------------------------------------------------------- parent side
def _spawn(pid, tier, seed, shard, nshards, budget_s, out, timeout):
    cmd = [sys.executable, "-m", "pv.run", pid, "--tier", tier, "--seed", str(seed), "--shard", str(shard),
           "--nshards", str(nshards), "--budget", str(budget_s), "--out", out]
    log = out + ".log"
    t0 = time.monotonic()
    try:
        with open(log, "w") as lf:
            p = subprocess.run(cmd, stdout=lf, stderr=subprocess.STDOUT, timeout=timeout, cwd=ROOT)
        rc = p.returncode
    except subprocess.TimeoutExpired:
        rc = "timeout"
    dt = time.monotonic() - t0
    if os.path.exists(out):
        with open(out) as f:
            d = json.load(f)
    elif rc == "timeout" and os.path.exists(out + ".ckpt"):
        # the shard had to be killed (a call that never returned and did not release the GIL): use its last checkpoint.  Everything it
        # had observed is kept; the case it was stuck in is recorded as an inconclusive case (neither held nor violated).
        with open(out + ".ckpt") as f:
            d = json.load(f)
        d["crashed"] = None
        d["killed_after_checkpoint"] = True
        d.setdefault("inconclusive", []).append(f"shard {shard}: killed by the parent after {dt:.0f} s (a call did not return); observations up to the last checkpoint are used")
        d.setdefault("counters", {})["shards_killed_after_checkpoint"] = 1
        d["counters"]["inconclusive_cases"] = d["counters"].get("inconclusive_cases", 0) + 1
    else:
        tail = ""
        try:
            with open(log) as lf:
                tail = lf.read()[-2500:]
        except OSError:
            pass
        d = {"shard": shard, "crashed": f"shard produced no output (rc={rc}, {dt:.0f}s)\n{tail}", "missing": True}
    d["rc"] = rc
    return d


def load_known():
    p = os.path.join(ROOT, "known_findings.json")
    if not os.path.exists(p):
        return []
    with open(p) as f:
        return json.load(f).get("findings", [])


def merge(pid, mod, tier, seed, shards, cfg, wall):
    from pv.ctx import fingerprint

    M = mod.META
    evals, counters, classes, uncovered, rejections, notes, nevents = {}, {}, {}, {}, {}, {}, {}
    fps_all, fps_nt = set(), set()
    samples, events, violations, inconc, crashes = [], [], [], [], []
    ncases = nviol = 0
    stopped = 0
    for d in shards:
        if d.get("crashed"):
            crashes.append(f"shard {d.get('shard')}: {d['crashed'][-1200:]}")
        if d.get("missing"):
            continue
        for src, dst in ((d["evals"], evals), (d["counters"], counters), (d["classes"], classes),
                         (d["rejections"], rejections), (d["nevents"], nevents)):
            for k, v in src.items():
                dst[k] = dst.get(k, 0) + v
        uncovered.update(d["uncovered"])
        for k, v in d["notes"].items():
            if isinstance(v, list) and isinstance(notes.get(k), list):
                for x in v:
                    if x not in notes[k] and len(notes[k]) < 200:
                        notes[k].append(x)
            elif isinstance(v, (int, float)) and not isinstance(v, bool) and isinstance(notes.get(k), (int, float)):
                notes[k] = max(notes[k], v)
            else:
                notes.setdefault(k, v)
        fps_all.update(d["fps_all"])
        fps_nt.update(d["fps_nontrivial"])
        ncases += d["ncases"]
        nviol += d["nviolations"]
        stopped += bool(d["stopped_by_time"])
        for s in d["samples"]:
            if len(samples) < 12:
                samples.append(s)
        events.extend(d["events"][: max(4, 60 // max(1, len(shards)))])
        violations.extend(d["violations"])
        inconc.extend(d["inconclusive"])
    for c in list(uncovered):
        if c in classes:
            del uncovered[c]

    deciding = M.get("deciding") or sorted(evals)
    total_evals = sum(evals.get(m, 0) for m in deciding) if M.get("deciding") else sum(evals.values())

    # ---- classify violations against known findings (by mechanism tag)
    known = [k for k in load_known() if k.get("property") == pid]
    open_mechs = {k["mechanism"]: k for k in known if k.get("status") == "open"}
    matched, fresh = {}, {}
    for v in violations:
        mech = v.get("mech")
        if mech and mech in open_mechs:
            matched.setdefault(mech, []).append(v)
        else:
            key = (v["monitor"], mech or fingerprint(v["message"][:120]))
            fresh.setdefault(key, []).append(v)

    lines = []
    for mech, vs in matched.items():
        lines.append(f"KNOWN-FINDING: property={pid} {open_mechs[mech].get('summary', mech)} [mechanism={mech}, {len(vs)} witness(es) this run]")
    replay_paths = []
    if fresh:
        os.makedirs(REPLAY, exist_ok=True)
        for (mon, key), vs in list(fresh.items())[:10]:
            v = vs[0]
            path = os.path.join(REPLAY, f"{pid}-{fingerprint(mon, key)}.json")
            with open(path, "w") as f:
                json.dump({"property": pid, "check": f"pv.checks.{pid.lower()}", "count_this_run": len(vs), **v}, f, indent=1)
            rel = os.path.relpath(path, ROOT)
            replay_paths.append(rel)
            lines.append(f"VIOLATION property={pid} replay={rel}  # {mon}: {v['message'][:300]}")

    reasons = []
    if crashes:
        reasons.append(f"{len(crashes)} shard(s) crashed or timed out")
    missing = [m for m in (M.get("deciding") or []) if evals.get(m, 0) == 0]
    if missing:
        reasons.append("deciding monitor(s) never evaluated: " + ",".join(missing))
    if total_evals < cfg["min_evals"]:
        reasons.append(f"only {total_evals} oracle evaluations (< {cfg['min_evals']})")
    if len(fps_nt) < cfg["min_nontrivial"]:
        reasons.append(f"only {len(fps_nt)} distinct non-trivial cases (< {cfg['min_nontrivial']})")
    nrej = sum(rejections.values())
    if ncases and nrej > 0.6 * (ncases + nrej) and not M.get("allow_rejections"):
        reasons.append(f"{nrej} rejections vs {ncases} cases: generator drifted out of the domain")
    max_inc = M.get("max_inconclusive_frac", 0.25)
    if ncases and len(inconc) and counters.get("inconclusive_cases", 0) > max_inc * max(ncases, 1):
        reasons.append(f"{counters.get('inconclusive_cases')} inconclusive cases of {ncases}")

    if fresh:
        verdict, rc = "violated", 1
    elif reasons:
        verdict, rc = "inconclusive", 2
        lines.append(f"INCONCLUSIVE property={pid} reason=" + "; ".join(reasons))
    else:
        verdict, rc = "held_on_observed", 0

    level = M.get("level", "exploration")
    cov = {
        "evaluations": int(total_evals),
        "distinct_nontrivial": len(fps_nt),
        "rule": M.get("rule", ""),
        "samples": samples,
        "cases": ncases,
        "distinct_cases": len(fps_all),
        "monitors": evals,
        "counters": counters,
        "classes_covered": dict(sorted(classes.items())),
        "classes_uncovered": uncovered,
        "rejections": rejections,
        "events_counted": nevents,
        "events_sample": events[:60],
        "known_findings_matched": {m: len(v) for m, v in matched.items()},
        "inconclusive_cases": inconc[:20],
        "shards": len(shards),
        "shards_stopped_by_time_budget": stopped,
        "verdict": verdict,
        "reasons": reasons,
        "violation_replays": replay_paths,
        "crashes": crashes[:4],
    }
    cov.update({k: v for k, v in notes.items() if k not in cov})
    if level == "translation_validation":
        cov["programs"] = int(counters.get("programs", ncases))
        cov["disagreements_checked"] = int(nviol)
    if M.get("exhaustive") and not stopped and not crashes:
        cov["exhaustive"] = True
    if "explanation" in M:
        cov["explanation"] = M["explanation"]
    ev = {
        "property_id": pid,
        "tier": tier,
        "seed": int(seed),
        "level": level,
        "coverage": cov,
        "assumptions": list(M.get("assumptions", [])),
        "wall_s": round(wall, 2),
        "violations": len(fresh),
    }
    return ev, lines, rc


def run_parent(pid, tier, seed, jobs):
    from pv.ctx import dumps

    mod = load_check(pid)
    cfg = meta_of(mod, tier)
    work = os.path.join(EVID, ".work", pid, f"run-{tier}-{seed}-{os.getpid()}")  # unique per run: concurrent runs of one check do not collide
    shutil.rmtree(work, ignore_errors=True)
    os.makedirs(work, exist_ok=True)
    t0 = time.monotonic()
    n = cfg["nshards"]
    timeout = cfg["budget_s"] * 3 + 240
    if n == 1 and os.environ.get("PV_INPROC"):
        shards = [run_shard(pid, tier, seed, 0, 1, cfg["budget_s"], None)]
    else:
        with ThreadPoolExecutor(max_workers=max(1, min(jobs, n))) as ex:
            futs = [ex.submit(_spawn, pid, tier, seed, k, n, cfg["budget_s"], os.path.join(work, f"{k}.json"), timeout)
                    for k in range(n)]
            shards = [f.result() for f in futs]
    wall = time.monotonic() - t0
    ev, lines, rc = merge(pid, mod, tier, seed, shards, cfg, wall)
    os.makedirs(EVID, exist_ok=True)
    # evidence/<id>.json only ever describes /repo itself; a developer run against a scratch copy (PV_REPO) writes elsewhere
    ev_dir = os.path.join(EVID, ".work", "scratch-copy") if os.environ.get("PV_REPO") else EVID
    os.makedirs(ev_dir, exist_ok=True)
    with open(os.path.join(ev_dir, f"{pid}.json"), "w") as f:
        f.write(dumps(ev))
    if not os.environ.get("PV_KEEP_WORK"):
        shutil.rmtree(work, ignore_errors=True)
    c = ev["coverage"]
    print(f"[{pid}] tier={tier} seed={seed} shards={n} wall={wall:.1f}s cases={c['cases']} "
          f"evaluations={c['evaluations']} distinct_nontrivial={c['distinct_nontrivial']} verdict={c['verdict']}")
    print(f"[{pid}] monitors: " + ", ".join(f"{k}={v}" for k, v in sorted(c["monitors"].items())))
    for ln in lines:
        print(ln)
    sys.stdout.flush()
    return rc


def run_replay(path):
    with open(path) as f:
        w = json.load(f)
    pid = w["property"]
    mod = load_check(pid)
    cfg = meta_of(mod, w["tier"])
    d = run_shard(pid, w["tier"], w["seed"], w["shard"], w["nshards"], cfg["budget_s"], None,
                  only_case=w.get("case_index") if w.get("case_index", -1) >= 0 else None)
    same = [v for v in d["violations"] if v["monitor"] == w["monitor"] and (v.get("mech") == w.get("mech"))]
    if d.get("crashed"):
        print(f"INCONCLUSIVE property={pid} reason=replay crashed: {d['crashed'][-400:]}")
        return 2
    if same:
        v = same[0]
        print(f"VIOLATION property={pid} replay={path}  # reproduced: {v['monitor']}: {v['message'][:400]}")
        print(json.dumps(v, indent=1)[:4000])
        return 1
    others = sorted({str(v.get("mech")) for v in d["violations"]})
    print(f"[{pid}] replay: witness no longer violates ({len(d['violations'])} other violation(s) in that shard"
          + (f"; mechanisms: {others[:8]}" if others else "") + ")")
    return 0


def main(argv=None):
    ap = argparse.ArgumentParser()
    ap.add_argument("pid", nargs="?")
    ap.add_argument("--tier", default=os.environ.get("VERIF_TIER") or "quick", choices=["quick", "thorough"])
    ap.add_argument("--seed", type=int, default=int(os.environ.get("VERIF_SEED") or 0))
    ap.add_argument("--jobs", type=int, default=int(os.environ.get("PV_JOBS") or os.cpu_count() or 4))
    ap.add_argument("--shard", type=int)
    ap.add_argument("--nshards", type=int, default=1)
    ap.add_argument("--budget", type=float, default=60)
    ap.add_argument("--out")
    ap.add_argument("--only-case", type=int)
    ap.add_argument("--replay")
    a = ap.parse_args(argv)
    if a.replay:
        return run_replay(a.replay)
    if not a.pid:
        ap.error("property id required")
    pid = a.pid.upper()
    if a.shard is not None:
        d = run_shard(pid, a.tier, a.seed, a.shard, a.nshards, a.budget, a.out, only_case=a.only_case)
        if not a.out:
            from pv.ctx import dumps
            d.pop("fps_all", None); d.pop("fps_nontrivial", None)
            print(dumps(d))
        return 0
    return run_parent(pid, a.tier, a.seed, a.jobs)


if __name__ == "__main__":
    sys.exit(main())
