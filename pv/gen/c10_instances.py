"""C10/C11 instance recipes: class name -> small valid operator instances (ops and templates at their smallest sizes),
plus the symbolic variants (Adjoint / Pow / Controlled with control values, work wires and work-wire types) and the
live rule enumeration (``qp.list_decomps(instance)`` + the graph's own generator for legacy symbolic operators).

An instance is an ``Inst``: the operator plus the *domain* on which the operator is specified:
  * ``zero``   – wires of ``op.wires`` that the template documents as work/auxiliary wires starting in |0>
                 (comparison restricted to those inputs),
  * ``valid``  – optional predicate over the computational-basis input (dict wire->bit) of the remaining wires
                 (e.g. x < mod for modular arithmetic); None = all inputs,
  * ``stateprep`` – the operator is only specified on |0...0> (state preparations),
  * ``phase_free`` – documented "up to a global phase".
"""
from __future__ import annotations

import itertools

import numpy as np

from . import num
from . import ops as gops


class Inst:
    __slots__ = ("op", "zero", "valid", "stateprep", "phase_free", "tag", "note", "base", "sym", "cache", "perm")

    def __init__(self, op, zero=(), valid=None, stateprep=False, phase_free=False, tag="", note="", base=None, sym=None, perm=None):
        self.op, self.zero, self.valid, self.stateprep, self.phase_free, self.tag, self.note = \
            op, list(zero), valid, stateprep, phase_free, tag, note
        self.base, self.sym, self.cache = base, sym, {}
        self.perm = perm     # documented classical action on basis states: dict wire->bit -> dict wire->bit (independent oracle)


def _W(rng, n, off=0):
    mode = ["range", "noncontig", "str", "perm"][int(rng.integers(4))]
    if mode == "str":
        pool = ["a", "b", "c", "d", "e", "f", "g", "h", "q0", "q1", "q2", "aux", "x", "y", "z", "w", "anc", "t", "u", "v"]
        return [str(x) for x in rng.choice(pool, size=n, replace=False)]
    return num.wire_labels(rng, n, mode=mode)


def _ang(rng):
    return num.angle(rng)


def _gen(rng):
    return float(rng.uniform(-np.pi, np.pi))


def _haar(rng, d):
    from pv.ref import sv
    return sv.haar_unitary(rng, d)


def _state(rng, n, real=False):
    v = rng.normal(size=2**n) + (0 if real else 1j * rng.normal(size=2**n))
    return v / np.linalg.norm(v)


def _valid_lt(wires, bound):
    """predicate: integer encoded on ``wires`` (first = most significant) is < bound"""
    wires = list(wires)

    def f(bits):
        x = 0
        for w in wires:
            x = 2 * x + bits[w]
        return x < bound
    return f


def _rd(bits, wires):
    x = 0
    for w in wires:
        x = 2 * x + bits[w]
    return x


def _wr(bits, wires, val):
    n = len(wires)
    for k, w in enumerate(wires):
        bits[w] = (val >> (n - 1 - k)) & 1


def _perm_reg(read, write_wires, f, mod_of=None):
    """documented arithmetic: register ``write_wires`` <- f(values of the registers in ``read``) (first wire = MSB)"""
    def perm(bits):
        out = dict(bits)
        vals = [_rd(bits, r) for r in read]
        _wr(out, write_wires, f(*vals))
        return out
    return perm


def _and(*fs):
    fs = [f for f in fs if f is not None]
    if not fs:
        return None
    return lambda bits: all(f(bits) for f in fs)


# ------------------------------------------------------------------------------------------------- recipes
def recipes(qp):  # noqa: C901 - a table
    """name -> callable(rng) -> Inst | list[Inst]"""
    R = {}

    def named(name):
        def f(rng):
            op, _ = gops.make_named(qp, name, rng)
            return Inst(op)
        return f

    reg_named = [n for n in gops.NAMED if n not in ("IntegerComparator",)]
    for n in reg_named:
        R[n] = named(n)

    def int_comp(rng):
        nw = int(rng.integers(2, 5))
        w = _W(rng, nw)
        value = int(rng.integers(0, 2 ** (nw - 1) + 1))
        geq = bool(rng.integers(2))
        out = [Inst(qp.IntegerComparator(value, geq=geq, wires=w))]
        if nw >= 3 and rng.random() < 0.5:
            ww = ["wk0", "wk1"][: int(rng.integers(1, 3))]
            try:
                out.append(Inst(qp.IntegerComparator(value, geq=geq, wires=w, work_wires=ww)))
            except TypeError:
                pass
        return out
    R["IntegerComparator"] = int_comp

    def mcx(rng):
        nc = int(rng.integers(1, 6))
        w = _W(rng, nc + 1)
        cv = [int(x) for x in rng.integers(0, 2, size=nc)]
        nwk = int(rng.integers(0, 4))
        wk = [f"wk{i}" for i in range(nwk)]
        kw = {}
        if nwk:
            kw = dict(work_wires=wk, work_wire_type=["zeroed", "borrowed"][int(rng.integers(2))])
        return Inst(qp.MultiControlledX(wires=w, control_values=cv, **kw))
    R["MultiControlledX"] = mcx

    R["TmpPauliRot"] = lambda rng: (lambda n: Inst(qp.ops.qubit.special_unitary.TmpPauliRot(
        _ang(rng), "".join(rng.choice(list("XYZ"), size=n)), wires=_W(rng, n))))(int(rng.integers(1, 4)))

    def qubit_unitary(rng):
        return [Inst(qp.QubitUnitary(_haar(rng, 2**n), wires=_W(rng, n))) for n in (1, 2, int(rng.choice([3, 3, 4])))]
    R["QubitUnitary"] = qubit_unitary

    def diag_unitary(rng):
        n = int(rng.integers(1, 4))
        return Inst(qp.DiagonalQubitUnitary(np.exp(1j * rng.uniform(-np.pi, np.pi, size=2**n)), wires=_W(rng, n)))
    R["DiagonalQubitUnitary"] = diag_unitary

    def cqu(rng):
        nb = int(rng.choice([1, 1, 1, 2]))
        nc = int(rng.integers(1, 4))
        w = _W(rng, nc + nb)
        cv = [int(x) for x in rng.integers(0, 2, size=nc)]
        nwk = int(rng.integers(0, 3))
        kw = {}
        if nwk:
            kw = dict(work_wires=[f"wk{i}" for i in range(nwk)], work_wire_type=["zeroed", "borrowed"][int(rng.integers(2))])
        return Inst(qp.ControlledQubitUnitary(_haar(rng, 2**nb), wires=w, control_values=cv, **kw))
    R["ControlledQubitUnitary"] = cqu

    def basis_state(rng):
        n = int(rng.integers(1, 5))
        return Inst(qp.BasisState(rng.integers(0, 2, size=n), wires=_W(rng, n)), stateprep=True)
    R["BasisState"] = basis_state

    def state_prep(rng):
        n = int(rng.integers(1, 4))
        return Inst(qp.StatePrep(_state(rng, n), wires=_W(rng, n)), stateprep=True, phase_free=True)
    R["StatePrep"] = state_prep

    def temporary_and(rng):
        cv = [int(x) for x in rng.integers(0, 2, size=2)]
        w = _W(rng, 3)
        return Inst(qp.TemporaryAND(wires=w, control_values=cv), zero=[w[2]])
    R["TemporaryAND"] = temporary_and

    # ---------------- arithmetic-free op_math
    def prod(rng):
        w = _W(rng, 3)
        facs = [qp.RX(_ang(rng), w[0]), qp.CNOT([w[0], w[1]]), qp.S(w[2]), qp.IsingXX(_ang(rng), [w[1], w[2]]), qp.Y(w[1])]
        k = int(rng.integers(2, 5))
        idx = rng.choice(len(facs), size=k, replace=False)
        return Inst(qp.prod(*[facs[int(i)] for i in idx]))
    R["Prod"] = prod

    def change_basis(rng):
        w = _W(rng, 2)
        c = [lambda: qp.Hadamard(w[0]), lambda: qp.T(w[0]), lambda: qp.CNOT([w[0], w[1]]), lambda: qp.RY(_ang(rng), w[1])]
        t = [lambda: qp.PauliZ(w[0]), lambda: qp.RZ(_ang(rng), w[0]), lambda: qp.CRX(_ang(rng), [w[1], w[0]])]
        co = c[int(rng.integers(len(c)))]()
        to = t[int(rng.integers(len(t)))]()
        return Inst(qp.ops.op_math.ChangeOpBasis(co, to))
    R["ChangeOpBasis"] = change_basis

    def exp_op(rng):
        w = _W(rng, 2)
        gens = [lambda: qp.X(w[0]), lambda: qp.Z(w[0]) @ qp.Y(w[1]), lambda: qp.X(w[0]) @ qp.X(w[1]),
                lambda: 0.7 * qp.Z(w[0]), lambda: qp.Z(w[0]) + qp.Z(w[1])]
        g = gens[int(rng.integers(len(gens)))]()
        return Inst(qp.exp(g, 1j * _gen(rng)))
    R["Exp"] = exp_op

    def evolution(rng):
        w = _W(rng, 2)
        gens = [lambda: qp.X(w[0]), lambda: qp.Z(w[0]) @ qp.Y(w[1]), lambda: 0.5 * qp.Y(w[0]), lambda: qp.Z(w[0]) + qp.X(w[1])]
        g = gens[int(rng.integers(len(gens)))]()
        return Inst(qp.ops.Evolution(g, _gen(rng)))
    R["Evolution"] = evolution

    R["LabelledOp"] = lambda rng: Inst(__import__("pennylane.drawer.label", fromlist=["LabelledOp"]).LabelledOp(
        qp.RX(_ang(rng), _W(rng, 1)[0]), "my-label"))
    R["MarkedOp"] = lambda rng: Inst(__import__("pennylane.fourier.mark", fromlist=["MarkedOp"]).MarkedOp(
        qp.RY(_ang(rng), _W(rng, 1)[0]), "mark"))

    # ---------------- embeddings / layers
    def angle_emb(rng):
        n = int(rng.integers(1, 4))
        return Inst(qp.AngleEmbedding(features=[_ang(rng) for _ in range(n)], wires=_W(rng, n), rotation="XYZ"[int(rng.integers(3))]))
    R["AngleEmbedding"] = angle_emb

    def amp_emb(rng):
        n = int(rng.integers(1, 3))
        return Inst(qp.AmplitudeEmbedding(features=_state(rng, n), wires=_W(rng, n)), stateprep=True, phase_free=True)
    R["AmplitudeEmbedding"] = amp_emb

    def iqp_emb(rng):
        n = int(rng.integers(1, 4))
        return Inst(qp.IQPEmbedding([_gen(rng) for _ in range(n)], wires=_W(rng, n), n_repeats=int(rng.integers(1, 3))))
    R["IQPEmbedding"] = iqp_emb

    def qaoa_emb(rng):
        n = int(rng.integers(1, 4))
        L = int(rng.integers(1, 3))
        shape = qp.QAOAEmbedding.shape(n_layers=L, n_wires=n)
        return Inst(qp.QAOAEmbedding(features=[_gen(rng) for _ in range(n)], weights=rng.uniform(-3, 3, size=shape), wires=_W(rng, n),
                                     local_field="XYZ"[int(rng.integers(3))]))
    R["QAOAEmbedding"] = qaoa_emb

    def basic_ent(rng):
        n = int(rng.integers(1, 4))
        L = int(rng.integers(1, 3))
        rot = [None, qp.RY, qp.RZ][int(rng.integers(3))]
        return Inst(qp.BasicEntanglerLayers(rng.uniform(-3, 3, size=(L, n)), wires=_W(rng, n), rotation=rot))
    R["BasicEntanglerLayers"] = basic_ent

    def strongly(rng):
        n = int(rng.integers(1, 4))
        L = int(rng.integers(1, 3))
        imp = [qp.CNOT, qp.CZ][int(rng.integers(2))]
        return Inst(qp.StronglyEntanglingLayers(rng.uniform(-3, 3, size=(L, n, 3)), wires=_W(rng, n), imprimitive=imp))
    R["StronglyEntanglingLayers"] = strongly

    def simplified(rng):
        n = int(rng.integers(1, 4))
        L = int(rng.integers(1, 3))
        shapes = qp.SimplifiedTwoDesign.shape(n_layers=L, n_wires=n)
        return Inst(qp.SimplifiedTwoDesign(rng.uniform(-3, 3, size=shapes[0]), rng.uniform(-3, 3, size=shapes[1]), wires=_W(rng, n)))
    R["SimplifiedTwoDesign"] = simplified

    def gate_fabric(rng):
        L = int(rng.integers(1, 3))
        shape = qp.GateFabric.shape(n_layers=L, n_wires=4)
        return Inst(qp.GateFabric(rng.uniform(-3, 3, size=shape), wires=_W(rng, 4), init_state=[1, 1, 0, 0], include_pi=bool(rng.integers(2))),
                    stateprep=True)
    R["GateFabric"] = gate_fabric

    def pcu1(rng):
        n = int(rng.integers(2, 4))
        shape = qp.ParticleConservingU1.shape(1, n)
        init = [1] + [0] * (n - 1)
        return Inst(qp.ParticleConservingU1(rng.uniform(-3, 3, size=shape), wires=_W(rng, n), init_state=init), stateprep=True)
    R["ParticleConservingU1"] = pcu1

    def pcu2(rng):
        n = int(rng.integers(2, 4))
        shape = qp.ParticleConservingU2.shape(1, n)
        init = [1] + [0] * (n - 1)
        return Inst(qp.ParticleConservingU2(rng.uniform(-3, 3, size=shape), wires=_W(rng, n), init_state=init), stateprep=True)
    R["ParticleConservingU2"] = pcu2

    # ---------------- state preparations
    def mottonen(rng):
        n = int(rng.integers(1, 4))
        return Inst(qp.MottonenStatePreparation(_state(rng, n), wires=_W(rng, n)), stateprep=True, phase_free=True)
    R["MottonenStatePreparation"] = mottonen

    def multiplexer_sp(rng):
        n = int(rng.integers(1, 4))
        return Inst(qp.MultiplexerStatePreparation(_state(rng, n), wires=_W(rng, n)), stateprep=True, phase_free=True)
    R["MultiplexerStatePreparation"] = multiplexer_sp

    def arb_sp(rng):
        n = int(rng.integers(1, 3))
        return Inst(qp.ArbitraryStatePreparation(rng.uniform(-3, 3, size=2 ** (n + 1) - 2), wires=_W(rng, n)), stateprep=True)
    R["ArbitraryStatePreparation"] = arb_sp

    R["CosineWindow"] = lambda rng: Inst(qp.CosineWindow(wires=_W(rng, int(rng.integers(1, 4)))), stateprep=True, phase_free=True)

    def superposition(rng):
        n = int(rng.integers(2, 4))
        k = int(rng.integers(2, min(4, 2**n) + 1))
        ids = rng.choice(2**n, size=k, replace=False)
        bases = [[int(b) for b in np.binary_repr(int(i), n)] for i in ids]
        c = rng.normal(size=k)
        c = c / np.linalg.norm(c)
        w = _W(rng, n + 1)
        return Inst(qp.Superposition(c, bases=bases, wires=w[:n], work_wire=w[n]), stateprep=True, phase_free=True)
    R["Superposition"] = superposition

    def mps_prep(rng):
        # 3 sites, bond dimension 2, one work wire
        def rnd(*s):
            return rng.normal(size=s)
        mps = [rnd(2, 2), rnd(2, 2, 2), rnd(2, 2)]
        w = _W(rng, 4)
        return Inst(qp.MPSPrep(mps, wires=w[:3], work_wires=w[3:], right_canonicalize=True), stateprep=True, phase_free=True)
    R["MPSPrep"] = mps_prep

    def sos(rng):
        from pennylane.templates.state_preparations.sum_of_slaters import SumOfSlatersPrep
        n = int(rng.integers(2, 5))
        D = int(rng.integers(1, min(2**n, 4) + 1))
        ids = sorted(int(i) for i in rng.choice(2**n, size=D, replace=False))
        c = rng.normal(size=D) + 1j * rng.normal(size=D)
        c = c / np.linalg.norm(c)
        return Inst(SumOfSlatersPrep(c, _W(rng, n), indices=tuple(ids)), stateprep=True, phase_free=True)
    R["SumOfSlatersPrep"] = sos

    def partial_unary(rng):
        from pennylane.templates.state_preparations.partial_unary import PartialUnaryStatePreparation
        n = 3
        D = int(rng.integers(2, 5))
        ids = tuple(sorted(int(i) for i in rng.choice(2**n, size=D, replace=False)))
        c = rng.normal(size=D)
        c = c / np.linalg.norm(c)
        w = list(range(n))
        work = list(range(n, n + 6))
        return Inst(PartialUnaryStatePreparation(c, w, ids, work), stateprep=True, phase_free=True)
    R["PartialUnaryStatePreparation"] = partial_unary

    # ---------------- subroutines
    R["QFT"] = lambda rng: Inst(qp.QFT(wires=_W(rng, int(rng.integers(1, 5)))))

    def aqft(rng):
        n = int(rng.integers(2, 5))
        return Inst(qp.AQFT(order=int(rng.integers(1, n)), wires=_W(rng, n)))
    R["AQFT"] = aqft

    def permute(rng):
        n = int(rng.integers(2, 5))
        w = _W(rng, n)
        p = [w[int(i)] for i in rng.permutation(n)]
        if p == w:
            p = p[1:] + p[:1]
        return Inst(qp.Permute(p, wires=w))
    R["Permute"] = permute

    def flip_sign(rng):
        n = int(rng.integers(1, 4))
        return Inst(qp.FlipSign([int(b) for b in rng.integers(0, 2, size=n)], wires=_W(rng, n)))
    R["FlipSign"] = flip_sign

    def grover(rng):
        n = int(rng.integers(2, 5))
        w = _W(rng, n + 2)
        nwk = int(rng.integers(0, 3))
        return Inst(qp.GroverOperator(wires=w[:n], work_wires=w[n:n + nwk] if nwk else None), zero=w[n:n + nwk])
    R["GroverOperator"] = grover

    def arb_unitary(rng):
        n = int(rng.integers(1, 3))
        return Inst(qp.ArbitraryUnitary(rng.uniform(-3, 3, size=4**n - 1), wires=_W(rng, n)))
    R["ArbitraryUnitary"] = arb_unitary

    def approx_te(rng):
        w = _W(rng, 2)
        H = qp.Hamiltonian([_gen(rng), _gen(rng), _gen(rng)], [qp.X(w[0]), qp.Z(w[0]) @ qp.Z(w[1]), qp.Y(w[1])])
        return Inst(qp.ApproxTimeEvolution(H, _gen(rng), int(rng.integers(1, 3))))
    R["ApproxTimeEvolution"] = approx_te

    def trotter(rng):
        w = _W(rng, 2)
        H = qp.sum(_gen(rng) * qp.X(w[0]), _gen(rng) * (qp.Z(w[0]) @ qp.Z(w[1])), _gen(rng) * qp.Y(w[1]))
        return Inst(qp.TrotterProduct(H, _gen(rng), n=int(rng.integers(1, 3)), order=int(rng.choice([1, 2, 4]))))
    R["TrotterProduct"] = trotter

    def commuting(rng):
        w = _W(rng, 2)
        H = qp.Hamiltonian([2.0, 3.0], [qp.X(w[0]) @ qp.Y(w[1]), qp.Y(w[0]) @ qp.Z(w[1])])
        return Inst(qp.CommutingEvolution(H, _gen(rng), frequencies=(2, 4), shifts=None))
    R["CommutingEvolution"] = commuting

    def ctrl_seq(rng):
        nc = int(rng.integers(1, 4))
        w = _W(rng, nc + 1)
        return Inst(qp.ControlledSequence(qp.RX(_ang(rng), wires=w[nc]), control=w[:nc]))
    R["ControlledSequence"] = ctrl_seq

    def qpe(rng):
        ne = int(rng.integers(1, 3))
        w = _W(rng, ne + 1)
        return Inst(qp.QuantumPhaseEstimation(qp.RZ(_ang(rng), wires=w[0]), estimation_wires=w[1:]))
    R["QuantumPhaseEstimation"] = qpe

    def select(rng):
        nc = int(rng.integers(1, 3))
        w = _W(rng, nc + 2)
        pool = [qp.X(w[nc]), qp.RY(_ang(rng), w[nc]), qp.CNOT([w[nc], w[nc + 1]]), qp.Z(w[nc + 1]), qp.H(w[nc])]
        k = int(rng.integers(2, 2**nc + 1))
        ops_ = [pool[int(i)] for i in rng.choice(len(pool), size=k, replace=False)]
        out = [Inst(qp.Select(ops_, control=w[:nc]))]
        if nc == 2:
            out.append(Inst(qp.Select(ops_, control=w[:nc], work_wires=["wk0"]), zero=["wk0"]))
            out.append(Inst(qp.Select(ops_, control=w[:nc], partial=True), valid=_valid_lt(w[:nc], k)))
        return out
    R["Select"] = select

    def select_pauli_rot(rng):
        nc = int(rng.integers(1, 3))
        w = _W(rng, nc + 1)
        return Inst(qp.SelectPauliRot(rng.uniform(-3, 3, size=2**nc), control_wires=w[:nc], target_wire=w[nc], rot_axis="XYZ"[int(rng.integers(3))]))
    R["SelectPauliRot"] = select_pauli_rot

    def reflection(rng):
        w = _W(rng, 2)
        U = [lambda: qp.Hadamard(w[0]), lambda: qp.prod(qp.Hadamard(w[0]), qp.RY(_gen(rng), w[1]))][int(rng.integers(2))]()
        return Inst(qp.Reflection(U, _gen(rng)))
    R["Reflection"] = reflection

    def amp_amp(rng):
        w = _W(rng, 2)
        U = qp.prod(qp.Hadamard(w[0]), qp.Hadamard(w[1]))
        O = qp.FlipSign([1, 0], wires=w)
        return Inst(qp.AmplitudeAmplification(U, O, iters=int(rng.integers(1, 3))))
    R["AmplitudeAmplification"] = amp_amp

    def fable(rng):
        A = rng.uniform(-1, 1, size=(2, 2)) * 0.5
        return Inst(qp.FABLE(A, wires=_W(rng, 3), tol=0), note="block encoding")
    R["FABLE"] = fable

    def prepselprep(rng):
        w = _W(rng, 3)
        lcu = qp.dot([0.3, -0.4, 0.2], [qp.X(w[1]), qp.Z(w[1]) @ qp.Z(w[2]), qp.Y(w[2])])
        return Inst(qp.PrepSelPrep(lcu, control=[w[0], "c1"]))
    R["PrepSelPrep"] = prepselprep

    def qubitization(rng):
        w = _W(rng, 3)
        H = qp.dot([0.3, 0.4, 0.2], [qp.X(w[1]), qp.Z(w[1]) @ qp.Z(w[2]), qp.Y(w[2])])
        return Inst(qp.Qubitization(H, control=[w[0], "c1"]))
    R["Qubitization"] = qubitization

    def qsvt(rng):
        w = _W(rng, 1)
        projectors = [qp.PCPhase(_gen(rng), dim=1, wires=w), qp.PCPhase(_gen(rng), dim=1, wires=w)]
        return Inst(qp.QSVT(qp.PauliX(wires=w), projectors))
    R["QSVT"] = qsvt

    def gqsp(rng):
        w = _W(rng, 2)
        d = int(rng.integers(1, 3))
        angles = rng.uniform(-3, 3, size=(3, d + 1))
        return Inst(qp.GQSP(qp.RX(_gen(rng), w[1]), angles, control=w[0]))
    R["GQSP"] = gqsp

    def hilbert_schmidt(rng):
        V = [qp.RZ(_gen(rng), wires=2)]
        U = [qp.Hadamard(0)]
        return Inst(qp.HilbertSchmidt(V, U))
    R["HilbertSchmidt"] = hilbert_schmidt
    R["LocalHilbertSchmidt"] = lambda rng: Inst(qp.LocalHilbertSchmidt([qp.RZ(_gen(rng), wires=2), qp.RX(_gen(rng), wires=3)],
                                                                        [qp.Hadamard(0), qp.CNOT([0, 1])]))

    def qmc(rng):
        p = np.array([0.3, 0.7])
        return Inst(qp.QuantumMonteCarlo(p, lambda i: 0.4 * i + 0.2, target_wires=[0, 1], estimation_wires=[2, 3]))
    R["QuantumMonteCarlo"] = qmc

    def basis_rotation(rng):
        n = int(rng.integers(2, 4))
        if rng.random() < 0.5:
            from scipy.stats import ortho_group  # noqa: F401 - real orthogonal
            Q, _ = np.linalg.qr(rng.normal(size=(n, n)))
            U = Q
        else:
            U = _haar(rng, n)
        return Inst(qp.BasisRotation(wires=_W(rng, n), unitary_matrix=U))
    R["BasisRotation"] = basis_rotation

    R["FermionicSingleExcitation"] = lambda rng: Inst(qp.FermionicSingleExcitation(_ang(rng), wires=_W(rng, int(rng.integers(2, 5)))))

    def fde(rng):
        w = _W(rng, 4)
        return Inst(qp.FermionicDoubleExcitation(_ang(rng), wires1=w[:2], wires2=w[2:]))
    R["FermionicDoubleExcitation"] = fde

    def asd(rng):
        w = list(range(4))
        singles = [[0, 2], [1, 3]]
        doubles = [[0, 1, 2, 3]]
        return Inst(qp.AllSinglesDoubles(rng.uniform(-3, 3, size=3), w, hf_state=np.array([1, 1, 0, 0]), singles=singles, doubles=doubles),
                    stateprep=True)
    R["AllSinglesDoubles"] = asd

    def uccsd(rng):
        return Inst(qp.UCCSD(rng.uniform(-3, 3, size=3), wires=range(4), s_wires=[[0, 1, 2], [1, 2, 3]], d_wires=[[[0, 1], [2, 3]]],
                             init_state=np.array([1, 1, 0, 0])), stateprep=True)
    R["UCCSD"] = uccsd

    def kup(rng):
        shape = qp.kUpCCGSD.shape(k=1, n_wires=4, delta_sz=0)
        return Inst(qp.kUpCCGSD(rng.uniform(-3, 3, size=shape), wires=range(4), k=1, delta_sz=0, init_state=np.array([1, 1, 0, 0])),
                    stateprep=True)
    R["kUpCCGSD"] = kup

    R["FFFT"] = lambda rng: Inst(qp.FFFT(wires=_W(rng, int(rng.choice([2, 4])))))

    def iqp(rng):
        n = int(rng.integers(2, 4))
        pattern = [[[0]], [[1]], [[0, 1]]] if n == 2 else [[[0]], [[1, 2]], [[0, 2]], [[0, 1, 2]]]
        return Inst(qp.IQP(weights=rng.uniform(-3, 3, size=len(pattern)), wires=list(range(n)), pattern=pattern, spin_sym=bool(rng.integers(2))),
                    stateprep=True)
    R["IQP"] = iqp

    # ---------------- arithmetic
    def adder(rng):
        n = int(rng.integers(2, 4))
        w = _W(rng, n + 2)
        k0 = int(rng.integers(0, 2**n))
        out = [Inst(qp.Adder(k0, x_wires=w[:n]), perm=_perm_reg([w[:n]], w[:n], lambda x: (x + k0) % 2**n))]
        mod = int(rng.integers(2**(n - 1) + 1, 2**n))
        k1 = int(rng.integers(0, mod))
        out.append(Inst(qp.Adder(k1, x_wires=w[:n], mod=mod, work_wires=w[n:]), zero=w[n:], valid=_valid_lt(w[:n], mod),
                        perm=_perm_reg([w[:n]], w[:n], lambda x: (x + k1) % mod)))
        return out
    R["Adder"] = adder

    def phase_adder(rng):
        n = int(rng.integers(2, 4))
        w = _W(rng, n + 1)
        out = [Inst(qp.PhaseAdder(int(rng.integers(0, 2**n)), x_wires=w[:n]))]
        mod = int(rng.integers(2, 2**(n - 1)))if n > 2 else 2
        mod = max(mod, 2)
        # x_wires needs an extra leading zero qubit when mod != 2^n: x < mod <= 2^(n-1)
        out.append(Inst(qp.PhaseAdder(int(rng.integers(0, mod)), x_wires=w[:n], mod=mod, work_wire=w[n]), zero=[w[n]],
                        note="Fourier-basis input; compared on the full register with the work wire in |0>"))
        return out
    R["PhaseAdder"] = phase_adder

    def multiplier(rng):
        n = 2
        w = _W(rng, 2 * n + 2)
        km = int(rng.choice([1, 3]))
        out = [Inst(qp.Multiplier(km, x_wires=w[:n], work_wires=w[n:2 * n]), zero=w[n:2 * n],
                    perm=_perm_reg([w[:n]], w[:n], lambda x: (x * km) % 2**n))]
        out.append(Inst(qp.Multiplier(2, x_wires=w[:n], mod=3, work_wires=w[n:2 * n + 2]), zero=w[n:2 * n + 2], valid=_valid_lt(w[:n], 3),
                        perm=_perm_reg([w[:n]], w[:n], lambda x: (x * 2) % 3)))
        return out
    R["Multiplier"] = multiplier

    def out_adder(rng):
        w = _W(rng, 8)
        rd = [w[0:2], w[2:4], w[4:6]]
        out = [Inst(qp.OutAdder(w[0:2], w[2:4], w[4:6]), perm=_perm_reg(rd, w[4:6], lambda x, y, o: (o + x + y) % 4))]
        out.append(Inst(qp.OutAdder(w[0:2], w[2:4], w[4:6], 3, w[6:8]), zero=w[6:8],
                        valid=_and(_valid_lt(w[0:2], 3), _valid_lt(w[2:4], 3), _valid_lt(w[4:6], 3)),
                        perm=_perm_reg(rd, w[4:6], lambda x, y, o: (o + x + y) % 3)))
        return out
    R["OutAdder"] = out_adder

    def out_multiplier(rng):
        w = _W(rng, 8)
        rd = [w[0:2], w[2:4], w[4:6]]
        out = [Inst(qp.OutMultiplier(w[0:2], w[2:4], w[4:6]), perm=_perm_reg(rd, w[4:6], lambda x, y, o: (o + x * y) % 4))]
        out.append(Inst(qp.OutMultiplier(w[0:2], w[2:4], w[4:6], 3, w[6:8]), zero=w[6:8],
                        valid=_and(_valid_lt(w[0:2], 3), _valid_lt(w[2:4], 3), _valid_lt(w[4:6], 3)),
                        perm=_perm_reg(rd, w[4:6], lambda x, y, o: (o + x * y) % 3)))
        return out
    R["OutMultiplier"] = out_multiplier

    def mod_exp(rng):
        w = list(range(8))
        out = [Inst(qp.ModExp(x_wires=w[0:2], output_wires=w[2:4], base=3, work_wires=w[4:6]), zero=w[4:6])]
        return out
    R["ModExp"] = mod_exp

    def semi_adder(rng):
        nx, ny = int(rng.integers(1, 3)), int(rng.integers(2, 4))
        w = _W(rng, nx + ny + max(ny - 1, 1))
        wk = w[nx + ny:nx + ny + ny - 1]
        xw, yw = w[:nx], w[nx:nx + ny]
        return Inst(qp.SemiAdder(xw, yw, wk), zero=wk, perm=_perm_reg([xw, yw], yw, lambda x, y: (x + y) % 2**ny))
    R["SemiAdder"] = semi_adder

    def incrementer(rng):
        from pennylane.templates.subroutines.arithmetic.incrementer import Incrementer
        n = int(rng.integers(1, 5))
        w = _W(rng, n + 2)
        nwk = int(rng.integers(0, 3))
        xw = w[:n]
        return Inst(Incrementer(xw, w[n:n + nwk]), zero=w[n:n + nwk], perm=_perm_reg([xw], xw, lambda x: (x + 1) % 2**n))
    R["Incrementer"] = incrementer

    def out_poly(rng):
        f = [lambda x, y: x + y, lambda x, y: x * y + 1, lambda x, y: 2 * x + y * y][int(rng.integers(3))]
        w = list(range(8))
        return Inst(qp.OutPoly(f, input_registers=[w[0:2], w[2:3]], output_wires=w[3:5]))
    R["OutPoly"] = out_poly

    def out_square(rng):
        from pennylane.templates.subroutines.arithmetic.out_square import OutSquare
        w = list(range(8))
        z = bool(rng.integers(2))
        return Inst(OutSquare(w[0:2], w[2:5], w[5:8], z), zero=w[5:8] + (w[2:5] if z else []))
    R["OutSquare"] = out_square

    def signed_out_square(rng):
        from pennylane.templates.subroutines.arithmetic.signed_out_square import SignedOutSquare
        w = list(range(9))
        z = bool(rng.integers(2))
        return Inst(SignedOutSquare(w[0:2], w[2:5], w[5:9], z), zero=w[5:9] + (w[2:5] if z else []))
    R["SignedOutSquare"] = signed_out_square

    def signed_out_mult(rng):
        from pennylane.templates.subroutines.arithmetic.signed_out_multiplier import SignedOutMultiplier
        w = list(range(10))
        z = bool(rng.integers(2))
        return Inst(SignedOutMultiplier(w[0:2], w[2:4], w[4:8], w[8:10], z), zero=w[8:10] + (w[4:8] if z else []))
    R["SignedOutMultiplier"] = signed_out_mult

    # ---------------- QROM / QRAM
    def qrom(rng):
        nc = int(rng.integers(1, 3))
        nt = int(rng.integers(1, 3))
        k = int(rng.integers(2, 2**nc + 1))
        bs = ["".join(str(int(b)) for b in rng.integers(0, 2, size=nt)) for _ in range(k)]
        w = _W(rng, nc + nt + nt)
        out = [Inst(qp.QROM(bs, control_wires=w[:nc], target_wires=w[nc:nc + nt], work_wires=None),
                    valid=_valid_lt(w[:nc], k))]
        wk = w[nc + nt:]
        clean = bool(rng.integers(2))
        out.append(Inst(qp.QROM(bs, control_wires=w[:nc], target_wires=w[nc:nc + nt], work_wires=wk, clean=clean),
                        zero=[] if clean else wk, valid=_valid_lt(w[:nc], k)))
        return out
    R["QROM"] = qrom

    def bbqram(rng):
        w = _W(rng, 6)
        bs = [[int(rng.integers(2))], [int(rng.integers(2))]]
        return Inst(qp.BBQRAM(bs, control_wires=w[:1], target_wires=w[1:2], work_wires=w[2:6]), zero=w[2:6])
    R["BBQRAM"] = bbqram

    def hybrid_qram(rng):
        w = _W(rng, 7)
        bs = [[int(rng.integers(2))] for _ in range(4)]
        # k = 1 select bit, 1 tree bit -> work = signal + bus + 3 nodes = 5
        return Inst(qp.HybridQRAM(bs, control_wires=w[:2], target_wires=w[2:3], work_wires=w[3:7][:5] if False else (w[3:7] + ["hwk"]), k=1),
                    zero=w[3:7] + ["hwk"])
    R["HybridQRAM"] = hybrid_qram

    def select_only_qram(rng):
        w = _W(rng, 4)
        nc = int(rng.integers(1, 3))
        bs = [[int(rng.integers(2))] for _ in range(2**nc)]
        return Inst(qp.SelectOnlyQRAM(bs, control_wires=w[:nc], target_wires=w[nc:nc + 1]))
    R["SelectOnlyQRAM"] = select_only_qram

    def ffqram(rng):
        amps = rng.uniform(0.2, 0.9, size=2)
        w = _W(rng, 3)
        return Inst(qp.FFQRAM(list(amps), wires=w, address=["00", "01"]), note="contains a postselected measurement")
    R["FFQRAM"] = ffqram

    def subroutine_op(rng):
        from functools import partial

        from pennylane.templates import Subroutine

        def res(x, y, wires):
            return {qp.RX: 1, qp.RY: 1, qp.CNOT: 1}

        @partial(Subroutine, compute_resources=res)
        def PvTemplate(x, y, wires):
            qp.RX(x, wires[0])
            qp.RY(y, wires[1])
            qp.CNOT([wires[0], wires[1]])

        return Inst(PvTemplate.operator(_ang(rng), _ang(rng), _W(rng, 2)))
    R["SubroutineOp"] = subroutine_op

    return R


# ------------------------------------------------------------------------------------------------- symbolic variants
def variants(qp, inst, rng, quick=True, cap=8):
    """Adjoint / Pow / Controlled variants of a base instance (same domain restrictions; ``base``/``sym`` recorded so
    that the target can be computed by R-MAT from the base's target)."""
    op = inst.op
    out = []
    cp = dict(zero=inst.zero, valid=inst.valid, stateprep=inst.stateprep, phase_free=inst.phase_free, base=inst)
    if inst.stateprep:
        return out
    try:
        out.append(Inst(qp.adjoint(op), tag="Adjoint", sym=("adjoint",), **cp))
    except Exception:  # noqa: BLE001
        pass
    zs = [2, 3, int(rng.choice([4, 8, 9, 5])), float(rng.choice([0.5, 0.5, 0.5, -1.0, 1.5, -2.0, 0.25, 2.5, -0.5])),
          int(rng.choice([0, 1, -1, -3]))]
    for z in (zs[:4] if quick else zs):
        try:
            out.append(Inst(qp.pow(op, z), tag="Pow", sym=("pow", z), **cp))
        except Exception:  # noqa: BLE001
            pass
    used = set(op.wires)
    from pv.ref.c10_circuit import static_work_of
    used |= {w.wire for w in static_work_of(op)}

    def fresh(k, pref):
        r, i = [], 0
        while len(r) < k:
            lab = f"{pref}{i}"
            if lab not in used:
                r.append(lab)
                used.add(lab)
            i += 1
        return r
    combos = [(1, 0), (2, 0), (2, 1), (3, 0), (3, 1), (3, 2), (4, 1), (4, 2)]
    picks = [combos[int(i)] for i in rng.choice(len(combos), size=3 if quick else 6, replace=False)]
    if (1, 0) not in picks:
        picks.append((1, 0))
    nb = len(used)
    picks = [(nc, nwk) for nc, nwk in picks if nb + nc + nwk + (1 if nc > 2 else 0) <= cap] or [(1, 0)]
    for nc, nwk in picks:
        cw = fresh(nc, "c")
        cv = [int(x) for x in rng.integers(0, 2, size=nc)]
        if rng.random() < 0.3:
            cv = [1] * nc
        kw = {}
        if nwk:
            kw = dict(work_wires=fresh(nwk, "wk"), work_wire_type=["zeroed", "borrowed"][int(rng.integers(2))])
        try:
            out.append(Inst(qp.ctrl(op, control=cw, control_values=cv, **kw), tag="C", sym=("ctrl", list(cw), list(cv)), **cp))
        except Exception:  # noqa: BLE001
            pass
    return out


# ------------------------------------------------------------------------------------------------- rule enumeration
_GRAPH = {}


def rules_for(qp, op):
    """All rules the framework would consider for ``op``: ``qp.list_decomps(op)`` plus, for legacy symbolic operators,
    the generated symbolic rules from the graph's own generator.  -> list[(rule, source)]"""
    from pennylane.core.operator import abstractify

    seen, out = set(), []
    try:
        for r in qp.list_decomps(op):
            if id(r) not in seen:
                seen.add(id(r))
                out.append((r, "list_decomps"))
    except Exception:  # noqa: BLE001
        pass
    try:
        from pennylane.decomposition.decomposition_graph import DecompositionGraph

        g = _GRAPH.get("g")
        if g is None:
            g = _GRAPH["g"] = DecompositionGraph([], gate_set={"CNOT"})
        names = {r.name for r, _ in out}
        for r in g._get_decompositions(abstractify(op)):  # pylint: disable=protected-access
            if id(r) not in seen and r.name not in names:
                seen.add(id(r))
                out.append((r, "graph"))
    except Exception:  # noqa: BLE001
        pass
    return out


# ------------------------------------------------------------------------------------------------- shared workload
def registry(qp):
    from pennylane.decomposition import decomposition_rule as dr

    return dr._decompositions_private  # pylint: disable=protected-access


def reverse_registry(qp):
    rev = {}
    for key, coll in registry(qp).items():
        for r in coll:
            rev.setdefault(id(r), set()).add(key)
    return rev


def registry_key(qp, rev, rule, op):
    """The registry key under which ``rule`` is registered for ``op`` ('generated' for rules built on the fly)."""
    keys = rev.get(id(rule))
    if not keys:
        return "generated"
    if len(keys) == 1:
        return next(iter(keys))
    from pennylane.decomposition.utils import to_name

    cands = []
    try:
        cands.append(to_name(op))
    except Exception:  # noqa: BLE001
        pass
    base = getattr(op, "base", None)
    if base is not None:
        try:
            bn = to_name(base)
            cands += [f"Adjoint({bn})", f"Pow({bn})", f"C({bn})"]
        except Exception:  # noqa: BLE001
            pass
    for c in cands:
        if c in keys:
            return c
    return "shared"


def describe(inst):
    op = inst.op
    d = {"op": repr(op)[:300], "class": type(op).__name__, "wires": [repr(w) for w in op.wires][:12], "tag": inst.tag}
    try:
        d["data"] = [np.asarray(x).tolist() if np.asarray(x).size <= 8 else f"array{np.asarray(x).shape}" for x in op.data]
    except Exception:  # noqa: BLE001
        pass
    if inst.zero:
        d["zero_wires"] = [repr(w) for w in inst.zero]
    return d


def workload(ctx, qp, rounds_quick=3, rounds_thorough=10, only=None, rounds=None, start_round=0, shard_classes=True, round_step=1):
    """Yield (class name, Inst, rule, source, registry key or 'generated') for this shard.

    Pass structure (so that every class is visited before the time budget can run out): round r = for every class of
    the shard: fresh base instance(s) -> all rules; then their symbolic variants -> all rules."""
    R = recipes(qp)
    reg = registry(qp)
    rev = reverse_registry(qp)
    plain = sorted({k for k in reg if "(" not in k} | set(R))
    if only is not None:
        plain = [p for p in plain if p in only]
    mine = ctx.my(plain) if shard_classes else plain
    if rounds is None:
        rounds = rounds_quick if ctx.quick else rounds_thorough
    ci = 0
    for rnd in range(start_round, start_round + rounds * round_step, round_step):
        for phase in ("base", "variants"):
            for name in mine:
                if not ctx.more():
                    return
                rec = R.get(name)
                if rec is None:
                    if rnd == 0 and phase == "base":
                        ctx.uncovered(name, "no instance recipe")
                    continue
                ci += 1
                # same rng for base and variants phases of a round so that variants extend the same base instance
                rng = np.random.default_rng([ctx.seed, 10, 7919, _stable(name), rnd])
                try:
                    insts = rec(rng)
                except Exception as e:  # noqa: BLE001
                    ctx.inconclusive_case(f"recipe {name}: {type(e).__name__}: {e}")
                    ctx.uncovered(name, f"recipe failed: {type(e).__name__}: {str(e)[:120]}")
                    continue
                if isinstance(insts, Inst):
                    insts = [insts]
                if phase == "variants":
                    vr = np.random.default_rng([ctx.seed, 10, 7920, _stable(name), rnd])
                    base = insts
                    insts = []
                    for b in base:
                        nb = len(b.op.wires)
                        lim = (6 if ctx.quick else 7) if getattr(b.op, "has_matrix", False) else (4 if ctx.quick else 5)
                        if nb > lim:
                            ctx.count("variants_skipped_large_base")
                            continue
                        insts.extend(variants(qp, b, vr, quick=ctx.quick, cap=8 if ctx.quick else 9))
                for inst in insts:
                    rules = rules_for(qp, inst.op)
                    if not rules:
                        ctx.count("instances_without_rules")
                        continue
                    for rule, src in rules:
                        if not ctx.more():
                            return
                        key = registry_key(qp, rev, rule, inst.op)
                        ctx.case_index = ci
                        yield name, inst, rule, src, key


def _stable(name):
    return sum((i + 1) * ord(c) for i, c in enumerate(name)) % (2**31)


def report_uncovered_rules(ctx, qp, covered):
    """Registered (key, rule) pairs this shard never found applicable (merged across shards by the runner)."""
    for key, coll in registry(qp).items():
        for r in coll:
            tag = f"{key}::{r.name}"
            if tag not in covered and f"shared::{r.name}" not in covered:
                ctx.uncovered(tag, "never applicable on a generated instance (or no instance recipe)")
