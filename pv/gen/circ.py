"""G-CIRC — random circuits/tapes, pattern-biased, with JSON descriptions and deep structural fingerprints."""
from __future__ import annotations

import numpy as np

from . import num
from .ops import NAMED

ONE_Q_FIXED = ["PauliX", "PauliY", "PauliZ", "Hadamard", "S", "T", "SX"]
ONE_Q_ROT = ["RX", "RY", "RZ", "PhaseShift"]
ONE_Q_MULTI = ["Rot", "U2", "U3"]
TWO_Q_FIXED = ["CNOT", "CZ", "CY", "CH", "SWAP", "ISWAP", "SISWAP", "ECR"]
TWO_Q_ROT = ["CRX", "CRY", "CRZ", "ControlledPhaseShift", "IsingXX", "IsingYY", "IsingZZ", "IsingXY", "PSWAP",
             "SingleExcitation", "CPhaseShift00", "CPhaseShift01", "CPhaseShift10", "FermionicSWAP"]
THREE_Q = ["Toffoli", "CCZ", "CSWAP"]
DEFAULT_POOL = ONE_Q_FIXED + ONE_Q_ROT + ONE_Q_MULTI + TWO_Q_FIXED + TWO_Q_ROT + ["CRot"] + THREE_Q

INVERSE_PAIR = {"S": "adjoint", "T": "adjoint", "SX": "adjoint", "PauliX": "self", "PauliY": "self", "PauliZ": "self",
                "Hadamard": "self", "CNOT": "self", "CZ": "self", "CY": "self", "CH": "self", "SWAP": "self",
                "Toffoli": "self", "CCZ": "self", "CSWAP": "self", "ECR": "self"}


def make_gate(qp, name, rng, wires, angle=None):
    npar, nw = NAMED[name]
    ws = list(wires)[:nw]
    ps = [num.angle(rng) if angle is None else angle for _ in range(npar)]
    cls = getattr(qp, name)
    return cls(*ps, wires=ws) if npar else cls(wires=ws)


def random_ops(qp, rng, wires, n_ops, pool=None, patterns=0.35, extra=None):
    """List of operators on ``wires`` (labels).  ``patterns``: probability that the next item is a biased pattern
    (inverse pair, mergeable rotations, repeated gate, SWAP chain, adjoint/pow wrapper)."""
    pool = list(pool or DEFAULT_POOL)
    wires = list(wires)
    ops = []
    while len(ops) < n_ops:
        name = pool[int(rng.integers(len(pool)))]
        nw = NAMED[name][1]
        if nw > len(wires):
            continue
        ws = [wires[int(i)] for i in rng.choice(len(wires), size=nw, replace=False)]
        r = rng.random()
        if r < patterns:
            kind = int(rng.integers(6))
            if kind == 0 and name in INVERSE_PAIR:  # inverse pair (maybe with a commuting gate in between)
                g = make_gate(qp, name, rng, ws)
                ops.append(g)
                if rng.random() < 0.3:
                    others = [w for w in wires if w not in ws]
                    if others:
                        ops.append(qp.RZ(num.angle(rng), wires=others[0]))
                ops.append(make_gate(qp, name, rng, ws) if INVERSE_PAIR[name] == "self" else qp.adjoint(make_gate(qp, name, rng, ws)))
                continue
            if kind == 1 and NAMED[name][0] == 1:  # mergeable rotations, sometimes cancelling
                a = num.angle(rng)
                ops.append(make_gate(qp, name, rng, ws, angle=a))
                ops.append(make_gate(qp, name, rng, ws, angle=(-a if rng.random() < 0.4 else num.angle(rng))))
                continue
            if kind == 2:  # repeated gate
                g = make_gate(qp, name, rng, ws)
                ops += [g, make_gate(qp, name, rng, ws)]
                continue
            if kind == 3 and len(wires) >= 3:  # swap chain
                a, b, c = [wires[int(i)] for i in rng.choice(len(wires), size=3, replace=False)]
                ops += [qp.SWAP(wires=[a, b]), qp.SWAP(wires=[b, c])]
                continue
            if kind == 4:  # symbolic wrappers
                g = make_gate(qp, name, rng, ws)
                ops.append(qp.adjoint(g) if rng.random() < 0.6 else qp.pow(g, int(rng.integers(2, 4))))
                continue
            if kind == 5 and extra:
                ops.append(extra(qp, rng, wires))
                continue
        ops.append(make_gate(qp, name, rng, ws))
    return ops[:n_ops] if len(ops) > n_ops + 1 else ops


def pauli_word_obs(qp, rng, wires, max_len=3):
    k = int(rng.integers(1, min(max_len, len(wires)) + 1))
    ws = [wires[int(i)] for i in rng.choice(len(wires), size=k, replace=False)]
    fac = [getattr(qp, "Pauli" + "XYZ"[int(rng.integers(3))])(w) for w in ws]
    ob = fac[0]
    for f in fac[1:]:
        ob = ob @ f
    return ob


def random_observable(qp, rng, wires, allow=("pauli", "sum", "herm", "proj", "sprod")):
    kind = allow[int(rng.integers(len(allow)))]
    if kind == "pauli":
        return pauli_word_obs(qp, rng, wires)
    if kind == "sprod":
        return float(rng.normal()) * pauli_word_obs(qp, rng, wires)
    if kind == "sum":
        terms = [float(rng.normal()) * pauli_word_obs(qp, rng, wires) for _ in range(int(rng.integers(2, 5)))]
        if rng.random() < 0.3:
            terms.append(float(rng.normal()) * qp.Identity(wires[0]))
        return qp.sum(*terms)
    if kind == "herm":
        k = 1 if len(wires) < 2 or rng.random() < 0.6 else 2
        ws = [wires[int(i)] for i in rng.choice(len(wires), size=k, replace=False)]
        A = rng.normal(size=(2**k, 2**k)) + 1j * rng.normal(size=(2**k, 2**k))
        return qp.Hermitian(A + A.conj().T, wires=ws)
    if kind == "proj":
        k = 1 if len(wires) < 2 or rng.random() < 0.6 else 2
        ws = [wires[int(i)] for i in rng.choice(len(wires), size=k, replace=False)]
        return qp.Projector([int(x) for x in rng.integers(0, 2, size=k)], wires=ws)
    raise ValueError(kind)


def random_measurements(qp, rng, wires, n=None, kinds=("expval", "var", "probs", "state"), obs_kinds=("pauli", "sum", "herm", "proj", "sprod")):
    n = n or int(rng.integers(1, 4))
    out = []
    for _ in range(n):
        k = kinds[int(rng.integers(len(kinds)))]
        if k == "expval":
            out.append(qp.expval(random_observable(qp, rng, wires, obs_kinds)))
        elif k == "var":
            ok = tuple(x for x in obs_kinds if x not in ("sum",)) or ("pauli",)
            out.append(qp.var(random_observable(qp, rng, wires, ok)))
        elif k == "probs":
            m = int(rng.integers(1, len(wires) + 1))
            ws = [wires[int(i)] for i in rng.choice(len(wires), size=m, replace=False)]
            out.append(qp.probs(wires=ws))
        elif k == "state":
            if not any(type(x).__name__ == "StateMP" for x in out):
                out.append(qp.state())
        elif k == "sample":
            out.append(qp.sample(pauli_word_obs(qp, rng, wires)) if rng.random() < 0.5 else qp.sample(wires=wires[: int(rng.integers(1, len(wires) + 1))]))
        elif k == "counts":
            out.append(qp.counts(wires=wires[: int(rng.integers(1, len(wires) + 1))]))
    return out or [qp.expval(pauli_word_obs(qp, rng, wires))]


def random_tape(qp, rng, nw=None, n_ops=None, pool=None, measurements=None, label_mode=None, shots=None, patterns=0.35, kinds=("expval", "probs")):
    nw = nw or int(rng.integers(1, 5))
    wires = num.wire_labels(rng, nw, label_mode)
    n_ops = n_ops if n_ops is not None else int(rng.integers(1, 14))
    ops = random_ops(qp, rng, wires, n_ops, pool=pool, patterns=patterns)
    ms = measurements if measurements is not None else random_measurements(qp, rng, wires, kinds=kinds)
    return qp.tape.QuantumScript(ops, ms, shots=shots), wires


# ------------------------------------------------------------------ descriptions / fingerprints
def _val(x):
    try:
        a = np.asarray(x)
        if a.dtype == object:
            return repr(x)
        return (str(a.dtype), a.shape, a.tobytes())
    except Exception:  # noqa: BLE001
        return repr(x)


def op_struct(op, depth=0):
    """Deep structural description of an operator/measurement: class, exact parameter bytes, wires, hyper-parameters."""
    if depth > 12:
        return ("deep",)
    t = type(op).__name__
    if hasattr(op, "obs") and hasattr(op, "return_type") or t.endswith("MP"):
        obs = getattr(op, "obs", None)
        mv = getattr(op, "mv", None)
        ev = getattr(op, "_eigvals", None)
        return ("MP", t, op_struct(obs, depth + 1) if obs is not None else None, tuple(getattr(op, "wires", ())) if obs is None else None,
                repr(mv) if mv is not None else None, _val(ev) if ev is not None else None)
    items = []
    try:
        hp = op.hyperparameters
    except Exception:  # noqa: BLE001
        hp = {}
    for k in sorted(hp, key=str):
        v = hp[k]
        if hasattr(v, "wires") and hasattr(v, "name") and not isinstance(v, (str, bytes)):
            items.append((k, op_struct(v, depth + 1)))
        elif isinstance(v, (list, tuple)) and v and all(hasattr(e, "wires") and hasattr(e, "name") for e in v):
            items.append((k, tuple(op_struct(e, depth + 1) for e in v)))
        else:
            items.append((k, _val(v) if isinstance(v, (np.ndarray, float, int, complex, np.generic)) else repr(v)))
    try:
        data = tuple(_val(d) for d in op.data)
    except Exception:  # noqa: BLE001
        data = ("nodata",)
    return (t, getattr(op, "name", None), data, tuple(getattr(op, "wires", ())), tuple(items), getattr(op, "id", None))


def tape_struct(tape):
    return (
        tuple(op_struct(o) for o in tape.operations),
        tuple(op_struct(m) for m in tape.measurements),
        tuple(tape.trainable_params),
        repr(tape.shots),
    )


def describe_op(op):
    try:
        ps = [np.asarray(d).tolist() if np.asarray(d).size <= 8 else f"array{np.shape(d)}" for d in op.data]
    except Exception:  # noqa: BLE001
        ps = []
    return {"op": getattr(op, "name", type(op).__name__), "params": ps, "wires": list(getattr(op, "wires", []))}


def describe(tape):
    return {"ops": [describe_op(o) for o in tape.operations], "measurements": [repr(m) for m in tape.measurements],
            "shots": repr(tape.shots) if tape.shots else None}
