"""Pattern-biased circuit generators for the compiler-pass checks (C17; reused by C12/C19).

Every generator takes (qp, rng, wires, ...) and returns a list of operators.  The bias follows what each pass looks for:
inverse pairs incl. adjoint forms and permuted symmetric wires (and look-alikes that must NOT cancel), mergeable rotations
incl. Rot with singular Euler angles and angle sums 0/2π/4π, single-qubit gates next to the control/target wires of
controlled gates (all control-value patterns), single-qubit runs, SWAP chains, barriers, global phases, QubitUnitary blocks,
relative-phase Toffoli / controlled-iX patterns, Clifford+T and CNOT(+RZ) circuits.
"""
from __future__ import annotations

import math

import numpy as np

from . import num
from .circ import DEFAULT_POOL, make_gate
from .ops import NAMED

PI = math.pi
ONE_Q_FIXED = ["PauliX", "PauliY", "PauliZ", "Hadamard", "S", "T", "SX", "Identity"]
ONE_Q_ROT = ["RX", "RY", "RZ", "PhaseShift", "U1"]
ONE_Q_MULTI = ["Rot", "U2", "U3"]
CTRL_NAMED_2 = ["CNOT", "CZ", "CY", "CH", "CRX", "CRY", "CRZ", "ControlledPhaseShift", "CRot"]
CTRL_NAMED_3 = ["Toffoli", "CCZ", "CSWAP"]
SYM2 = ["CZ", "SWAP", "ISWAP", "SISWAP", "IsingXX", "IsingYY", "IsingZZ", "IsingXY", "PSWAP"]
SELF_INV = ["PauliX", "PauliY", "PauliZ", "Hadamard", "CNOT", "CZ", "CY", "CH", "SWAP", "Toffoli", "CCZ"]
COMPOSABLE = ["RX", "RY", "RZ", "PhaseShift", "CRX", "CRY", "CRZ", "ControlledPhaseShift", "IsingXX", "IsingYY", "IsingXY",
              "IsingZZ", "Rot", "SingleExcitation", "SingleExcitationMinus", "SingleExcitationPlus"]
COMPOSABLE_4 = ["DoubleExcitation", "DoubleExcitationMinus", "DoubleExcitationPlus", "OrbitalRotation"]


def pick(rng, seq):
    return seq[int(rng.integers(len(seq)))]


def some_wires(rng, wires, k):
    return [wires[int(i)] for i in rng.choice(len(wires), size=k, replace=False)]


def gate(qp, rng, name, wires, angle=None):
    """Named gate on the first NAMED[name][1] wires of ``wires`` (Identity: 1 wire)."""
    if name == "Identity":
        return qp.Identity(wires=wires[:1])
    return make_gate(qp, name, rng, wires, angle=angle)


def one_q(qp, rng, w, rich=True):
    """A single-qubit operator on wire w drawn from a wide family (named, rotations, symbolic wrappers, 1q unitaries)."""
    r = rng.random()
    if r < 0.35:
        return gate(qp, rng, pick(rng, ONE_Q_FIXED[:-1]), [w])
    if r < 0.65:
        return gate(qp, rng, pick(rng, ONE_Q_ROT), [w])
    if r < 0.8:
        return gate(qp, rng, pick(rng, ONE_Q_MULTI), [w])
    if not rich:
        return gate(qp, rng, pick(rng, ONE_Q_FIXED[:-1] + ONE_Q_ROT), [w])
    if r < 0.88:
        return qp.adjoint(gate(qp, rng, pick(rng, ["S", "T", "SX", "RX", "RZ", "PhaseShift", "Rot", "Hadamard"]), [w]))
    if r < 0.93:
        return qp.pow(gate(qp, rng, pick(rng, ["S", "T", "SX", "PauliX", "RY", "Hadamard"]), [w]), int(rng.integers(2, 5)))
    if r < 0.97:
        from pv.ref import sv
        return qp.QubitUnitary(sv.haar_unitary(rng, 2), wires=[w])
    return qp.Identity(wires=[w])


def ctrl_values(rng, k, p_all_ones=0.6):
    if rng.random() < p_all_ones:
        return [1] * k
    return [int(x) for x in rng.integers(0, 2, size=k)]


def controlled_gate(qp, rng, wires, max_w=3, rich=True):
    """A controlled operation on up to max_w wires of ``wires``: named controlled gates, MultiControlledX and generic
    qp.ctrl(...) with arbitrary control values."""
    n = len(wires)
    r = rng.random()
    if n >= 3 and max_w >= 3 and r < 0.2:
        return gate(qp, rng, pick(rng, CTRL_NAMED_3), some_wires(rng, wires, 3))
    if r < 0.6 or n < 2 or not rich:
        return gate(qp, rng, pick(rng, CTRL_NAMED_2), some_wires(rng, wires, 2))
    k = int(rng.integers(1, min(n, max_w)))  # number of controls
    ws = some_wires(rng, wires, k + 1)
    cv = ctrl_values(rng, k)
    if r < 0.72:
        return qp.MultiControlledX(wires=ws, control_values=cv)
    base_name = pick(rng, ["S", "T", "PauliX", "PauliY", "PauliZ", "Hadamard", "RX", "RY", "RZ", "PhaseShift", "SX", "Rot"])
    base = gate(qp, rng, base_name, [ws[-1]])
    if r < 0.95:
        return qp.ctrl(base, control=ws[:-1], control_values=cv)
    from pv.ref import sv
    return qp.ctrl(qp.QubitUnitary(sv.haar_unitary(rng, 2), wires=[ws[-1]]), control=ws[:-1], control_values=cv)


def any_gate(qp, rng, wires, pool=None, max_w=3):
    pool = pool or DEFAULT_POOL
    while True:
        name = pick(rng, pool)
        nw = NAMED[name][1]
        if nw is not None and nw <= min(len(wires), max_w):
            return gate(qp, rng, name, some_wires(rng, wires, nw))


# ----------------------------------------------------------------------------- pattern emitters (each returns a list)
def p_inverse_pair(qp, rng, wires):
    """Inverse pairs and look-alikes, optionally separated by a spectator gate or blocked by a gate on a shared wire."""
    n = len(wires)
    kind = int(rng.integers(9))
    a = b = None
    if kind == 0:  # self-inverse, same wires
        name = pick(rng, [g for g in SELF_INV if NAMED[g][1] <= n])
        ws = some_wires(rng, wires, NAMED[name][1])
        a, b = gate(qp, rng, name, ws), gate(qp, rng, name, ws)
    elif kind == 1:  # gate + adjoint (either order)
        name = pick(rng, [g for g in ["S", "T", "SX", "RX", "RZ", "Rot", "CRX", "IsingXX", "ISWAP", "SISWAP", "PSWAP", "CRot", "U3", "ECR", "CSWAP", "PhaseShift"]
                          if NAMED[g][1] <= n])
        ws = some_wires(rng, wires, NAMED[name][1])
        g = gate(qp, rng, name, ws)
        a, b = (g, qp.adjoint(g)) if rng.random() < 0.5 else (qp.adjoint(g), g)
        if rng.random() < 0.25 and g.num_params:  # adjoint of a *different* angle: must not cancel
            g2 = gate(qp, rng, name, ws)
            b = qp.adjoint(g2)
            a = g
    elif kind == 2 and n >= 2:  # symmetric gate with permuted wires (cancels)
        name = pick(rng, ["CZ", "SWAP"] + (["CCZ"] if n >= 3 else []))
        ws = some_wires(rng, wires, NAMED[name][1])
        a, b = gate(qp, rng, name, ws), gate(qp, rng, name, [ws[int(i)] for i in rng.permutation(len(ws))])
    elif kind == 3 and n >= 2:  # symmetric parametrised gate + adjoint on permuted wires (cancels)
        name = pick(rng, ["IsingXX", "IsingYY", "IsingZZ", "IsingXY", "PSWAP", "ISWAP", "SISWAP"])
        ws = some_wires(rng, wires, 2)
        ang = num.angle(rng)
        a = gate(qp, rng, name, ws, angle=ang)
        b = qp.adjoint(gate(qp, rng, name, ws[::-1], angle=ang))
    elif kind == 4 and n >= 2:  # NOT inverses: asymmetric gate with swapped wires
        name = pick(rng, ["CNOT", "CY", "CH"] + (["Toffoli"] if n >= 3 else []))
        ws = some_wires(rng, wires, NAMED[name][1])
        ws2 = ws[::-1] if name != "Toffoli" else ([ws[0], ws[2], ws[1]] if rng.random() < 0.5 else [ws[1], ws[0], ws[2]])
        a, b = gate(qp, rng, name, ws), gate(qp, rng, name, ws2)
    elif kind == 5 and n >= 2:  # asymmetric gate + adjoint on swapped wires: must not cancel
        name = pick(rng, ["CRX", "CRZ", "ECR", "CRot"])
        ws = some_wires(rng, wires, 2)
        ang = num.angle(rng)
        a = gate(qp, rng, name, ws, angle=ang)
        b = qp.adjoint(gate(qp, rng, name, ws[::-1], angle=ang))
    elif kind == 6 and n >= 3:  # MultiControlledX pairs, equal or different control values
        k = int(rng.integers(2, min(n, 4)))
        ws = some_wires(rng, wires, k + 1)
        cv = ctrl_values(rng, k, 0.3)
        cv2 = cv if rng.random() < 0.5 else ctrl_values(rng, k, 0.3)
        a, b = qp.MultiControlledX(wires=ws, control_values=cv), qp.MultiControlledX(wires=ws, control_values=cv2)
    elif kind == 7 and n >= 2:  # partial overlap of self-inverse gates
        ws = some_wires(rng, wires, min(3, n))
        a, b = qp.CNOT(wires=ws[:2]), qp.CNOT(wires=[ws[0], ws[-1]])
    if a is None:  # nested pair A B B† A† (recursion)
        g1 = any_gate(qp, rng, wires, ["S", "T", "SX", "Hadamard", "CNOT", "CZ", "PauliX"], 2)
        g2 = any_gate(qp, rng, wires, ["S", "T", "Hadamard", "CNOT", "SWAP", "PauliY"], 2)
        inv = lambda g: gate(qp, rng, g.name, list(g.wires)) if g.name in SELF_INV else qp.adjoint(g)  # noqa: E731
        return [g1, g2, inv(g2), inv(g1)]
    mid = []
    r = rng.random()
    others = [w for w in wires if w not in a.wires]
    if r < 0.3 and others:
        mid = [one_q(qp, rng, pick(rng, others))]
    elif r < 0.45:
        mid = [one_q(qp, rng, pick(rng, list(a.wires)))]  # blocker on a shared wire
    elif r < 0.55 and others and len(a.wires) >= 1:
        mid = [qp.CNOT(wires=[pick(rng, others), a.wires[0]])]  # blocker touching one shared wire
    return [a] + mid + [b]


def singular_rot_pair(qp, rng, w):
    """Two Rot gates around the singular points of fuse_rot_angles (|x| = 0 or 1 in the documented derivation)."""
    th = pick(rng, [0.0, PI, -PI, PI / 2, 2 * PI, float(rng.uniform(-3, 3))])
    a, b, c = [float(rng.uniform(-PI, PI)) for _ in range(3)]
    kind = int(rng.integers(7))
    if kind == 0:
        return [qp.Rot(a, th, b, wires=w), qp.Rot(-b, -th, -a, wires=w)]  # exact inverse
    if kind == 1:
        return [qp.Rot(a, th, b, wires=w), qp.Rot(PI - b, th, c, wires=w)]  # cos(omega1+phi2) = -1, equal thetas
    if kind == 2:
        return [qp.Rot(a, th, b, wires=w), qp.Rot(2 * PI - b, -th, c, wires=w)]
    if kind == 3:
        return [qp.Rot(a, 0.0, b, wires=w), qp.Rot(c, 0.0, -a - b - c, wires=w)]  # pure Z, total angle 0
    if kind == 4:
        return [qp.Rot(a, PI, b, wires=w), qp.Rot(c, PI, a, wires=w)]
    if kind == 5:
        return [qp.Rot(a, th, b, wires=w), qp.Rot(-b + pick(rng, [1e-9, -1e-9, 1e-7]), -th, -a, wires=w)]
    return [qp.Rot(0.0, th, 0.0, wires=w), qp.Rot(0.0, pick(rng, [-th, 2 * PI - th, 4 * PI - th, th]), 0.0, wires=w)]


def p_rotations(qp, rng, wires):
    """Runs of mergeable rotations (angles summing to 0 / 2π / 4π / generic), incl. Rot, controlled rotations, permuted
    wires (must not merge when the gate is not symmetric), spectators and blockers in between."""
    n = len(wires)
    pool = [g for g in COMPOSABLE + (COMPOSABLE_4 if n >= 4 else []) if NAMED[g][1] <= n]
    name = pick(rng, pool)
    nw = NAMED[name][1]
    ws = some_wires(rng, wires, nw)
    if name == "Rot" and rng.random() < 0.6:
        out = singular_rot_pair(qp, rng, ws[0])
    else:
        k = int(rng.integers(2, 5))
        if NAMED[name][0] == 1:
            angs = [num.angle(rng) for _ in range(k)]
            r = rng.random()
            if r < 0.5:
                target = pick(rng, [0.0, 2 * PI, 4 * PI, -2 * PI, 1e-9, 5e-9, 2e-8, 1e-7])
                angs[-1] = target - sum(angs[:-1])
            out = [gate(qp, rng, name, ws, angle=a) for a in angs]
        else:
            out = [gate(qp, rng, name, ws) for _ in range(k)]
    r = rng.random()
    if r < 0.15 and nw == 2:
        out[-1] = gate(qp, rng, name, ws[::-1]) if name != "Rot" else out[-1]  # permuted wires
    if r > 0.85:
        out[-1] = qp.adjoint(out[-1])
    others = [w for w in wires if w not in ws]
    r = rng.random()
    pos = int(rng.integers(1, len(out)))
    if r < 0.25 and others:
        out.insert(pos, one_q(qp, rng, pick(rng, others)))
    elif r < 0.4:
        out.insert(pos, one_q(qp, rng, pick(rng, ws)))  # blocker on a shared wire
    elif r < 0.5 and others:
        out.insert(pos, qp.CNOT(wires=[ws[-1], pick(rng, others)]))  # blocker on one shared wire
    return out


def p_commute(qp, rng, wires):
    """Single-qubit gates on the control / target wires on both sides of one or two controlled gates."""
    if len(wires) < 2:
        return [one_q(qp, rng, wires[0])]
    c1 = controlled_gate(qp, rng, wires)
    out = []
    ws = list(c1.wires)
    for _ in range(int(rng.integers(1, 3))):
        out.append(one_q(qp, rng, pick(rng, ws)))
    out.append(c1)
    if rng.random() < 0.5:
        out.append(controlled_gate(qp, rng, wires) if rng.random() < 0.5 else gate(qp, rng, c1.name, ws) if c1.name in NAMED and NAMED[c1.name][1] == len(ws) else c1)
    for _ in range(int(rng.integers(1, 3))):
        out.append(one_q(qp, rng, pick(rng, ws)))
    return out


def p_run_1q(qp, rng, wires):
    w = pick(rng, wires)
    out = [one_q(qp, rng, w) for _ in range(int(rng.integers(2, 6)))]
    if rng.random() < 0.3:  # run whose product is the identity / a pure phase
        g = one_q(qp, rng, w)
        out = [g, qp.adjoint(g)] if rng.random() < 0.5 else [qp.PauliX(w), qp.PauliY(w), qp.PauliZ(w)]
    if rng.random() < 0.3:
        out += singular_rot_pair(qp, rng, w)
    return out


def p_swaps(qp, rng, wires):
    if len(wires) < 2:
        return [one_q(qp, rng, wires[0])]
    out = []
    for _ in range(int(rng.integers(1, 4))):
        out.append(qp.SWAP(wires=some_wires(rng, wires, 2)))
        if rng.random() < 0.5:
            out.append(any_gate(qp, rng, wires, max_w=2))
    return out


def p_markers(qp, rng, wires):
    r = rng.random()
    if r < 0.4:
        k = int(rng.integers(1, len(wires) + 1))
        return [qp.Barrier(wires=some_wires(rng, wires, k), only_visual=bool(rng.integers(2)))]
    if r < 0.8:
        return [qp.GlobalPhase(num.angle(rng))] if rng.random() < 0.7 else [qp.GlobalPhase(num.angle(rng), wires=some_wires(rng, wires, 1))]
    return [qp.Identity(wires=some_wires(rng, wires, int(rng.integers(1, len(wires) + 1))))]


def p_unitary(qp, rng, wires):
    from pv.ref import sv
    k = 1 if len(wires) < 2 or rng.random() < 0.4 else 2
    ws = some_wires(rng, wires, k)
    r = rng.random()
    d = 2**k
    if r < 0.45:
        U = sv.haar_unitary(rng, d)
    elif r < 0.55:
        U = np.eye(d, dtype=complex) * np.exp(1j * rng.uniform(-3, 3))
    elif r < 0.65:
        U = np.diag(np.exp(1j * rng.uniform(-3, 3, size=d)))
    elif r < 0.75:
        U = np.eye(d, dtype=complex)[rng.permutation(d)]
    elif r < 0.9 and k == 2:
        U = np.kron(sv.haar_unitary(rng, 2), sv.haar_unitary(rng, 2))
        if rng.random() < 0.5:
            CN = np.array([[1, 0, 0, 0], [0, 1, 0, 0], [0, 0, 0, 1], [0, 0, 1, 0]], dtype=complex)
            U = U @ CN @ np.kron(sv.haar_unitary(rng, 2), sv.haar_unitary(rng, 2))
    else:
        H = np.array([[1, 1], [1, -1]], dtype=complex) / math.sqrt(2)
        U = H if k == 1 else np.kron(H, np.diag([1, 1j]))
    return [qp.QubitUnitary(U, wires=ws)]


EMITTERS = {"inverse": p_inverse_pair, "rot": p_rotations, "commute": p_commute, "run1q": p_run_1q, "swaps": p_swaps,
            "markers": p_markers, "unitary": p_unitary}


def biased_ops(qp, rng, wires, n_items, weights, pool=None, max_w=3):
    """Interleave emitters chosen with ``weights`` (dict emitter-name -> weight; key 'plain' = a random gate)."""
    keys = list(weights)
    p = np.array([weights[k] for k in keys], dtype=float)
    p = p / p.sum()
    ops = []
    for _ in range(n_items):
        k = keys[int(rng.choice(len(keys), p=p))]
        if k == "plain":
            ops.append(any_gate(qp, rng, wires, pool, max_w))
        elif k == "ctrl":
            ops.append(controlled_gate(qp, rng, wires) if len(wires) >= 2 else one_q(qp, rng, wires[0]))
        elif k == "oneq":
            ops.append(one_q(qp, rng, pick(rng, wires)))
        else:
            ops.extend(EMITTERS[k](qp, rng, wires))
    return ops


# ----------------------------------------------------------------------------- special families
def clifford_t_ops(qp, rng, wires, n_ops, extra=()):
    names = ["Hadamard", "S", "T", "PauliX", "PauliY", "PauliZ", "CNOT", "CZ", "SWAP", "adjS", "adjT", "T", "CNOT", "Hadamard"] + list(extra)
    ops = []
    for _ in range(n_ops):
        nm = pick(rng, names)
        if nm in ("adjS", "adjT"):
            ops.append(qp.adjoint(getattr(qp, nm[-1])(pick(rng, wires))))
            continue
        nw = NAMED[nm][1]
        if nw > len(wires):
            continue
        if NAMED[nm][0]:
            ang = pick(rng, [PI / 4, -PI / 4, PI / 2, PI, 3 * PI / 4, float(rng.uniform(-3, 3))]) if rng.random() < 0.6 else num.angle(rng)
            ops.append(gate(qp, rng, nm, some_wires(rng, wires, nw), angle=ang))
        else:
            ops.append(gate(qp, rng, nm, some_wires(rng, wires, nw)))
    return ops or [qp.Hadamard(wires[0])]


def cnot_rz_ops(qp, rng, wires, n_ops, p_rz=0.0):
    ops = []
    for _ in range(n_ops):
        if len(wires) >= 2 and rng.random() >= p_rz:
            ops.append(qp.CNOT(wires=some_wires(rng, wires, 2)))
        else:
            ops.append(qp.RZ(num.angle(rng), wires=pick(rng, wires)))
    return ops


def random_connected_graph(rng, n):
    """Edge list of a random connected graph on nodes 0..n-1 (path / ring / star / random tree / tree + extra edges)."""
    kind = int(rng.integers(5))
    perm = [int(x) for x in rng.permutation(n)]
    if n == 1:
        return []
    if kind == 0:
        edges = [(perm[i], perm[i + 1]) for i in range(n - 1)]
    elif kind == 1:
        edges = [(perm[i], perm[(i + 1) % n]) for i in range(n)] if n > 2 else [(perm[0], perm[1])]
    elif kind == 2:
        edges = [(perm[0], perm[i]) for i in range(1, n)]
    else:
        edges = [(perm[i], perm[int(rng.integers(i))]) for i in range(1, n)]
        if kind == 4:
            for _ in range(int(rng.integers(1, n))):
                a, b = rng.choice(n, size=2, replace=False)
                if (int(a), int(b)) not in edges and (int(b), int(a)) not in edges:
                    edges.append((int(a), int(b)))
    return [(a, b) if rng.random() < 0.5 else (b, a) for a, b in edges]
