"""G-NUM — hostile numeric inputs."""
import math

import numpy as np

SPECIAL = [0.0, math.pi / 2, -math.pi / 2, math.pi, -math.pi, 2 * math.pi, -2 * math.pi, 4 * math.pi, -4 * math.pi,
           math.pi / 4, 3 * math.pi / 2, 1e-12, -1e-12, 2 * math.pi + 1e-9, 2 * math.pi - 1e-9, math.pi + 1e-9, 1e-7]


def angle(rng, special=0.3):
    """Hostile angle: uniform(-4pi, 4pi) mixed with exact special values."""
    if rng.random() < special:
        return float(SPECIAL[int(rng.integers(len(SPECIAL)))])
    return float(rng.uniform(-4 * math.pi, 4 * math.pi))


def generic_angle(rng):
    return float(rng.uniform(-math.pi, math.pi))


def container(rng, x):
    """Same scalar in a random container type (python float / numpy 0-d / numpy scalar)."""
    r = rng.random()
    if r < 0.5:
        return float(x)
    if r < 0.75:
        return np.array(x)
    return np.float64(x)


def wire_labels(rng, n, mode=None):
    """n distinct wire labels: ints, strings, mixed, non-contiguous."""
    mode = mode or ["range", "noncontig", "str", "mixed", "perm"][int(rng.integers(5))]
    if mode == "range":
        return list(range(n))
    if mode == "perm":
        return [int(x) for x in rng.permutation(n)]
    if mode == "noncontig":
        return [int(x) for x in rng.choice(np.arange(0, 4 * n + 3), size=n, replace=False)]
    if mode == "str":
        pool = ["a", "b", "c", "q0", "q1", "aux", "x", "y", "z", "w", "anc", "t"]
        return [str(x) for x in rng.choice(pool, size=n, replace=False)]
    pool = [0, 1, 2, 3, 5, 7, "a", "b", "q", "aux", "t", "w"]
    idx = rng.choice(len(pool), size=n, replace=False)
    return [pool[int(i)] for i in idx]
