"""G-PROG — structured quantum functions as a statement AST with three renderings.

* ``run_python(qp, prog, args)``   – the *plain Python* meaning (``for … in range``, ``while``, ``if/elif/else``): the oracle.
* ``run_qp(qp, prog, args)``       – the same program written with ``qp.for_loop`` / ``qp.while_loop`` / ``qp.cond`` /
  ``qp.adjoint`` / ``qp.ctrl`` (functional form: carried values are arguments and return values), in several API styles.
* ``emit_source(prog, name)``      – Python source with native control flow (for autograph in C42).

AST (JSON-able lists):
  expr  = ["k", number] | ["v", name] | ["bin", op, a, b]   op ∈ + - * % //        | ["cmp", op, a, b]  op ∈ < <= > >= == !=
  wire  = ["w", int] | ["wd", int_expr, offset]             (int_expr + offset) % n_wires
  stmt  = ["op", name, [float_expr…], [wire…]]
        | ["set", var, expr]                                  var must be carried by the innermost enclosing construct
        | ["for", form, start, stop, step, ivar, [carried…], body, style]      form 1|2|3 = number of bound arguments
        | ["while", cond, [carried…], body]
        | ["if", [[cond, body]…], else_body | None, [carried…], style]
        | ["adjoint", body, style] | ["ctrl", body, [control wires], [control values]]
  prog  = {"n_wires": n, "args": {name: value}, "types": {var: "i"|"f"}, "stmts": […]}

Both interpreters return ``(final values of the top-level variables)`` and queue operators into the active queuing context.
"""
from __future__ import annotations

import numpy as np

OPS_1 = [("RX", 1), ("RY", 1), ("RZ", 1), ("PhaseShift", 1), ("Hadamard", 0), ("PauliX", 0), ("S", 0), ("T", 0), ("Rot", 3)]
OPS_2 = [("CNOT", 0), ("CZ", 0), ("CRY", 1), ("IsingXX", 1), ("SWAP", 0)]


# ------------------------------------------------------------------------------------------------ expressions
def ev(e, env):
    k = e[0]
    if k == "k":
        return e[1]
    if k == "v":
        return env[e[1]]
    if e[1] == "and":
        return ev(e[2], env) and ev(e[3], env)
    a, b = ev(e[2], env), ev(e[3], env)
    op = e[1]
    if op == "+":
        return a + b
    if op == "-":
        return a - b
    if op == "*":
        return a * b
    if op == "%":
        return a % b
    if op == "//":
        return a // b
    if op == "<":
        return a < b
    if op == "<=":
        return a <= b
    if op == ">":
        return a > b
    if op == ">=":
        return a >= b
    if op == "==":
        return a == b
    if op == "!=":
        return a != b
    raise ValueError(op)


def show(e):
    if e[0] == "k":
        return repr(e[1])
    if e[0] == "v":
        return e[1]
    return f"({show(e[2])} {e[1]} {show(e[3])})"


def wire_val(w, env, nw):
    if w[0] == "w":
        return w[1]
    return (ev(w[1], env) + w[2]) % nw


def wire_src(w, nw):
    if w[0] == "w":
        return repr(w[1])
    return f"(({show(w[1])} + {w[2]}) % {nw})"


# ------------------------------------------------------------------------------------------------ generator
class Gen:
    def __init__(self, rng, capture=False, max_depth=3, allow_symbolic=True, hostile_bounds=True):
        self.rng = rng
        self.capture = capture
        self.max_depth = max_depth
        self.allow_symbolic = allow_symbolic
        self.hostile = hostile_bounds and not capture
        self.counter = 0

    def fresh(self, p):
        self.counter += 1
        return f"{p}{self.counter}"

    def r(self):
        return self.rng.random()

    def ri(self, lo, hi):
        return int(self.rng.integers(lo, hi))

    def float_expr(self, fvars, ivars, depth=0):
        r = self.r()
        if depth >= 2 or r < 0.3:
            if fvars and self.r() < 0.7:
                return ["v", fvars[self.ri(0, len(fvars))]]
            return ["k", round(float(self.rng.uniform(-2, 2)), 3)]
        if r < 0.55 and ivars:
            return ["bin", "*", ["v", ivars[self.ri(0, len(ivars))]], ["k", round(float(self.rng.uniform(0.1, 0.9)), 3)]]
        op = "+-*"[self.ri(0, 3)]
        return ["bin", op, self.float_expr(fvars, ivars, depth + 1), self.float_expr(fvars, ivars, depth + 1)]

    def int_expr(self, ivars, depth=0):
        r = self.r()
        if depth >= 2 or r < 0.4 or not ivars:
            if ivars and self.r() < 0.75:
                return ["v", ivars[self.ri(0, len(ivars))]]
            return ["k", self.ri(0, 4)]
        op = ["+", "*", "-", "%"][self.ri(0, 4)]
        if op == "%":
            return ["bin", "%", self.int_expr(ivars, depth + 1), ["k", self.ri(2, 4)]]
        return ["bin", op, self.int_expr(ivars, depth + 1), ["k", self.ri(1, 3)]]

    def cond_expr(self, fvars, ivars):
        r = self.r()
        cmp = ["<", "<=", ">", ">=", "==", "!="][self.ri(0, 6)]
        if ivars and r < 0.6:
            if self.r() < 0.5:
                return ["cmp", ["==", "!="][self.ri(0, 2)], ["bin", "%", ["v", ivars[self.ri(0, len(ivars))]], ["k", self.ri(2, 4)]], ["k", self.ri(0, 2)]]
            return ["cmp", cmp, self.int_expr(ivars, 1), ["k", self.ri(0, 4)]]
        if fvars:
            return ["cmp", ["<", ">", "<=", ">="][self.ri(0, 4)], ["v", fvars[self.ri(0, len(fvars))]], ["k", round(float(self.rng.uniform(-1, 2)), 2)]]
        return ["cmp", cmp, ["k", self.ri(0, 3)], ["k", self.ri(0, 3)]]

    def op_stmt(self, nw, fvars, ivars):
        two = self.r() < 0.35
        name, npar = (OPS_2 if two else OPS_1)[self.ri(0, len(OPS_2 if two else OPS_1))]
        ps = [self.float_expr(fvars, ivars) for _ in range(npar)]
        if ivars and self.r() < 0.5:
            ie = ["v", ivars[self.ri(0, len(ivars))]] if self.r() < 0.7 else self.int_expr(ivars, 1)
            off = self.ri(0, nw)
            ws = [["wd", ie, off]] + ([["wd", ie, off + 1 + self.ri(0, nw - 1)]] if two else [])
        else:
            idx = [int(x) for x in self.rng.choice(nw, size=2 if two else 1, replace=False)]
            ws = [["w", i] for i in idx]
        return ["op", name, ps, ws]

    def block(self, nw, fvars, ivars, settable, depth, n_stmts=None):
        """settable: variables that may be assigned here (carried by the innermost construct / top-level vars)."""
        out = []
        n = n_stmts or self.ri(1, 4)
        for _ in range(n):
            r = self.r()
            if depth >= self.max_depth or r < 0.45:
                out.append(self.op_stmt(nw, fvars, ivars))
            elif r < 0.55 and settable:
                v = settable[self.ri(0, len(settable))]
                out.append(["set", v, self.update_expr(v, fvars, ivars)])
            elif r < 0.72:
                out.append(self.for_stmt(nw, fvars, ivars, settable, depth))
            elif r < 0.80:
                out.append(self.while_stmt(nw, fvars, ivars, settable, depth))
            elif r < 0.93 or not self.allow_symbolic:
                out.append(self.if_stmt(nw, fvars, ivars, settable, depth))
            else:
                out.append(self.symbolic_stmt(nw, fvars, ivars, depth))
        return out

    def update_expr(self, v, fvars, ivars):
        if self.types[v] == "f":
            c = round(float(self.rng.uniform(0.2, 1.5)), 2)
            k = round(float(self.rng.uniform(-0.5, 0.5)), 2)
            base = ["bin", "+", ["bin", "*", ["v", v], ["k", c]], ["k", k]]
            if ivars and self.r() < 0.4:
                base = ["bin", "+", base, ["bin", "*", ["v", ivars[self.ri(0, len(ivars))]], ["k", 0.1]]]
            return base
        return ["bin", "+", ["v", v], ["k", self.ri(1, 3)]]

    def bound(self, ivars_static_ok=True):
        """loop bound: static int, the dynamic argument n, or (hostile) numpy integer."""
        r = self.r()
        if r < 0.25:
            return ["v", "n"]
        return ["k", self.ri(-2, 6)]

    def for_stmt(self, nw, fvars, ivars, settable, depth):
        form = [1, 2, 3, 3][self.ri(0, 4)]
        ivar = self.fresh("i")
        carried = [v for v in settable if self.r() < 0.6][:3]
        if form == 1:
            start, stop, step = ["k", 0], (["v", "n"] if self.r() < 0.3 else ["k", self.ri(0, 5)]), ["k", 1]
        elif form == 2:
            start, stop, step = ["k", self.ri(-2, 3)], (["v", "n"] if self.r() < 0.3 else ["k", self.ri(-1, 6)]), ["k", 1]
        else:
            s = [1, 2, 3, -1, -2, -3][self.ri(0, 6)]
            a, b = self.ri(-3, 7), self.ri(-3, 7)
            if self.r() < 0.7 and ((b - a) * s < 0):
                a, b = b, a
            start, stop, step = ["k", a], ["k", b], ["k", s]
            if self.r() < 0.2 and s > 0:
                stop = ["v", "n"]
        self.types[ivar] = "i"
        body = self.block(nw, fvars, ivars + [ivar], carried, depth + 1)
        # make sure carried values really change sometimes
        for v in carried:
            if self.r() < 0.7:
                body.insert(self.ri(0, len(body) + 1), ["set", v, self.update_expr(v, fvars, ivars + [ivar])])
        style = ["decorator", "call"][self.ri(0, 2)]
        return ["for", form, start, stop, step, ivar, carried, body, style]

    def while_stmt(self, nw, fvars, ivars, settable, depth):
        # a dedicated counter guarantees termination; it is a fresh variable initialised just before the loop
        c = self.fresh("c")
        self.types[c] = "i"
        carried = [c] + [v for v in settable if self.r() < 0.5][:2]
        limit = ["v", "n"] if self.r() < 0.3 else ["k", self.ri(0, 5)]
        cond = ["cmp", "<", ["v", c], limit]
        fcar = [v for v in carried if self.types[v] == "f"]
        if fcar and self.r() < 0.5 and not self.capture:
            # early exit on a carried float (python 'and': tape mode only)
            cond = ["bin", "and", cond, ["cmp", ["<", ">"][self.ri(0, 2)], ["v", fcar[0]], ["k", round(float(self.rng.uniform(-1, 2)), 2)]]]
        body = self.block(nw, fvars, ivars + [c], [v for v in carried if v != c], depth + 1)
        for v in carried[1:]:
            if self.r() < 0.7:
                body.insert(self.ri(0, len(body) + 1), ["set", v, self.update_expr(v, fvars, ivars + [c])])
        body.append(["set", c, ["bin", "+", ["v", c], ["k", self.ri(1, 3)]]])
        init = ["set", c, ["k", self.ri(0, 3)]]
        return ["seq", [init, ["while", cond, carried, body]]]

    def if_stmt(self, nw, fvars, ivars, settable, depth):
        nclause = [1, 1, 2, 3][self.ri(0, 4)]
        carried = [v for v in settable if self.r() < 0.4][:2]
        clauses = []
        for _ in range(nclause):
            body = self.block(nw, fvars, ivars, carried, depth + 1, n_stmts=self.ri(1, 3))
            for v in carried:
                if self.r() < 0.6:
                    body.append(["set", v, self.update_expr(v, fvars, ivars)])
            clauses.append([self.cond_expr(fvars, ivars), body])
        has_else = bool(carried) or self.r() < 0.5
        els = None
        if has_else:
            els = self.block(nw, fvars, ivars, carried, depth + 1, n_stmts=self.ri(1, 3))
        style = ["args", "decorator"][self.ri(0, 2)]
        if nclause == 1 and not carried and self.r() < 0.25:
            # operator class as branch function: qp.cond(pred, qp.RX, qp.RY)(param, wires=w)
            style = "opclass"
            name = ["RX", "RY", "RZ"][self.ri(0, 3)]
            name2 = ["RX", "RY", "RZ"][self.ri(0, 3)]
            p = self.float_expr(fvars, ivars)
            w = ["w", self.ri(0, nw)]
            clauses = [[clauses[0][0], [["op", name, [p], [w]]]]]
            els = [["op", name2, [p], [w]]] if has_else else None
        return ["if", clauses, els, carried, style]

    def symbolic_stmt(self, nw, fvars, ivars, depth):
        body = [self.op_stmt(nw, fvars, ivars) for _ in range(self.ri(1, 3))]
        if self.r() < 0.3:
            body.append(self.for_stmt(nw, fvars, ivars, [], self.max_depth - 1))
        if self.r() < 0.5:
            return ["adjoint", body, "fn"]
        # control wires: fresh wires nw, nw+1 (never touched by the body)
        k = self.ri(1, 3)
        return ["ctrl", body, [nw + j for j in range(k)], [int(self.rng.integers(0, 2)) for _ in range(k)]]

    def program(self):
        nw = self.ri(2, 5)
        self.types = {"x": "f", "y": "f", "n": "i"}
        args = {"x": round(float(self.rng.uniform(-2, 2)), 3), "y": round(float(self.rng.uniform(-2, 2)), 3), "n": self.ri(0, 5)}
        stmts = self.block(nw, ["x", "y"], ["n"], ["x", "y"], 0, n_stmts=self.ri(2, 6))
        return {"n_wires": nw, "args": args, "types": dict(self.types), "stmts": stmts}


def flatten_seq(stmts):
    out = []
    for s in stmts:
        if s[0] == "seq":
            out.extend(flatten_seq(s[1]))
        else:
            out.append(s)
    return out


# ------------------------------------------------------------------------------------------------ plain Python meaning
def run_python(qp, prog, args=None):
    nw = prog["n_wires"]
    env = dict(prog["args"] if args is None else args)

    def block(stmts, env):
        for s in flatten_seq(stmts):
            k = s[0]
            if k == "op":
                getattr(qp, s[1])(*[ev(p, env) for p in s[2]], wires=[wire_val(w, env, nw) for w in s[3]])
            elif k == "set":
                env[s[1]] = ev(s[2], env)
            elif k == "for":
                _, form, start, stop, step, ivar, carried, body, style = s
                for i in range(ev(start, env), ev(stop, env), ev(step, env)):
                    env[ivar] = i
                    block(body, env)
            elif k == "while":
                _, cond, carried, body = s
                while ev(cond, env):
                    block(body, env)
            elif k == "if":
                _, clauses, els, carried, style = s
                for c, body in clauses:
                    if ev(c, env):
                        block(body, env)
                        break
                else:
                    if els is not None:
                        block(els, env)
            elif k == "adjoint":
                def sub(_body=s[1], _env=env):
                    block(_body, dict(_env))
                qp.adjoint(sub)()
            elif k == "ctrl":
                def sub(_body=s[1], _env=env):
                    block(_body, dict(_env))
                qp.ctrl(sub, control=s[2], control_values=s[3])()
            else:
                raise ValueError(k)

    block(prog["stmts"], env)
    return {v: env[v] for v in ("x", "y")}


# ------------------------------------------------------------------------------------------------ qp control-flow form
def run_qp(qp, prog, args=None, bound_wrap=None):
    """``bound_wrap``: optional function applied to every evaluated loop bound (e.g. ``np.int64``) – hostile containers."""
    nw = prog["n_wires"]
    env0 = dict(prog["args"] if args is None else args)
    bw = bound_wrap or (lambda v: v)

    def pack(env, carried):
        outs = tuple(env[v] for v in carried)
        return None if len(outs) == 0 else outs[0] if len(outs) == 1 else outs

    def unpack(env, carried, res):
        if len(carried) == 1:
            env[carried[0]] = res
        elif len(carried) > 1:
            for v, r in zip(carried, res):
                env[v] = r

    def block(stmts, env):
        for s in flatten_seq(stmts):
            k = s[0]
            if k == "op":
                getattr(qp, s[1])(*[ev(p, env) for p in s[2]], wires=[wire_val(w, env, nw) for w in s[3]])
            elif k == "set":
                env[s[1]] = ev(s[2], env)
            elif k == "for":
                _, form, start, stop, step, ivar, carried, body, style = s

                def body_fn(i, *vals, _body=body, _ivar=ivar, _carried=carried, _env=env):
                    e2 = dict(_env)
                    e2[_ivar] = i
                    e2.update(zip(_carried, vals))
                    block(_body, e2)
                    return pack(e2, _carried)

                bounds = [ev(stop, env)] if form == 1 else [ev(start, env), ev(stop, env)] if form == 2 else [ev(start, env), ev(stop, env), ev(step, env)]
                bounds = [bw(b) for b in bounds]
                if style == "decorator":
                    loop = qp.for_loop(*bounds)(body_fn)
                else:
                    loop = qp.for_loop(*bounds)
                    loop = loop(body_fn)
                res = loop(*[env[v] for v in carried])
                unpack(env, carried, res)
            elif k == "while":
                _, cond, carried, body = s

                def cond_fn(*vals, _cond=cond, _carried=carried, _env=env):
                    e2 = dict(_env)
                    e2.update(zip(_carried, vals))
                    return ev(_cond, e2)

                def wbody(*vals, _body=body, _carried=carried, _env=env):
                    e2 = dict(_env)
                    e2.update(zip(_carried, vals))
                    block(_body, e2)
                    return pack(e2, _carried)

                res = qp.while_loop(cond_fn)(wbody)(*[env[v] for v in carried])
                unpack(env, carried, res)
            elif k == "if":
                _, clauses, els, carried, style = s
                if style == "opclass":
                    (c, body), = clauses
                    o = body[0]
                    tf = getattr(qp, o[1])
                    ff = getattr(qp, els[0][1]) if els else None
                    qp.cond(ev(c, env), tf, ff)(*[ev(p, env) for p in o[2]], wires=[wire_val(w, env, nw) for w in o[3]])
                    continue

                def mk(body, _carried=carried, _env=env):
                    def fn(*vals):
                        e2 = dict(_env)
                        e2.update(zip(_carried, vals))
                        block(body, e2)
                        return pack(e2, _carried)
                    return fn

                preds = [ev(c, env) for c, _ in clauses]
                fns = [mk(b) for _, b in clauses]
                ef = mk(els) if els is not None else None
                if style == "decorator":
                    cc = qp.cond(preds[0])(fns[0])
                    for p, f in zip(preds[1:], fns[1:]):
                        cc = cc.else_if(p)(f)
                    if ef is not None:
                        cc = cc.otherwise(ef)
                else:
                    elifs = list(zip(preds[1:], fns[1:]))
                    if len(elifs) == 1:
                        elifs = elifs[0]  # documented single (pred, fn) pair form
                    cc = qp.cond(preds[0], fns[0], ef, elifs=elifs or ())
                res = cc(*[env[v] for v in carried])
                unpack(env, carried, res)
            elif k == "adjoint":
                def sub(_body=s[1], _env=env):
                    block(_body, dict(_env))
                qp.adjoint(sub)()
            elif k == "ctrl":
                def sub(_body=s[1], _env=env):
                    block(_body, dict(_env))
                qp.ctrl(sub, control=s[2], control_values=s[3])()
            else:
                raise ValueError(k)

    block(prog["stmts"], env0)
    return {v: env0[v] for v in ("x", "y")}


# ------------------------------------------------------------------------------------------------ source (autograph)
def emit_source(prog, name="f", measurements="return qp.state()", init_locals=True):
    nw = prog["n_wires"]
    lines = ["import pennylane as qp", "", f"def {name}(x, y, n):"]
    sub_id = [0]

    def block(stmts, ind):
        pad = "    " * ind
        out = []
        for s in flatten_seq(stmts):
            k = s[0]
            if k == "op":
                ps = ", ".join(show(p) for p in s[2])
                ws = ", ".join(wire_src(w, nw) for w in s[3])
                out.append(f"{pad}qp.{s[1]}({ps + ', ' if ps else ''}wires=[{ws}])")
            elif k == "set":
                out.append(f"{pad}{s[1]} = {show(s[2])}")
            elif k == "for":
                _, form, start, stop, step, ivar, carried, body, style = s
                b = show(stop) if form == 1 else f"{show(start)}, {show(stop)}" if form == 2 else f"{show(start)}, {show(stop)}, {show(step)}"
                out.append(f"{pad}for {ivar} in range({b}):")
                out.extend(block(body, ind + 1) or [f"{pad}    pass"])
            elif k == "while":
                _, cond, carried, body = s
                out.append(f"{pad}while {show(cond)}:")
                out.extend(block(body, ind + 1) or [f"{pad}    pass"])
            elif k == "if":
                _, clauses, els, carried, style = s
                for j, (c, body) in enumerate(clauses):
                    out.append(f"{pad}{'if' if j == 0 else 'elif'} {show(c)}:")
                    out.extend(block(body, ind + 1) or [f"{pad}    pass"])
                if els is not None:
                    out.append(f"{pad}else:")
                    out.extend(block(els, ind + 1) or [f"{pad}    pass"])
            elif k in ("adjoint", "ctrl"):
                sub_id[0] += 1
                fn = f"_sub{sub_id[0]}"
                out.append(f"{pad}def {fn}():")
                out.extend(block(s[1], ind + 1) or [f"{pad}    pass"])
                if k == "adjoint":
                    out.append(f"{pad}qp.adjoint({fn})()")
                else:
                    out.append(f"{pad}qp.ctrl({fn}, control={s[2]!r}, control_values={s[3]!r})()")
        return out

    # AutoGraph requires every variable assigned inside a loop body (inner loop indices, while counters) to be initialised
    # before that loop; in plain Python these initialisations are no-ops for the program's meaning.
    body_lines = block(prog["stmts"], 1)
    locals_ = sorted({v for v, t in prog["types"].items() if v not in ("x", "y", "n")}, key=lambda v: (v[0], int(v[1:])))
    if init_locals:
        lines += [f"    {v} = 0" for v in locals_]
    lines += body_lines
    lines.append("    " + measurements)
    return "\n".join(lines) + "\n"


def count_kinds(stmts, acc=None):
    acc = acc if acc is not None else {}
    for s in flatten_seq(stmts):
        acc[s[0]] = acc.get(s[0], 0) + 1
        if s[0] == "for":
            count_kinds(s[7], acc)
        elif s[0] == "while":
            count_kinds(s[3], acc)
        elif s[0] == "if":
            for _, b in s[1]:
                count_kinds(b, acc)
            if s[2]:
                count_kinds(s[2], acc)
        elif s[0] in ("adjoint", "ctrl"):
            count_kinds(s[1], acc)
    return acc
