"""C26/C27/C33/C71 helper — kernel-aimed circuit *specifications* (JSON-able) and builders.

A case is generated as a plain-data spec (lists/dicts/numpy arrays) so that the same circuit can be built several times
(numpy for the reference, any interface for the real execution, re-queued inside a QNode) and described in evidence.

    spec = {"wires": [...labels...], "dev_wires": None | [...], "ops": [opspec...], "meas": [mspec...], "batch": None | B}

``build_ops(qp, spec["ops"], conv)`` / ``build_meas(qp, spec["meas"])`` create PennyLane objects; ``conv`` is applied to
every floating gate parameter (scalar or batch array) in generation order.
"""
from __future__ import annotations

import numpy as np

from . import num
from ..ref import sv

# gates grouped by the default.qubit kernel they select
K_SPECIAL_1Q = ["PauliX", "PauliZ", "T", "S", "Hadamard", "Identity"]
K_SPECIAL_1Q_ROT = ["RX", "RY", "RZ", "PhaseShift"]
K_DEFAULT_1Q = ["PauliY", "SX", "Rot", "U1", "U2", "U3"]
K_DEFAULT_2Q = ["CZ", "CY", "CH", "SWAP", "ISWAP", "SISWAP", "ECR", "CRX", "CRY", "CRZ", "CRot", "ControlledPhaseShift",
                "CPhaseShift00", "CPhaseShift01", "CPhaseShift10", "IsingXX", "IsingYY", "IsingZZ", "IsingXY", "PSWAP",
                "SingleExcitation", "SingleExcitationPlus", "SingleExcitationMinus", "FermionicSWAP"]
K_DEFAULT_3Q = ["Toffoli", "CCZ", "CSWAP", "QubitSum"]
K_DEFAULT_4Q = ["DoubleExcitation", "DoubleExcitationPlus", "DoubleExcitationMinus", "OrbitalRotation", "QubitCarry"]
NPAR = {"Rot": 3, "U2": 2, "U3": 3, "CRot": 3}
PARAM1 = set(K_SPECIAL_1Q_ROT) | {"U1", "CRX", "CRY", "CRZ", "ControlledPhaseShift", "CPhaseShift00", "CPhaseShift01",
                                   "CPhaseShift10", "IsingXX", "IsingYY", "IsingZZ", "IsingXY", "PSWAP", "SingleExcitation",
                                   "SingleExcitationPlus", "SingleExcitationMinus", "FermionicSWAP", "DoubleExcitation",
                                   "DoubleExcitationPlus", "DoubleExcitationMinus", "OrbitalRotation"}
NW = {**{k: 1 for k in K_SPECIAL_1Q + K_SPECIAL_1Q_ROT + K_DEFAULT_1Q}, **{k: 2 for k in K_DEFAULT_2Q + ["CNOT"]},
      **{k: 3 for k in K_DEFAULT_3Q}, **{k: 4 for k in K_DEFAULT_4Q}}
CLIFFORD = ["PauliX", "PauliY", "PauliZ", "Hadamard", "S", "SX", "CNOT", "CZ", "CY", "SWAP", "ISWAP", "ECR", "Identity"]


def npar(name):
    return NPAR.get(name, 1 if name in PARAM1 else 0)


def _pick(rng, seq):
    return seq[int(rng.integers(len(seq)))]


def _wires(rng, wires, k):
    return [wires[int(i)] for i in rng.choice(len(wires), size=k, replace=False)]


def _param(rng, B):
    if B is None:
        return num.angle(rng)
    return [num.angle(rng) for _ in range(B)]


def named_spec(rng, name, wires, B=None, batch_p=0.0):
    k = npar(name)
    ps = []
    for i in range(k):
        ps.append(_param(rng, B if (B and rng.random() < batch_p) else None))
    return {"t": "named", "name": name, "params": ps, "wires": list(wires), "hyper": {}}


def rand_opspec(rng, wires, B=None, depth=0, allow=("special", "rot", "d1", "d2", "d3", "d4", "cnot", "mcx", "grover", "qu", "diag",
                                                    "cqu", "multirz", "paulirot", "pcphase", "intcmp", "sym", "gphase", "noop")):
    """One random operator spec on a subset of ``wires``; B = batch size used when a parameter is broadcast."""
    n = len(wires)
    for _ in range(50):
        kind = _pick(rng, allow)
        bp = 0.5 if B else 0.0
        if kind == "special":
            name = _pick(rng, K_SPECIAL_1Q)
            if name == "Identity":
                return {"t": "named", "name": "Identity", "params": [], "wires": _wires(rng, wires, int(rng.integers(1, min(n, 3) + 1))), "hyper": {}}
            return named_spec(rng, name, _wires(rng, wires, 1))
        if kind == "rot":
            return named_spec(rng, _pick(rng, K_SPECIAL_1Q_ROT), _wires(rng, wires, 1), B, bp)
        if kind == "d1":
            return named_spec(rng, _pick(rng, K_DEFAULT_1Q), _wires(rng, wires, 1), B, bp)
        if kind == "cnot" and n >= 2:
            return named_spec(rng, "CNOT", _wires(rng, wires, 2))
        if kind == "d2" and n >= 2:
            return named_spec(rng, _pick(rng, K_DEFAULT_2Q), _wires(rng, wires, 2), B, bp)
        if kind == "d3" and n >= 3:
            return named_spec(rng, _pick(rng, K_DEFAULT_3Q), _wires(rng, wires, 3))
        if kind == "d4" and n >= 4:
            return named_spec(rng, _pick(rng, K_DEFAULT_4Q), _wires(rng, wires, 4), B, bp)
        if kind == "mcx" and n >= 2:
            k = int(rng.integers(2, n + 1)) if rng.random() < 0.5 else n  # full width often: reaches the >= 9 wires kernel
            ws = _wires(rng, wires, k)
            return {"t": "named", "name": "MultiControlledX", "params": [], "wires": ws, "hyper": {"control_values": [int(x) for x in rng.integers(0, 2, size=k - 1)]}}
        if kind == "grover" and n >= 2:
            k = int(rng.integers(2, n + 1)) if rng.random() < 0.5 else n
            return {"t": "grover", "wires": _wires(rng, wires, k)}
        if kind == "qu":
            k = int(rng.integers(1, min(n, 4) + 1))
            if B and rng.random() < 0.4:
                U = np.stack([sv.haar_unitary(rng, 2**k) for _ in range(B)])
            else:
                U = sv.haar_unitary(rng, 2**k)
            return {"t": "qu", "U": U, "wires": _wires(rng, wires, k)}
        if kind == "diag":
            k = int(rng.integers(1, min(n, 3) + 1))
            return {"t": "diag", "D": np.exp(1j * rng.uniform(-np.pi, np.pi, size=2**k)), "wires": _wires(rng, wires, k)}
        if kind == "cqu" and n >= 2:
            k = int(rng.integers(1, min(n - 1, 2) + 1))
            nc = int(rng.integers(1, min(n - k, 3) + 1))
            return {"t": "cqu", "U": sv.haar_unitary(rng, 2**k), "wires": _wires(rng, wires, nc + k), "cv": [int(x) for x in rng.integers(0, 2, size=nc)]}
        if kind == "multirz":
            k = int(rng.integers(1, min(n, 5) + 1))
            return {"t": "named", "name": "MultiRZ", "params": [_param(rng, B if (B and rng.random() < bp) else None)], "wires": _wires(rng, wires, k), "hyper": {}}
        if kind == "paulirot":
            k = int(rng.integers(1, min(n, 4) + 1))
            word = "".join(rng.choice(list("XYZI"), size=k))
            if set(word) == {"I"}:
                word = "Y" + word[1:]
            return {"t": "named", "name": "PauliRot", "params": [_param(rng, B if (B and rng.random() < bp) else None)], "wires": _wires(rng, wires, k), "hyper": {"pauli_word": word}}
        if kind == "pcphase":
            k = int(rng.integers(1, min(n, 3) + 1))
            return {"t": "named", "name": "PCPhase", "params": [_param(rng, None)], "wires": _wires(rng, wires, k), "hyper": {"dim": int(rng.integers(0, 2**k + 1))}}
        if kind == "intcmp" and n >= 2:
            k = int(rng.integers(2, min(n, 4) + 1))
            return {"t": "named", "name": "IntegerComparator", "params": [], "wires": _wires(rng, wires, k),
                    "hyper": {"value": int(rng.integers(0, 2 ** (k - 1) + 1)), "geq": bool(rng.integers(2))}}
        if kind == "gphase":
            # GlobalPhase is never broadcast here: see the dedicated probe in pv/checks/c26.py (batch_size of a batched GlobalPhase)
            return {"t": "gphase", "param": _param(rng, None)}
        if kind == "noop":
            r = rng.random()
            if r < 0.4:
                return {"t": "snap"}
            return {"t": "barrier", "wires": _wires(rng, wires, int(rng.integers(1, n + 1)))}
        if kind == "sym" and depth < 2:
            w = int(rng.integers(4))
            inner_allow = ("special", "rot", "d1", "d2", "d3", "cnot", "qu", "multirz", "paulirot")
            if w == 0:
                return {"t": "adj", "base": rand_opspec(rng, wires, B, depth + 1, inner_allow + ("sym",))}
            if w == 1:
                return {"t": "pow", "base": rand_opspec(rng, wires, None, depth + 1, inner_allow), "z": int(_pick(rng, [-2, -1, 0, 2, 3]))}
            if w == 2 and n >= 2:
                nc = int(rng.integers(1, min(n - 1, 2) + 1))
                cw = _wires(rng, wires, nc)
                rest = [x for x in wires if x not in cw]
                base = rand_opspec(rng, rest, B, depth + 1, ("special", "rot", "d1", "d2", "qu", "paulirot", "multirz", "sym"))
                return {"t": "ctrl", "base": base, "control": cw, "cv": [int(x) for x in rng.integers(0, 2, size=nc)]}
            if w == 3:
                k = int(rng.integers(2, 4))
                return {"t": "prod", "factors": [rand_opspec(rng, wires, None, depth + 1, ("special", "rot", "d1", "d2", "cnot")) for _ in range(k)]}
    return named_spec(rng, "Hadamard", _wires(rng, wires, 1))


def spec_wires(s):
    t = s["t"]
    if t in ("named", "qu", "diag", "cqu", "grover", "barrier", "basis", "prep"):
        return list(s["wires"])
    if t in ("adj", "pow"):
        return spec_wires(s["base"])
    if t == "ctrl":
        return list(s["control"]) + spec_wires(s["base"])
    if t == "prod":
        out = []
        for f in s["factors"]:
            out += [w for w in spec_wires(f) if w not in out]
        return out
    return []


def spec_batched(s):
    t = s["t"]
    if t == "named":
        return any(isinstance(p, list) for p in s["params"])
    if t == "qu":
        return np.ndim(s["U"]) == 3
    if t == "gphase":
        return isinstance(s["param"], list)
    if t == "prep":
        return np.ndim(s["vec"]) == 2
    if t in ("adj", "pow", "ctrl"):
        return spec_batched(s["base"])
    if t == "prod":
        return any(spec_batched(f) for f in s["factors"])
    return False


def build_op(qp, s, conv):
    t = s["t"]
    if t == "named":
        name = s["name"]
        ps = [conv(np.array(p) if isinstance(p, list) else p) for p in s["params"]]
        h = s["hyper"]
        if name == "PauliRot":
            return qp.PauliRot(ps[0], h["pauli_word"], wires=s["wires"])
        if name == "PCPhase":
            return qp.PCPhase(ps[0], dim=h["dim"], wires=s["wires"])
        if name == "MultiControlledX":
            return qp.MultiControlledX(wires=s["wires"], control_values=h["control_values"])
        if name == "IntegerComparator":
            return qp.IntegerComparator(h["value"], geq=h["geq"], wires=s["wires"])
        return getattr(qp, name)(*ps, wires=s["wires"])
    if t == "qu":
        return qp.QubitUnitary(s["U"], wires=s["wires"])
    if t == "diag":
        return qp.DiagonalQubitUnitary(s["D"], wires=s["wires"])
    if t == "cqu":
        return qp.ControlledQubitUnitary(s["U"], wires=s["wires"], control_values=s["cv"])
    if t == "grover":
        return qp.GroverOperator(wires=s["wires"])
    if t == "gphase":
        p = s["param"]
        return qp.GlobalPhase(conv(np.array(p) if isinstance(p, list) else p))
    if t == "snap":
        return qp.Snapshot()
    if t == "barrier":
        return qp.Barrier(wires=s["wires"])
    if t == "adj":
        return qp.adjoint(build_op(qp, s["base"], conv))
    if t == "pow":
        return qp.pow(build_op(qp, s["base"], conv), s["z"])
    if t == "ctrl":
        return qp.ctrl(build_op(qp, s["base"], conv), control=s["control"], control_values=s["cv"])
    if t == "prod":
        return qp.prod(*[build_op(qp, f, conv) for f in s["factors"]])
    if t == "basis":
        return qp.BasisState(np.array(s["bits"]), wires=s["wires"])
    if t == "prep":
        return qp.StatePrep(s["vec"], wires=s["wires"], normalize=s.get("normalize", False))
    raise ValueError(t)


def build_ops(qp, specs, conv=lambda x: x):
    return [build_op(qp, s, conv) for s in specs]


# ----------------------------------------------------------------------------- observables / measurements
def pauli_spec(rng, wires, max_len=3):
    k = int(rng.integers(1, min(max_len, len(wires)) + 1))
    return {"o": "pauli", "word": "".join(rng.choice(list("XYZ"), size=k)), "wires": _wires(rng, wires, k)}


def rand_obs(rng, wires, kinds=("pauli", "sprod", "sum", "lc", "herm", "proj", "projvec", "sparse", "id", "hadamard", "prodherm")):
    k = _pick(rng, kinds)
    n = len(wires)
    if k == "pauli":
        return pauli_spec(rng, wires)
    if k == "sprod":
        return {"o": "sprod", "c": float(rng.normal()), "base": pauli_spec(rng, wires)}
    if k == "sum":
        terms = [{"o": "sprod", "c": float(rng.normal()), "base": pauli_spec(rng, wires)} for _ in range(int(rng.integers(2, 5)))]
        if rng.random() < 0.3:
            terms.append({"o": "sprod", "c": float(rng.normal()), "base": {"o": "id", "wires": [wires[0]]}})
        if rng.random() < 0.2:
            terms.append(rand_obs(rng, wires, ("herm", "proj")))
        return {"o": "sum", "terms": terms}
    if k == "lc":
        m = int(rng.integers(1, 5))
        return {"o": "lc", "coeffs": [float(x) for x in rng.normal(size=m)], "ops": [pauli_spec(rng, wires) for _ in range(m)]}
    if k == "herm":
        kk = 1 if n < 2 or rng.random() < 0.5 else (2 if n < 3 or rng.random() < 0.7 else 3)
        A = rng.normal(size=(2**kk, 2**kk)) + 1j * rng.normal(size=(2**kk, 2**kk))
        return {"o": "herm", "A": A + A.conj().T, "wires": _wires(rng, wires, kk)}
    if k == "proj":
        kk = int(rng.integers(1, min(n, 3) + 1))
        return {"o": "proj", "bits": [int(x) for x in rng.integers(0, 2, size=kk)], "wires": _wires(rng, wires, kk)}
    if k == "projvec":
        kk = int(rng.integers(1, min(n, 2) + 1))
        return {"o": "projvec", "vec": sv.random_state(rng, kk), "wires": _wires(rng, wires, kk)}
    if k == "sparse":
        kk = int(rng.integers(1, min(n, 3) + 1))
        A = rng.normal(size=(2**kk, 2**kk)) * (rng.random(size=(2**kk, 2**kk)) < 0.4)
        return {"o": "sparse", "H": A + A.T, "wires": _wires(rng, wires, kk)}
    if k == "id":
        return {"o": "id", "wires": [wires[int(rng.integers(n))]]}
    if k == "hadamard":
        return {"o": "hadamard", "wires": [wires[int(rng.integers(n))]]}
    if k == "prodherm" and n >= 2:
        ws = _wires(rng, wires, 2)
        A = rng.normal(size=(2, 2)) + 1j * rng.normal(size=(2, 2))
        return {"o": "prod", "factors": [{"o": "herm", "A": A + A.conj().T, "wires": [ws[0]]}, {"o": "pauli", "word": _pick(rng, "XYZ"), "wires": [ws[1]]}]}
    return pauli_spec(rng, wires)


def build_obs(qp, o):
    import scipy.sparse as sp
    k = o["o"]
    if k == "pauli":
        fac = [getattr(qp, "Pauli" + c)(w) for c, w in zip(o["word"], o["wires"])]
        ob = fac[0]
        for f in fac[1:]:
            ob = ob @ f
        return ob
    if k == "sprod":
        return o["c"] * build_obs(qp, o["base"])
    if k == "sum":
        return qp.sum(*[build_obs(qp, t) for t in o["terms"]])
    if k == "lc":
        return qp.Hamiltonian(o["coeffs"], [build_obs(qp, t) for t in o["ops"]])
    if k == "herm":
        return qp.Hermitian(o["A"], wires=o["wires"])
    if k == "proj":
        return qp.Projector(o["bits"], wires=o["wires"])
    if k == "projvec":
        return qp.Projector(o["vec"], wires=o["wires"])
    if k == "sparse":
        return qp.SparseHamiltonian(sp.csr_matrix(o["H"]), wires=o["wires"])
    if k == "id":
        return qp.Identity(o["wires"][0])
    if k == "hadamard":
        return qp.Hadamard(o["wires"][0])
    if k == "prod":
        return qp.prod(*[build_obs(qp, f) for f in o["factors"]])
    raise ValueError(k)


def rand_meas(rng, wires, kinds=("state", "dm", "expval", "var", "probs", "probs_op", "purity", "vn", "mi"), obs_kinds=None, n=None):
    n = n or int(rng.integers(1, 5))
    nw = len(wires)
    out = []
    if nw > 8:  # the real reduced-density-matrix functionals build the full 4^n density matrix: keep them to <= 8 wires
        kinds = tuple(k for k in kinds if k not in ("dm", "purity", "vn", "mi")) or ("expval",)
    for _ in range(n):
        k = _pick(rng, kinds)
        if k == "state":
            if not any(m["m"] == "state" for m in out) and nw <= 10:
                out.append({"m": "state"})
        elif k == "dm":
            out.append({"m": "dm", "wires": _wires(rng, wires, int(rng.integers(1, min(nw, 3) + 1)))})
        elif k == "expval":
            out.append({"m": "expval", "obs": rand_obs(rng, wires, obs_kinds) if obs_kinds else rand_obs(rng, wires)})
        elif k == "var":
            ok = tuple(x for x in (obs_kinds or ("pauli", "sprod", "herm", "proj", "projvec", "hadamard", "sumc")) if x not in ("sparse", "lc", "sum", "id", "prodherm")) or ("pauli",)
            if "sumc" in ok and rng.random() < 0.25:
                # var of a sum of pairwise commuting Pauli words on disjoint wires is supported via diagonalizing gates
                ws = list(wires)
                terms, used = [], 0
                while used < len(ws) and len(terms) < 3:
                    terms.append({"o": "sprod", "c": float(rng.normal()), "base": {"o": "pauli", "word": _pick(rng, "XYZ"), "wires": [ws[used]]}})
                    used += 1
                out.append({"m": "var", "obs": {"o": "sum", "terms": terms} if len(terms) > 1 else terms[0]})
            else:
                out.append({"m": "var", "obs": rand_obs(rng, wires, tuple(x for x in ok if x != "sumc"))})
        elif k == "probs":
            m = int(rng.integers(1, min(nw, 8) + 1))
            out.append({"m": "probs", "wires": _wires(rng, wires, m)} if rng.random() < 0.85 or nw > 8 else {"m": "probs", "wires": None})
        elif k == "probs_op":
            out.append({"m": "probs_op", "obs": pauli_spec(rng, wires, 2)})
        elif k == "purity":
            out.append({"m": "purity", "wires": _wires(rng, wires, int(rng.integers(1, min(nw, 4) + 1)))})
        elif k == "vn":
            out.append({"m": "vn", "wires": _wires(rng, wires, int(rng.integers(1, min(nw, 4) + 1))), "base": _pick(rng, [None, 2, 10, 2.5])})
        elif k == "mi" and nw >= 2:
            k0 = int(rng.integers(1, min(nw - 1, 2) + 1))
            k1 = int(rng.integers(1, min(nw - k0, 2) + 1))
            ws = _wires(rng, wires, k0 + k1)
            out.append({"m": "mi", "w0": ws[:k0], "w1": ws[k0:], "base": _pick(rng, [None, 2, 3])})
    return out or [{"m": "expval", "obs": pauli_spec(rng, wires)}]


def build_meas(qp, ms):
    out = []
    for m in ms:
        k = m["m"]
        if k == "state":
            out.append(qp.state())
        elif k == "dm":
            out.append(qp.density_matrix(wires=m["wires"]))
        elif k == "expval":
            out.append(qp.expval(build_obs(qp, m["obs"])))
        elif k == "var":
            out.append(qp.var(build_obs(qp, m["obs"])))
        elif k == "probs":
            out.append(qp.probs(wires=m["wires"]) if m["wires"] is not None else qp.probs())
        elif k == "probs_op":
            out.append(qp.probs(op=build_obs(qp, m["obs"])))
        elif k == "purity":
            out.append(qp.purity(wires=m["wires"]))
        elif k == "vn":
            out.append(qp.vn_entropy(wires=m["wires"], log_base=m["base"]))
        elif k == "mi":
            out.append(qp.mutual_info(m["w0"], m["w1"], log_base=m["base"]))
        elif k == "sample":
            out.append(qp.sample(wires=m["wires"]))
        elif k == "counts":
            out.append(qp.counts(wires=m["wires"]))
        else:
            raise ValueError(k)
    return out


# ----------------------------------------------------------------------------- whole cases
def labels(rng, n, mode=None):
    """num.wire_labels for n <= 12 (its string pools have 12 entries); generated names beyond."""
    if n <= 12:
        return num.wire_labels(rng, n, mode)
    mode = mode or _pick(rng, ["range", "noncontig", "str", "perm"])
    if mode == "range":
        return list(range(n))
    if mode == "perm":
        return [int(x) for x in rng.permutation(n)]
    if mode == "noncontig":
        return [int(x) for x in rng.choice(np.arange(0, 4 * n + 3), size=n, replace=False)]
    names = [f"w{i}" for i in range(n)]
    return [names[int(i)] for i in rng.permutation(n)]


def rand_case(rng, nw=None, n_ops=None, batch_p=0.25, prep_p=0.3, allow=None, meas_kinds=None, obs_kinds=None, label_mode=None, dev_wires_mode=None):
    if nw is None:
        r = rng.random()
        nw = int(rng.integers(1, 7)) if r < 0.72 else (int(rng.integers(7, 11)) if r < 0.9 else int(rng.integers(11, 14)))
    wires = labels(rng, nw, label_mode)
    B = int(rng.integers(1, 5)) if rng.random() < batch_p else None
    if n_ops is None:
        n_ops = int(rng.integers(1, 15)) if nw <= 6 else int(rng.integers(2, 9))
    ops = []
    used_prep = set()
    if rng.random() < prep_p:
        k = int(rng.integers(1, nw + 1))
        ws = _wires(rng, wires, k)
        if rng.random() < 0.4:
            ops.append({"t": "basis", "bits": [int(x) for x in rng.integers(0, 2, size=k)], "wires": ws})
        else:
            k = min(k, 6)
            ws = ws[:k]
            if B and rng.random() < 0.4:
                vec = np.stack([sv.random_state(rng, k) for _ in range(B)])
            else:
                vec = sv.random_state(rng, k)
            norm = bool(rng.random() < 0.3)
            ops.append({"t": "prep", "vec": vec * (float(rng.uniform(0.5, 2)) if norm else 1.0), "wires": ws, "normalize": norm})
        used_prep = set(ws)
    kw = {"allow": allow} if allow else {}
    for _ in range(n_ops):
        ops.append(rand_opspec(rng, wires, B, **kw))
    if B and not any(spec_batched(s) for s in ops):
        ops.append({"t": "named", "name": _pick(rng, K_SPECIAL_1Q_ROT), "params": [_param(rng, B)], "wires": _wires(rng, wires, 1), "hyper": {}})
    kwm = {}
    if meas_kinds:
        kwm["kinds"] = meas_kinds
    if obs_kinds:
        kwm["obs_kinds"] = obs_kinds
    meas = rand_meas(rng, wires, **kwm)
    mode = dev_wires_mode or _pick(rng, ["none", "same", "perm", "superset"])
    if mode == "none":
        dev_wires = None
    elif mode == "same":
        dev_wires = list(wires)
    elif mode == "perm":
        dev_wires = [wires[int(i)] for i in rng.permutation(nw)]
    else:
        extra = [x for x in ["e0", 101, "e1"][: int(rng.integers(1, 3))] if x not in wires]
        if nw + len(extra) > 13:
            extra = []
        allw = list(wires) + extra
        dev_wires = [allw[int(i)] for i in rng.permutation(len(allw))]
    return {"wires": wires, "dev_wires": dev_wires, "ops": ops, "meas": meas, "batch": B}


def describe(spec, maxops=40):
    def d(x):
        if isinstance(x, np.ndarray):
            return f"array{x.shape}"
        if isinstance(x, dict):
            return {k: d(v) for k, v in x.items()}
        if isinstance(x, list):
            return [d(v) for v in x]
        return x
    return {"wires": spec["wires"], "dev_wires": spec["dev_wires"], "batch": spec["batch"], "ops": [d(s) for s in spec["ops"][:maxops]], "meas": [d(m) for m in spec["meas"]]}


def spec_kinds(spec):
    out = set()

    def walk(s):
        out.add(s.get("name") or s["t"])
        if "base" in s:
            walk(s["base"])
        for f in s.get("factors", []):
            walk(f)
    for s in spec["ops"]:
        walk(s)
    return out
