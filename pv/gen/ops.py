"""G-OP (named-gate part) — instance recipes for the gates tabulated in pv.ref.gates."""
import itertools

import numpy as np

from . import num

# name -> (number of scalar parameters, number of wires or None if variable)
NAMED = {
    "Identity": (0, None), "PauliX": (0, 1), "PauliY": (0, 1), "PauliZ": (0, 1), "Hadamard": (0, 1), "S": (0, 1),
    "T": (0, 1), "SX": (0, 1), "CNOT": (0, 2), "CZ": (0, 2), "CY": (0, 2), "CH": (0, 2), "SWAP": (0, 2), "ISWAP": (0, 2),
    "SISWAP": (0, 2), "ECR": (0, 2), "CSWAP": (0, 3), "Toffoli": (0, 3), "CCZ": (0, 3),
    "RX": (1, 1), "RY": (1, 1), "RZ": (1, 1), "PhaseShift": (1, 1), "U1": (1, 1), "Rot": (3, 1), "U2": (2, 1), "U3": (3, 1),
    "CRX": (1, 2), "CRY": (1, 2), "CRZ": (1, 2), "CRot": (3, 2), "ControlledPhaseShift": (1, 2),
    "CPhaseShift00": (1, 2), "CPhaseShift01": (1, 2), "CPhaseShift10": (1, 2),
    "IsingXX": (1, 2), "IsingYY": (1, 2), "IsingZZ": (1, 2), "IsingXY": (1, 2), "PSWAP": (1, 2),
    "MultiRZ": (1, None), "PauliRot": (1, None), "PCPhase": (1, None),
    "SingleExcitation": (1, 2), "SingleExcitationPlus": (1, 2), "SingleExcitationMinus": (1, 2),
    "DoubleExcitation": (1, 4), "DoubleExcitationPlus": (1, 4), "DoubleExcitationMinus": (1, 4),
    "OrbitalRotation": (1, 4), "FermionicSWAP": (1, 2), "GlobalPhase": (1, 0),
    "MultiControlledX": (0, None), "QubitSum": (0, 3), "QubitCarry": (0, 4), "IntegerComparator": (0, None),
}

# gates usable in random unitary circuits (fixed wire count, no hyper-parameters)
SIMPLE = [k for k, (p, w) in NAMED.items() if w in (1, 2, 3) and k not in ("QubitSum",)]


def make_named(qp, name, rng, wires=None, params=None, labels=None):
    """Build one instance of a tabulated gate.  Returns (op, info dict)."""
    npar, nw = NAMED[name]
    hyper = {}
    if nw is None:
        if name == "Identity":
            nw = int(rng.integers(1, 4))
        elif name == "MultiRZ":
            nw = int(rng.integers(1, 5))
        elif name == "PauliRot":
            nw = int(rng.integers(1, 4))
        elif name == "PCPhase":
            nw = int(rng.integers(1, 4))
        elif name == "MultiControlledX":
            nw = int(rng.integers(2, 6))
        elif name == "IntegerComparator":
            nw = int(rng.integers(2, 5))
    if wires is None:
        wires = num.wire_labels(rng, max(nw, 1))[:nw] if labels is None else labels[:nw]
    if params is None:
        params = [num.angle(rng) for _ in range(npar)]
    cls = getattr(qp, name)
    if name == "PauliRot":
        word = "".join(rng.choice(list("XYZI"), size=nw))
        if set(word) == {"I"}:
            word = "X" + word[1:]
        hyper["pauli_word"] = word
        op = cls(params[0], word, wires=wires)
    elif name == "PCPhase":
        dim = int(rng.integers(0, 2**nw + 1))
        hyper["dim"] = dim
        op = cls(params[0], dim=dim, wires=wires)
    elif name == "MultiControlledX":
        cv = [int(x) for x in rng.integers(0, 2, size=nw - 1)]
        hyper["control_values"] = cv
        op = cls(wires=wires, control_values=cv)
    elif name == "IntegerComparator":
        value = int(rng.integers(0, 2 ** (nw - 1) + 1))
        geq = bool(rng.integers(2))
        hyper.update(value=value, geq=geq)
        op = cls(value, geq=geq, wires=wires)
    elif name == "GlobalPhase":
        op = cls(params[0])
    elif name == "Identity":
        op = cls(wires=wires)
    elif npar == 0:
        op = cls(wires=wires)
    else:
        op = cls(*[num.container(rng, p) for p in params], wires=wires)
    return op, {"name": name, "params": [float(p) for p in params], "wires": list(wires), "hyper": hyper}
