"""G-DYN — dynamic circuits as an AST (generator, PennyLane builder, R-BR builder, predicate evaluator).

AST (JSON-able):
  prog  = {"wires": [labels], "stmts": [stmt...], "n_mcm": k}
  stmt  = ["g", name, [params], [wires]]                      gate
        | ["m", idx, wire, reset, postselect]                 mid-circuit measurement number idx
        | ["c", expr, [stmt...], [stmt...] | None]            qp.cond(expr, then, else) ; bodies hold gates and nested "c"
  expr  = ["m", idx] | ["k", const] | ["not", e] | ["bin", op, a, b]      op ∈ & | ^ == != < <= > >= + - *

Semantics used by the reference evaluator (= the documented ones: outcomes are the integers 0/1; ``~ & | ^`` are logical
operations on "non-zero = true"; comparisons yield 0/1; ``+ - *`` are ordinary arithmetic).  The generator never builds an
arithmetic node whose two operands are *both* boolean-typed (numpy adds two booleans as a logical or, python adds them as
integers; PennyLane inherits whichever container holds the samples), so every generated expression has one meaning.
"""
from __future__ import annotations

import math

import numpy as np

from . import num

BOOL_OPS = ("&", "|", "^")
CMP_OPS = ("==", "!=", "<", "<=", ">", ">=")
ARITH_OPS = ("+", "-", "*")

GATES_1 = [("RX", 1), ("RY", 1), ("RZ", 1), ("PhaseShift", 1), ("Hadamard", 0), ("PauliX", 0), ("PauliY", 0), ("S", 0),
           ("T", 0), ("SX", 0), ("Rot", 3), ("U2", 2)]
GATES_2 = [("CNOT", 0), ("CZ", 0), ("SWAP", 0), ("CRY", 1), ("CRX", 1), ("IsingXX", 1), ("IsingXY", 1), ("CY", 0)]


# ------------------------------------------------------------------------------------------------ expressions
def expr_type(e):
    if e[0] == "m":
        return "i"
    if e[0] == "k":
        return "i"
    if e[0] == "not":
        return "b"
    op = e[1]
    return "i" if op in ARITH_OPS else "b"


def expr_mcms(e):
    if e[0] == "m":
        return {e[1]}
    if e[0] == "k":
        return set()
    if e[0] == "not":
        return expr_mcms(e[1])
    return expr_mcms(e[2]) | expr_mcms(e[3])


def eval_expr(e, oc):
    """Reference value of an expression on an outcome mapping idx -> 0/1 (missing = 0)."""
    k = e[0]
    if k == "m":
        return int(oc[e[1]])
    if k == "k":
        return e[1]
    if k == "not":
        return int(not eval_expr(e[1], oc))
    op, a, b = e[1], eval_expr(e[2], oc), eval_expr(e[3], oc)
    if op == "&":
        return int(bool(a) and bool(b))
    if op == "|":
        return int(bool(a) or bool(b))
    if op == "^":
        return int(bool(a) != bool(b))
    if op == "==":
        return int(a == b)
    if op == "!=":
        return int(a != b)
    if op == "<":
        return int(a < b)
    if op == "<=":
        return int(a <= b)
    if op == ">":
        return int(a > b)
    if op == ">=":
        return int(a >= b)
    if op == "+":
        return a + b
    if op == "-":
        return a - b
    if op == "*":
        return a * b
    raise ValueError(op)


def to_mv(e, ms):
    """Build the PennyLane MeasurementValue (or a constant) with the overloaded operators."""
    k = e[0]
    if k == "m":
        return ms[e[1]]
    if k == "k":
        return e[1]
    if k == "not":
        return ~to_mv(e[1], ms)
    op, a, b = e[1], to_mv(e[2], ms), to_mv(e[3], ms)
    if op == "&":
        return a & b
    if op == "|":
        return a | b
    if op == "^":
        return a ^ b
    if op == "==":
        return a == b
    if op == "!=":
        return a != b
    if op == "<":
        return a < b
    if op == "<=":
        return a <= b
    if op == ">":
        return a > b
    if op == ">=":
        return a >= b
    if op == "+":
        return a + b
    if op == "-":
        return a - b
    if op == "*":
        return a * b
    raise ValueError(op)


def eval_expr_boolish(e, oc, bool_ids=None):
    """Value of the expression if every outcome 1 were the *boolean* True held in a numpy container (what numpy then does
    with + - *).  Only used by a mechanism classifier ("is this program sensitive to bool-vs-int outcomes?")."""
    k = e[0]
    if k == "m":
        if bool_ids is not None and e[1] not in bool_ids:
            return int(oc[e[1]])
        return np.True_ if oc[e[1]] else 0
    if k == "k":
        return e[1]
    if k == "not":
        return np.logical_not(eval_expr_boolish(e[1], oc, bool_ids))
    op, a, b = e[1], eval_expr_boolish(e[2], oc, bool_ids), eval_expr_boolish(e[3], oc, bool_ids)
    if op == "&":
        return np.logical_and(a, b)
    if op == "|":
        return np.logical_or(a, b)
    if op == "^":
        return np.logical_xor(a, b)
    if op in CMP_OPS:
        return {"==": a == b, "!=": a != b, "<": a < b, "<=": a <= b, ">": a > b, ">=": a >= b}[op]
    if op == "+":
        return a + b
    if op == "-":
        return a - b
    return a * b


def bool_sensitive(e, bool_ids=None):
    """True when representing outcome 1 (of the MCMs in ``bool_ids``; default all) as the boolean True instead of the
    integer 1 changes the value of (or breaks) ``e``."""
    import itertools

    ms = sorted(expr_mcms(e))
    for bits in itertools.product((0, 1), repeat=len(ms)):
        oc = dict(zip(ms, bits))
        ref = eval_expr(e, oc)
        try:
            alt = eval_expr_boolish(e, oc, bool_ids)
            if float(alt) != float(ref):
                return True
        except TypeError:
            return True
    return False


def all_exprs(prog, meas=()):
    out = []

    def walk(stmts):
        for s in stmts:
            if s[0] == "c":
                out.append(s[1])
                walk(s[2])
                if s[3]:
                    walk(s[3])

    walk(prog["stmts"])
    for m in meas:
        if m[0] in ("expval_mv", "var_mv"):
            out.append(m[1])
        elif m[0] in ("counts_mv", "sample_mv") and m[1][0] == "e":
            out.append(m[1][1])
    return out


def show_expr(e):
    if e[0] == "m":
        return f"m{e[1]}"
    if e[0] == "k":
        return repr(e[1])
    if e[0] == "not":
        return f"~({show_expr(e[1])})"
    return f"({show_expr(e[2])} {e[1]} {show_expr(e[3])})"


def gen_expr(rng, avail, depth=0, want=None, floats=False):
    """Random expression over the measured indices ``avail`` containing at least one MCM."""
    avail = list(avail)

    def leaf_m():
        return ["m", int(avail[int(rng.integers(len(avail)))])]

    def const():
        if floats and rng.random() < 0.3:
            return ["k", float([0.5, 1.5, -0.5, 2.5][int(rng.integers(4))])]
        return ["k", int(rng.integers(0, 4))]

    r = rng.random()
    if depth >= 2 or (depth > 0 and r < 0.35) or (depth == 0 and r < 0.25 and want != "b"):
        e = leaf_m()
        if want == "b":
            return ["bin", "==", e, ["k", int(rng.integers(0, 2))]]
        return e
    kind = want or ("b" if rng.random() < 0.6 else "i")
    if kind == "b":
        q = rng.random()
        if q < 0.2:
            return ["not", gen_expr(rng, avail, depth + 1, None, floats)]
        if q < 0.6:
            op = BOOL_OPS[int(rng.integers(3))]
            if op == "^":
                # '^' is not in the documented operator list; it is a *bitwise* xor on python ints.  It is only generated
                # on 0/1-valued operands (plain MCMs or boolean-typed sub-expressions), where bitwise = logical.
                def zo():
                    return ["m", int(avail[int(rng.integers(len(avail)))])] if rng.random() < 0.6 else gen_expr(rng, avail, depth + 1, "b")
                return ["bin", "^", zo(), zo()]
            return ["bin", op, gen_expr(rng, avail, depth + 1, None), gen_expr(rng, avail, depth + 1, None)]
        op = CMP_OPS[int(rng.integers(6))]
        a = gen_expr(rng, avail, depth + 1, None, floats)
        b = const() if rng.random() < 0.6 else gen_expr(rng, avail, depth + 1, None)
        return ["bin", op, a, b] if rng.random() < 0.85 or b[0] != "k" else ["bin", _flip(op), b, a]
    # arithmetic: never bool ⊕ bool
    op = ARITH_OPS[int(rng.integers(3))]
    a = gen_expr(rng, avail, depth + 1, None, floats)
    if expr_type(a) == "b":
        b = gen_expr(rng, avail, depth + 1, "i", floats) if rng.random() < 0.5 else const()
    else:
        b = const() if rng.random() < 0.4 else gen_expr(rng, avail, depth + 1, None, floats)
    if rng.random() < 0.5 and b[0] == "k":
        a, b = b, a  # constant on the left: exercises __radd__/__rsub__/__rmul__
    if a[0] == "k" and b[0] == "k":
        b = leaf_m()
    return ["bin", op, a, b]


def _flip(op):
    return {"<": ">", ">": "<", "<=": ">=", ">=": "<=", "==": "==", "!=": "!="}[op]


# ------------------------------------------------------------------------------------------------ programs
def _gate(rng, wires, generic):
    two = len(wires) >= 2 and rng.random() < 0.35
    name, npar = (GATES_2 if two else GATES_1)[int(rng.integers(len(GATES_2 if two else GATES_1)))]
    ws = [wires[int(i)] for i in rng.choice(len(wires), size=2 if two else 1, replace=False)]
    ps = [(num.generic_angle(rng) if generic else num.angle(rng, special=0.2)) for _ in range(npar)]
    return ["g", name, ps, ws]


def _body(rng, wires, avail, depth, allow_nested, nested_prob):
    out = []
    for _ in range(int(rng.integers(1, 3))):
        if allow_nested and depth < 2 and len(avail) >= 1 and rng.random() < nested_prob:
            e = gen_expr(rng, avail, 1, "b" if rng.random() < 0.5 else None)
            els = _body(rng, wires, avail, depth + 1, False, 0) if rng.random() < 0.4 else None
            out.append(["c", e, _body(rng, wires, avail, depth + 1, allow_nested, nested_prob), els])
        else:
            out.append(_gate(rng, wires, True))
    return out


def gen_program(rng, n_wires=None, max_mcm=5, p_postselect=0.25, p_reset=0.35, nested_prob=0.0, labels=None):
    """Random dynamic circuit.  Every MCM is preceded by a generic rotation of the measured wire (so that both outcomes
    have non-negligible probability, except in the deliberately deterministic cases)."""
    n = n_wires or int(rng.integers(2, 5))
    wires = labels or num.wire_labels(rng, n, mode=["range", "noncontig", "str", "perm"][int(rng.integers(4))])
    k = int(rng.integers(1, max_mcm + 1))
    stmts = []
    for w in wires:
        if rng.random() < 0.8:
            stmts.append(["g", "RY", [num.generic_angle(rng)], [w]])
    for _ in range(int(rng.integers(0, 3))):
        stmts.append(_gate(rng, wires, False))
    avail = []
    for i in range(k):
        w = wires[int(rng.integers(n))]
        r = rng.random()
        if r < 0.75:
            stmts.append(["g", ["RX", "RY"][int(rng.integers(2))], [float(rng.uniform(0.4, 2.7))], [w]])
        elif r < 0.85 and len(wires) > 1:
            o = [x for x in wires if x != w][0]
            stmts.append(["g", "CNOT", [], [o, w]])
        ps = None
        if rng.random() < p_postselect:
            ps = int(rng.integers(2))
        stmts.append(["m", i, w, bool(rng.random() < p_reset), ps])
        avail.append(i)
        # classically controlled block(s) and ordinary gates after the measurement
        for _ in range(int(rng.integers(0, 3))):
            if rng.random() < 0.7:
                e = gen_expr(rng, avail, 0, "b" if rng.random() < 0.6 else None)
                els = _body(rng, wires, avail, 1, False, 0) if rng.random() < 0.4 else None
                stmts.append(["c", e, _body(rng, wires, avail, 1, nested_prob > 0, nested_prob), els])
            else:
                stmts.append(_gate(rng, wires, False))
    return {"wires": wires, "stmts": stmts, "n_mcm": k}


def gen_deterministic_ps(rng):
    """Postselected circuits whose valid-shot statistics are *deterministic* (so that any contamination by invalid shots is
    an exact, shot-count-independent discrepancy): w0 is rotated, optionally copied onto w1 by a CNOT, then measured with
    postselection (no reset); a conditional X on w2 mirrors the outcome."""
    b = int(rng.integers(2))
    th = float(rng.uniform(0.9, 2.2))
    stmts = [["g", "RY", [th], [0]]]
    if rng.random() < 0.7:
        stmts.append(["g", "CNOT", [], [0, 1]])
    else:
        stmts.append(["g", "RY", [float(rng.uniform(0.5, 2.5))], [1]])
    stmts.append(["m", 0, 0, False, b])
    stmts.append(["c", ["m", 0], [["g", "PauliX", [], [2]]], None])
    return {"wires": [0, 1, 2], "stmts": stmts, "n_mcm": 1}, b


def add_broadcast(rng, prog, B=None):
    """Copy of ``prog`` in which one or two gate parameters are batches of size B (lists); None if no parametrised gate."""
    import copy

    B = B or int(rng.integers(2, 4))
    new = copy.deepcopy(prog)
    slots = []

    def walk(stmts, inside):
        for s in stmts:
            if s[0] == "g" and s[2]:
                slots.append((s, inside))
            elif s[0] == "c":
                walk(s[2], True)
                if s[3]:
                    walk(s[3], True)

    walk(new["stmts"], False)
    if rng.random() < 0.5:
        slots = [x for x in slots if not x[1]] or slots
    if not slots:
        return None, 0, False
    in_cond = False
    for k in rng.choice(len(slots), size=min(len(slots), int(rng.integers(1, 3))), replace=False):
        s, inside = slots[int(k)]
        j = int(rng.integers(len(s[2])))
        if isinstance(s[2][j], list):
            continue
        s[2][j] = [float(s[2][j] + d) for d in rng.uniform(-1.5, 1.5, size=B)]
        in_cond = in_cond or inside
    return new, B, in_cond


def has_nested(stmts, depth=0):
    for s in stmts:
        if s[0] == "c":
            if depth >= 1:
                return True
            if has_nested(s[2], depth + 1) or (s[3] and has_nested(s[3], depth + 1)):
                return True
    return False


def flatten_nested(stmts, outer=None):
    """Equivalent program in which nested conds are replaced by conds on the conjunction of the predicates."""
    out = []
    for s in stmts:
        if s[0] != "c":
            out.append(s if outer is None else ["c", outer, [s], None])
            continue
        e = s[1]
        pos = e if outer is None else ["bin", "&", outer, e]
        neg = ["not", e] if outer is None else ["bin", "&", outer, ["not", e]]
        out.extend(flatten_nested(s[2], pos))
        if s[3]:
            out.extend(flatten_nested(s[3], neg))
    return out


def postselects(prog):
    return [s for s in prog["stmts"] if s[0] == "m" and s[4] is not None]


def n_conds(stmts):
    return sum(1 + n_conds(s[2]) + (n_conds(s[3]) if s[3] else 0) for s in stmts if s[0] == "c")


def describe(prog):
    def d(stmts):
        out = []
        for s in stmts:
            if s[0] == "g":
                out.append(f"{s[1]}({','.join(f'{p:.4g}' if not isinstance(p, list) else 'batch' for p in s[2])})@{s[3]}")
            elif s[0] == "m":
                out.append(f"m{s[1]}=measure({s[2]}{',reset' if s[3] else ''}{',ps=' + str(s[4]) if s[4] is not None else ''})")
            else:
                out.append(f"cond[{show_expr(s[1])}]{{{'; '.join(d(s[2]))}}}" + (f"else{{{'; '.join(d(s[3]))}}}" if s[3] else ""))
        return out
    return d(prog["stmts"])


# ------------------------------------------------------------------------------------------------ builders
def run_pennylane(qp, prog, batch_index=None):
    """Queue the program (call inside a QNode / make_qscript).  Returns {idx: MeasurementValue}."""
    ms = {}

    def run(stmts):
        for s in stmts:
            if s[0] == "g":
                ps = [(np.array(p) if isinstance(p, list) else p) for p in s[2]]
                getattr(qp, s[1])(*ps, wires=s[3])
            elif s[0] == "m":
                ms[s[1]] = qp.measure(s[2], reset=s[3], postselect=s[4])
            else:
                pred = to_mv(s[1], ms)
                tf = (lambda body=s[2]: run(body))
                ff = (lambda body=s[3]: run(body)) if s[3] is not None else None
                qp.cond(pred, tf, ff)()

    run(prog["stmts"])
    return ms


def rbr_program(prog, batch_index=None, ev=None):
    """R-BR program of the AST (gate matrices from R-GATES, predicates from the AST evaluator ``ev``)."""
    ev = ev or eval_expr
    from pv.ref import c21_branch as br
    from pv.ref import gates as G

    def conv(stmts):
        out = []
        for s in stmts:
            if s[0] == "g":
                ps = [(p[batch_index] if isinstance(p, list) else p) for p in s[2]]
                M = G.ref_matrix(s[1], ps, len(s[3]), {})
                assert M is not None, s[1]
                out.append(br.gate(M, s[3]))
            elif s[0] == "m":
                out.append(br.measure(s[1], s[2], None, s[3], s[4]))
            else:
                e = s[1]
                out.append(br.cond((lambda oc, e=e: bool(ev(e, oc))), conv(s[2])))
                if s[3]:
                    out.append(br.cond((lambda oc, e=e: not ev(e, oc)), conv(s[3])))
        return out

    return conv(prog["stmts"])
