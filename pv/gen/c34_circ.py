"""Circuit *specifications* for the differentiation checks (C34, C37, C38): one JSON-able description from which both
the reference cost function (pv/ref/sv.py + pv/ref/gates.py, numpy only) and the real PennyLane quantum function are
built.  The reference side never touches PennyLane.

spec = {
  "nw": int, "wires": [labels], "n_in": int,
  "gates": [ {"name": str, "wires": [...], "hyper": {...}, "args": [expr, ...]} ],
  "meas":  [ {"kind": "expval"|"var", "obs": obs} | {"kind": "probs", "wires": [...]} ],
  "batch": None | int          # size of the broadcast dimension (exprs of kind "xb" produce batched gate parameters)
}
expr (classical pre-processing of the inputs x[0..n_in-1]):
  ("c", v) constant | ("x", i) | ("lin", i, a, b) a*x_i+b | ("sin", i) | ("mul", i, j) x_i*x_j | ("sq", i) x_i^2
  | ("add", i, j, a) x_i + a*x_j | ("xb", (i0, i1, ...)) batched parameter [x_i0, x_i1, ...]
  | ("xbs", (i0, ...), a) batched a*[x_i0, ...]
obs: ("pauli", word, wires) | ("herm", matrix(list), wires) | ("sum", [(coeff, word, wires), ...]) | ("proj", bits, wires)
"""
from __future__ import annotations

import math

import numpy as np

from pv.ref import gates as G
from pv.ref import sv

# name -> (n_params, n_wires)
FIXED_GATES = {"Hadamard": 1, "PauliX": 1, "S": 1, "T": 1, "SX": 1, "CNOT": 2, "CZ": 2, "SWAP": 2, "ISWAP": 2, "Toffoli": 3}
ROT1 = ["RX", "RY", "RZ", "PhaseShift", "U1"]
MULTI1 = {"Rot": 3, "U3": 3, "U2": 2}
ROT2 = ["CRX", "CRY", "CRZ", "ControlledPhaseShift", "IsingXX", "IsingYY", "IsingZZ", "IsingXY", "PSWAP", "SingleExcitation",
        "SingleExcitationPlus", "SingleExcitationMinus", "FermionicSWAP", "CPhaseShift00", "CPhaseShift01", "CPhaseShift10"]
ROT4 = ["DoubleExcitation", "DoubleExcitationPlus", "DoubleExcitationMinus", "OrbitalRotation"]
# pseudo gates built with qp.ctrl / qp.adjoint / qp.pow around a rotation
WRAPPED = ["C(RX)", "C(RY)", "C(RZ)", "C(PhaseShift)", "C(Rot)", "Adj(RX)", "Adj(RY)", "Adj(CRZ)", "C(IsingXX)"]


# --------------------------------------------------------------------------------------------------- expressions
def ev_expr(e, x, M):
    """Evaluate an expression on the input vector x with math namespace M (numpy-like: sin, stack)."""
    k = e[0]
    if k == "c":
        return e[1]
    if k == "x":
        return x[e[1]]
    if k == "lin":
        return e[2] * x[e[1]] + e[3]
    if k == "sin":
        return M.sin(x[e[1]])
    if k == "mul":
        return x[e[1]] * x[e[2]]
    if k == "sq":
        return x[e[1]] ** 2
    if k == "add":
        return x[e[1]] + e[3] * x[e[2]]
    if k == "xb":
        return M.stack([x[i] for i in e[1]])
    if k == "xbs":
        return e[2] * M.stack([x[i] for i in e[1]])
    raise ValueError(e)


def expr_inputs(e):
    k = e[0]
    if k == "c":
        return set()
    if k in ("x", "lin", "sin", "sq"):
        return {e[1]}
    if k in ("mul", "add"):
        return {e[1], e[2]}
    if k in ("xb", "xbs"):
        return set(e[1])
    raise ValueError(e)


def is_batched(e):
    return e[0] in ("xb", "xbs")


# --------------------------------------------------------------------------------------------------- reference
def ref_gate_matrix(g, params):
    """Documented unitary of one spec gate at scalar parameters ``params`` (floats)."""
    name = g["name"]
    hy = g.get("hyper") or {}
    nw = len(g["wires"])
    if name.startswith("C(") or name.startswith("Adj("):
        inner = name[name.index("(") + 1:-1]
        if name.startswith("C("):
            nc = hy["n_ctrl"]
            base = G.ref_matrix(inner, params, nw - nc, hy)
            return G.controlled(base, nc, hy.get("control_values"))
        base = G.ref_matrix(inner, params, nw, hy)
        return base.conj().T
    M = G.ref_matrix(name, params, nw, hy)
    if M is None:
        raise KeyError(name)
    return M


def obs_matrix(obs):
    """(dense matrix, wires) of a spec observable."""
    k = obs[0]
    if k == "pauli":
        return G.pauli_word_matrix(obs[1]), list(obs[2])
    if k == "herm":
        return np.asarray(obs[1], dtype=complex), list(obs[2])
    if k == "proj":
        bits = obs[1]
        idx = int("".join(str(b) for b in bits), 2)
        P = np.zeros((2 ** len(bits),) * 2, dtype=complex)
        P[idx, idx] = 1
        return P, list(obs[2])
    if k == "sum":
        ws = []
        for _, _, w in obs[1]:
            for a in w:
                if a not in ws:
                    ws.append(a)
        tot = np.zeros((2 ** len(ws),) * 2, dtype=complex)
        for c, word, w in obs[1]:
            tot = tot + c * sv.embed(G.pauli_word_matrix(word), list(w), ws)
        return tot, ws
    raise ValueError(obs)


class Ref:
    """Reference model of a spec: states and measurement values as functions of the inputs x or of the gate parameters."""

    def __init__(self, spec):
        self.spec = spec
        self.wires = list(spec["wires"])
        self.obs = []
        for m in spec["meas"]:
            if m["kind"] in ("expval", "var"):
                O, w = obs_matrix(m["obs"])
                self.obs.append((O, w, O @ O))
            else:
                self.obs.append(None)

    # gate parameters ------------------------------------------------------------------------------------
    def gate_params(self, x, b=None):
        """List (per gate) of lists of float parameters at inputs x; batch slice b for batched expressions."""
        out = []
        for g in self.spec["gates"]:
            ps = []
            for e in g["args"]:
                v = ev_expr(e, x, np)
                if is_batched(e):
                    v = v[b]
                ps.append(float(v))
            out.append(ps)
        return out

    def state_from_gate_params(self, gp):
        gl = [(ref_gate_matrix(g, p), g["wires"]) for g, p in zip(self.spec["gates"], gp)]
        return sv.run(gl, self.wires)

    def measure(self, psi):
        vals = []
        for m, o in zip(self.spec["meas"], self.obs):
            if m["kind"] == "expval":
                vals.append(np.array([sv.expval(psi, o[0], o[1], self.wires).real]))
            elif m["kind"] == "var":
                e1 = sv.expval(psi, o[0], o[1], self.wires).real
                e2 = sv.expval(psi, o[2], o[1], self.wires).real
                vals.append(np.array([e2 - e1 * e1]))
            else:
                vals.append(sv.probs(psi, self.wires, m["wires"]))
        return vals

    def f(self, x):
        """Flat vector of all results; layout per measurement [batch, dim] (batch axis only when spec['batch'])."""
        x = np.asarray(x, dtype=float)
        B = self.spec.get("batch")
        if not B:
            return np.concatenate(self.measure(self.state_from_gate_params(self.gate_params(x))))
        per_b = [self.measure(self.state_from_gate_params(self.gate_params(x, b))) for b in range(B)]
        outs = []
        for k in range(len(self.spec["meas"])):
            outs.append(np.stack([per_b[b][k] for b in range(B)]).reshape(-1))
        return np.concatenate(outs)

    # gate-parameter view (tape level): theta = flat vector of ALL gate parameters, order of appearance
    def flat_gate_params(self, x):
        return np.array([p for ps in self.gate_params(x) for p in ps], dtype=float)

    def unflatten(self, theta):
        out, k = [], 0
        for g in self.spec["gates"]:
            n = len(g["args"])
            out.append([float(t) for t in theta[k:k + n]])
            k += n
        return out

    def f_theta(self, theta):
        return np.concatenate(self.measure(self.state_from_gate_params(self.unflatten(theta))))

    def state_theta(self, theta):
        return self.state_from_gate_params(self.unflatten(theta))


# --------------------------------------------------------------------------------------------------- PennyLane side
def pl_obs(qp, obs):
    k = obs[0]
    P = {"X": qp.X, "Y": qp.Y, "Z": qp.Z, "I": qp.Identity}
    if k == "pauli":
        ops = [P[c](w) for c, w in zip(obs[1], obs[2])]
        return ops[0] if len(ops) == 1 else qp.prod(*ops)
    if k == "herm":
        return qp.Hermitian(np.asarray(obs[1], dtype=complex), wires=list(obs[2]))
    if k == "proj":
        return qp.Projector(list(obs[1]), wires=list(obs[2]))
    if k == "sum":
        terms = []
        for c, word, w in obs[1]:
            ops = [P[ch](a) for ch, a in zip(word, w)]
            terms.append(ops[0] if len(ops) == 1 else qp.prod(*ops))
        return qp.dot([c for c, _, _ in obs[1]], terms)
    raise ValueError(obs)


def pl_apply_gate(qp, g, params):
    name, wires, hy = g["name"], list(g["wires"]), g.get("hyper") or {}
    if name.startswith("C("):
        inner = name[2:-1]
        nc = hy["n_ctrl"]
        cw, tw = wires[:nc], wires[nc:]
        base = getattr(qp, inner)(*params, wires=tw)
        return qp.ctrl(base, control=cw, control_values=hy.get("control_values"))
    if name.startswith("Adj("):
        inner = name[4:-1]
        return qp.adjoint(getattr(qp, inner)(*params, wires=wires))
    if name == "PauliRot":
        return qp.PauliRot(params[0], hy["pauli_word"], wires=wires)
    return getattr(qp, name)(*params, wires=wires)


def pl_measurements(qp, spec):
    out = []
    for m in spec["meas"]:
        if m["kind"] == "expval":
            out.append(qp.expval(pl_obs(qp, m["obs"])))
        elif m["kind"] == "var":
            out.append(qp.var(pl_obs(qp, m["obs"])))
        else:
            out.append(qp.probs(wires=list(m["wires"])))
    return out


def make_qfunc(qp, spec, mode="array"):
    """Quantum function of the spec.  mode 'array': one array argument x; 'scalars': n_in scalar arguments."""
    M = qp.math

    def body(x):
        for g in spec["gates"]:
            params = [ev_expr(e, x, M) for e in g["args"]]
            pl_apply_gate(qp, g, params)
        ms = pl_measurements(qp, spec)
        return ms[0] if len(ms) == 1 else tuple(ms)

    if mode == "array":
        def circuit(x):
            return body(x)
    else:
        def circuit(*xs):
            return body(list(xs))
    return circuit


def make_tape(qp, spec, theta, trainable=None, shots=None):
    """QuantumScript with concrete gate parameters theta (flat, order of appearance)."""
    ops, k = [], 0
    tr = None if trainable is None else set(trainable)
    with qp.QueuingManager.stop_recording():
        for g in spec["gates"]:
            n = len(g["args"])
            ops.append(pl_apply_gate(qp, g, [qp.numpy.array(float(t), requires_grad=(tr is None or (k + j) in tr))
                                             for j, t in enumerate(theta[k:k + n])]))
            k += n
        ms = pl_measurements(qp, spec)
    tape = qp.tape.QuantumScript(ops, ms, shots=shots)
    if trainable is not None:
        tape.trainable_params = list(trainable)
    return tape


# --------------------------------------------------------------------------------------------------- generator
def _rand_herm(rng, k):
    d = 2**k
    A = rng.normal(size=(d, d)) + 1j * rng.normal(size=(d, d))
    Hm = (A + A.conj().T) / 2
    return [[complex(round(v.real, 6), round(v.imag, 6)) for v in row] for row in Hm]


def random_obs(rng, wires, kinds=("pauli", "pauli", "sum", "herm", "proj")):
    wires = list(wires)
    kind = kinds[int(rng.integers(len(kinds)))]
    if kind == "pauli":
        k = int(rng.integers(1, min(3, len(wires)) + 1))
        w = [wires[int(i)] for i in rng.choice(len(wires), size=k, replace=False)]
        return ("pauli", "".join(rng.choice(list("XYZ"), size=k)), w)
    if kind == "sum":
        terms = []
        for _ in range(int(rng.integers(2, 4))):
            k = int(rng.integers(1, min(2, len(wires)) + 1))
            w = [wires[int(i)] for i in rng.choice(len(wires), size=k, replace=False)]
            terms.append((round(float(rng.uniform(-1.5, 1.5)), 4), "".join(rng.choice(list("XYZ"), size=k)), w))
        return ("sum", terms)
    if kind == "herm":
        k = int(rng.integers(1, min(2, len(wires)) + 1))
        w = [wires[int(i)] for i in rng.choice(len(wires), size=k, replace=False)]
        Hm = np.array(_rand_herm(rng, k))
        Hm = (Hm + Hm.conj().T) / 2
        return ("herm", Hm.tolist(), w)
    k = int(rng.integers(1, min(2, len(wires)) + 1))
    w = [wires[int(i)] for i in rng.choice(len(wires), size=k, replace=False)]
    return ("proj", [int(b) for b in rng.integers(0, 2, size=k)], w)


def random_expr(rng, n_in, allow_pre=True, force=None):
    i = int(rng.integers(n_in)) if force is None else force
    if not allow_pre or rng.random() < 0.45:
        return ("x", i)
    r = rng.random()
    if r < 0.35:
        return ("lin", i, round(float(rng.choice([-2.0, -1.0, 0.5, 2.0, 1.5, 3.0])), 3), round(float(rng.uniform(-1, 1)), 3))
    if r < 0.55:
        return ("sin", i)
    if r < 0.75 and n_in > 1:
        j = int((i + 1 + rng.integers(n_in - 1)) % n_in)
        return ("mul", i, j)
    if r < 0.85:
        return ("sq", i)
    if n_in > 1:
        j = int((i + 1 + rng.integers(n_in - 1)) % n_in)
        return ("add", i, j, round(float(rng.choice([-1.0, 0.5, 2.0])), 3))
    return ("lin", i, 2.0, 0.0)


def random_gate(rng, wires, pool):
    """Pick a gate name from pool that fits on len(wires) wires; returns (name, gate_wires, hyper, n_params)."""
    wires = list(wires)
    nw = len(wires)
    for _ in range(50):
        name = pool[int(rng.integers(len(pool)))]
        hy = {}
        if name in FIXED_GATES:
            k, npar = FIXED_GATES[name], 0
        elif name in ROT1:
            k, npar = 1, 1
        elif name in MULTI1:
            k, npar = 1, MULTI1[name]
        elif name == "CRot":
            k, npar = 2, 3
        elif name in ROT2:
            k, npar = 2, 1
        elif name in ROT4:
            k, npar = 4, 1
        elif name == "MultiRZ":
            k, npar = int(rng.integers(1, min(3, nw) + 1)), 1
        elif name == "PauliRot":
            k, npar = int(rng.integers(1, min(3, nw) + 1)), 1
            word = "".join(rng.choice(list("XYZ"), size=k))
            hy = {"pauli_word": word}
        elif name in WRAPPED:
            inner = name[name.index("(") + 1:-1]
            base_k = 2 if inner in ROT2 else 1
            npar = 3 if inner == "Rot" else 1
            if name.startswith("C("):
                nc = int(rng.integers(1, 3))
                if base_k + nc > nw:
                    nc = 1
                k = base_k + nc
                hy = {"n_ctrl": nc, "control_values": [int(b) for b in rng.integers(0, 2, size=nc)]}
                if not any(hy["control_values"]) and rng.random() < 0.5:
                    hy["control_values"][0] = 1
            else:
                k = base_k
        else:
            raise KeyError(name)
        if k <= nw:
            gw = [wires[int(i)] for i in rng.choice(nw, size=k, replace=False)]
            return name, gw, hy, npar
    return "RX", [wires[0]], {}, 1


DEFAULT_POOL = (ROT1 + ["RX", "RY", "RZ"] + list(MULTI1) + ["CRot"] + ROT2 + ROT4 + ["MultiRZ", "PauliRot", "PauliRot"]
                + WRAPPED + ["Hadamard", "CNOT", "CNOT", "CZ", "S", "T", "SX", "SWAP", "Toffoli", "PauliX", "ISWAP"])


def random_spec(rng, nw=None, n_in=None, n_gates=None, pool=None, meas_kinds=("expval", "var", "probs"), n_meas=None,
                pre=True, batch=False, obs_kinds=("pauli", "pauli", "sum", "herm", "proj"), labels="range",
                every_input_used=True, const_frac=0.15):
    """Random circuit spec.  Every input is used by at least one gate (so no identically-zero Jacobian column unless the
    circuit structure makes it so)."""
    pool = list(pool or DEFAULT_POOL)
    nw = nw or int(rng.integers(1, 5))
    n_in = n_in or int(rng.integers(1, 5))
    n_gates = n_gates or int(rng.integers(max(2, n_in), max(3, n_in) + 5))
    if labels == "range":
        wires = list(range(nw))
    elif labels == "perm":
        wires = [int(v) for v in rng.permutation(nw)]
    else:
        wires = ["a", "b", "c", "d", "e", "f"][:nw]
    gates = []
    # an entangling/superposing prefix so that derivatives are generically non-zero
    for w in wires:
        if rng.random() < 0.6:
            gates.append({"name": "Hadamard", "wires": [w], "hyper": {}, "args": []})
    B = int(rng.integers(2, 4)) if batch else None
    used = set()
    param_gates = 0
    tries = 0
    while (param_gates < n_gates or (every_input_used and len(used) < n_in)) and tries < 200:
        tries += 1
        name, gw, hy, npar = random_gate(rng, wires, pool)
        args = []
        for _ in range(npar):
            if rng.random() < const_frac:
                args.append(("c", round(float(rng.uniform(-3, 3)), 4)))
                continue
            missing = [i for i in range(n_in) if i not in used]
            force = missing[0] if (missing and rng.random() < 0.7) else None
            args.append(random_expr(rng, n_in, allow_pre=pre, force=force))
        for a in args:
            used |= expr_inputs(a)
        gates.append({"name": name, "wires": gw, "hyper": hy, "args": args})
        if npar:
            param_gates += 1
    if B:
        # one batched single-parameter gate whose batch entries are distinct trainable inputs (appended inputs)
        idx = tuple(range(n_in, n_in + B))
        n_in += B
        name = ["RX", "RY", "RZ", "CRX", "IsingXX", "PhaseShift", "CRY"][int(rng.integers(7))]
        k = 2 if name in ROT2 else 1
        if k > nw:
            name, k = "RY", 1
        gw = [wires[int(i)] for i in rng.choice(nw, size=k, replace=False)]
        e = ("xb", idx) if rng.random() < 0.6 else ("xbs", idx, 2.0)
        pos = int(rng.integers(0, len(gates) + 1))
        gates.insert(pos, {"name": name, "wires": gw, "hyper": {}, "args": [e]})
    n_meas = n_meas or int(rng.integers(1, 4))
    meas = []
    for _ in range(n_meas):
        kind = meas_kinds[int(rng.integers(len(meas_kinds)))]
        if kind == "probs":
            k = int(rng.integers(1, min(2, nw) + 1))
            w = [wires[int(i)] for i in rng.choice(nw, size=k, replace=False)]
            meas.append({"kind": "probs", "wires": w})
        else:
            meas.append({"kind": kind, "obs": random_obs(rng, wires, obs_kinds)})
    # overlapping observables on the same wires are not simultaneously measurable for probs+expval in general; with
    # shots=None default.qubit computes each analytically, so any combination is admitted.
    return {"nw": nw, "wires": wires, "n_in": n_in, "gates": gates, "meas": meas, "batch": B}


def random_point(rng, n_in):
    """Generic parameter point away from the special points where |.|-type kinks could matter (none here: everything is
    smooth), but bounded so classical pre-processing keeps effective frequencies moderate."""
    return np.round(rng.uniform(-1.6, 1.6, size=n_in), 6)


def describe(spec):
    def g2s(g):
        a = ",".join("%s" % (e,) for e in g["args"])
        return f"{g['name']}{g['wires']}({a})" + (str(g["hyper"]) if g.get("hyper") else "")
    def m2s(m):
        if m["kind"] == "probs":
            return f"probs{m['wires']}"
        o = m["obs"]
        return f"{m['kind']}({o[0]}:{o[1] if o[0] != 'herm' else 'H'})"
    return {"nw": spec["nw"], "n_in": spec["n_in"], "batch": spec.get("batch"), "gates": [g2s(g) for g in spec["gates"]],
            "meas": [m2s(m) for m in spec["meas"]]}
