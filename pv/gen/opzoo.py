"""G-OP / G-EXPR — operator-instance zoo and nested operator-expression generator.

Public API (``qp`` is the imported pennylane module; it is never imported at module import time):

* ``classes(qp)``                         → sorted list of every *concrete* operator class reachable recursively from
                                             ``qp.operation.Operator.__subclasses__()`` and ``Operator2.__subclasses__()``
                                             (abstract/meta bases are listed in ``META_BASES`` and left out).
* ``make(qp, cls, rng, wires=None, batch=None)`` → one valid instance of ``cls`` (class object or class name); raises
                                             ``NoRecipe`` when neither the hand-written recipe table nor the
                                             signature-driven fallback can build one.  Deterministic in the state of
                                             ``rng`` (two generators with the same seed give identical-data instances).
* ``instances(qp, rng, max_wires=6, per_class=1, only=None, batch_frac=0.0, report=None)``
                                           → iterator of ``(op, info)``; classes that cannot be built (or that are
                                             larger than ``max_wires``) are reported through ``report(cls_name, why)``
                                             (pass ``ctx.uncovered``) and skipped — never fatal.
* ``random_expr(qp, rng, depth, max_wires=4, ...)`` → ``(operator, tree)``: nested arithmetic expression and a JSON-able
                                             recipe of how it was built, ``expr_matrix(tree, wire_order)`` recomputes
                                             its matrix with numpy only (pv.ref.gates / pv.ref.sv; R-MAT).
* ``info_of(op)``                          → JSON-able description of an instance (name, data, wires, hyper reprs).

Recipes are ``callable(qp, rng, wires, par) -> instance`` where ``wires`` is a pool (list) of ≥ 14 distinct wire labels
(the recipe takes as many as it needs from the front) and ``par`` is a parameter source (hostile angles through
``pv.gen.num.angle``; batched only when the class supports broadcasting and a batch was requested).
"""
from __future__ import annotations

import inspect
import math

import numpy as np

from . import num


class NoRecipe(Exception):
    pass


# classes that are abstract / meta bases: never instantiated on their own
META_BASES = {
    "Operator", "Operation", "Channel", "StatePrepBase", "StatePrepBase2", "CompositeOp", "SymbolicOp", "SymbolicOp2",
    "ScalarSymbolicOp", "Operator2", "Observable", "CVOperation", "CVObservable", "CV",
    "Controlled2",  # documented as "an interface that is not meant to be instantiated"
}

# classes that cannot be instantiated in this sandbox, with the reason (reported as uncovered)
UNBUILDABLE = {
    "FromBloq": "needs the qualtran package (not installed)",
}


# ----------------------------------------------------------------------------------------------------------------------
# class enumeration
# ----------------------------------------------------------------------------------------------------------------------
def _all_subclasses(c, seen):
    for s in c.__subclasses__():
        if s not in seen:
            seen.add(s)
            _all_subclasses(s, seen)
    return seen


def classes(qp, include_meta=False):
    from pennylane.core.operator import Operator2

    seen = _all_subclasses(qp.operation.Operator, set()) | _all_subclasses(Operator2, set())
    out = []
    for c in seen:
        if not c.__module__.startswith("pennylane."):
            continue  # classes defined by tests / by other checks in this process
        if not include_meta and (c.__name__ in META_BASES or inspect.isabstract(c)):
            continue
        out.append(c)
    return sorted(out, key=lambda c: (c.__module__, c.__name__))


def class_by_name(qp, name):
    for c in classes(qp, include_meta=True):
        if c.__name__ == name:
            return c
    raise NoRecipe(f"unknown class {name}")


def supports_broadcasting(qp, cls_or_name):
    name = cls_or_name if isinstance(cls_or_name, str) else cls_or_name.__name__
    try:
        return name in qp.ops.qubit.attributes.supports_broadcasting
    except Exception:  # noqa: BLE001
        return False


# ----------------------------------------------------------------------------------------------------------------------
# parameter source
# ----------------------------------------------------------------------------------------------------------------------
class Par:
    """Hostile parameter source.  ``batch`` = None (scalars) or an int B (1-d arrays of B angles for ``angle``)."""

    def __init__(self, rng, batch=None, containers=True):
        self.rng = rng
        self.batch = batch
        self.containers = containers
        self.nbatched = 0

    def angle(self):
        if self.batch:
            self.nbatched += 1
            return np.array([num.angle(self.rng) for _ in range(self.batch)])
        x = num.angle(self.rng)
        return num.container(self.rng, x) if self.containers else x

    def scalar(self):
        """Never batched."""
        return float(num.angle(self.rng))

    def generic(self):
        return float(self.rng.uniform(-math.pi, math.pi))

    def prob(self, hi=1.0):
        r = self.rng.random()
        if r < 0.1:
            return 0.0
        if r < 0.15:
            return float(hi)
        return float(self.rng.uniform(0, hi))

    def angles(self, shape):
        a = np.array([num.angle(self.rng) for _ in range(int(np.prod(shape)))], dtype=float).reshape(shape)
        if self.batch:
            self.nbatched += 1
            return np.stack([a] + [np.array([num.angle(self.rng) for _ in range(int(np.prod(shape)))]).reshape(shape)
                                   for _ in range(self.batch - 1)])
        return a

    def unitary(self, dim):
        from pv.ref import sv
        if self.batch:
            self.nbatched += 1
            return np.stack([sv.haar_unitary(self.rng, dim) for _ in range(self.batch)])
        return sv.haar_unitary(self.rng, dim)

    def state(self, n, real=False):
        def one():
            v = self.rng.normal(size=2**n) + (0 if real else 1j * self.rng.normal(size=2**n))
            return v / np.linalg.norm(v)
        if self.batch:
            self.nbatched += 1
            return np.stack([one() for _ in range(self.batch)])
        return one()

    def hermitian(self, dim):
        A = self.rng.normal(size=(dim, dim)) + 1j * self.rng.normal(size=(dim, dim))
        return (A + A.conj().T) / 2

    def bits(self, n):
        return [int(x) for x in self.rng.integers(0, 2, size=n)]

    def int(self, lo, hi):
        return int(self.rng.integers(lo, hi))

    def choice(self, seq):
        return seq[int(self.rng.integers(len(seq)))]


def wire_pool(rng, n=14, mode=None):
    """≥ n distinct hashable wire labels (ints, strings, mixed, non-contiguous, permuted)."""
    if n <= 12:
        return num.wire_labels(rng, n, mode)
    head = num.wire_labels(rng, 12, mode)
    extra, k = [], 100
    while len(head) + len(extra) < n:
        if k not in head:
            extra.append(k)
        k += 1
    return head + extra


# ----------------------------------------------------------------------------------------------------------------------
# small building blocks used by several recipes
# ----------------------------------------------------------------------------------------------------------------------
_SIMPLE_1Q_PARAM = ["RX", "RY", "RZ", "PhaseShift"]
_SIMPLE_1Q_FIXED = ["PauliX", "PauliY", "PauliZ", "Hadamard", "S", "T", "SX"]


def simple_gate(qp, rng, wires, par=None, nq=None):
    """A small, well-behaved unitary gate on wires[:k] (k = 1 or 2) used as a base of wrappers/templates."""
    par = par or Par(rng)
    r = rng.random()
    if nq == 1 or (nq is None and r < 0.6) or len(wires) < 2:
        if rng.random() < 0.6:
            return getattr(qp, par.choice(_SIMPLE_1Q_PARAM))(par.scalar(), wires=wires[0])
        return getattr(qp, par.choice(_SIMPLE_1Q_FIXED))(wires=wires[0])
    name = par.choice(["CNOT", "CZ", "SWAP", "IsingXX", "IsingZZ", "CRX", "CRY", "ControlledPhaseShift", "IsingXY"])
    cls = getattr(qp, name)
    if name in ("CNOT", "CZ", "SWAP"):
        return cls(wires=wires[:2])
    return cls(par.scalar(), wires=wires[:2])


def pauli_word_op(qp, rng, wires, n=None):
    n = n or int(rng.integers(1, min(3, len(wires)) + 1))
    ops = [getattr(qp, "Pauli" + str(rng.choice(list("XYZ"))))(wires=w) for w in wires[:n]]
    return ops[0] if n == 1 else qp.prod(*ops)


def small_hamiltonian(qp, rng, wires, nterms=None, kind=None):
    """Hermitian Sum / LinearCombination of Pauli words on ≤ 2 wires."""
    nterms = nterms or int(rng.integers(2, 4))
    terms, coeffs = [], []
    for _ in range(nterms):
        k = int(rng.integers(1, min(2, len(wires)) + 1))
        idx = rng.choice(len(wires[:2]) if len(wires) >= 2 else 1, size=k, replace=False)
        ws = [wires[int(i)] for i in idx]
        terms.append(pauli_word_op(qp, rng, ws, n=k))
        coeffs.append(float(rng.uniform(-1.5, 1.5)))
    kind = kind or ["dot", "lc", "sum"][int(rng.integers(3))]
    if kind == "lc":
        return qp.ops.LinearCombination(coeffs, terms)
    if kind == "sum":
        return qp.sum(*[qp.s_prod(c, t) for c, t in zip(coeffs, terms)])
    return qp.dot(coeffs, terms)


def _hf(n, ne):
    return np.array([1] * ne + [0] * (n - ne))


# ----------------------------------------------------------------------------------------------------------------------
# the hand-written recipe table:  class name -> callable(qp, rng, wires, par) -> instance
# ----------------------------------------------------------------------------------------------------------------------
def _nopar(name, nw):
    def f(qp, rng, w, p):
        return getattr(qp, name)(wires=w[:nw])
    return f


def _angles(name, npar, nw):
    def f(qp, rng, w, p):
        cls = getattr(qp, name)
        if p.batch and npar > 1:
            # at least the first parameter batched, the others at random
            args = [p.angle()] + [(p.angle() if rng.random() < 0.5 else Par(rng).angle()) for _ in range(npar - 1)]
        else:
            args = [p.angle() for _ in range(npar)]
        return cls(*args, wires=w[:nw])
    return f


RECIPES = {}

for _n, _k in [("PauliX", 1), ("PauliY", 1), ("PauliZ", 1), ("Hadamard", 1), ("S", 1), ("T", 1), ("SX", 1), ("CNOT", 2),
               ("CZ", 2), ("CY", 2), ("CH", 2), ("SWAP", 2), ("ISWAP", 2), ("SISWAP", 2), ("ECR", 2), ("CSWAP", 3),
               ("Toffoli", 3), ("CCZ", 3), ("QubitSum", 3), ("QubitCarry", 4)]:
    RECIPES[_n] = _nopar(_n, _k)
for _n, _p, _k in [("RX", 1, 1), ("RY", 1, 1), ("RZ", 1, 1), ("PhaseShift", 1, 1), ("U1", 1, 1), ("Rot", 3, 1), ("U2", 2, 1),
                   ("U3", 3, 1), ("CRX", 1, 2), ("CRY", 1, 2), ("CRZ", 1, 2), ("CRot", 3, 2), ("ControlledPhaseShift", 1, 2),
                   ("CPhaseShift00", 1, 2), ("CPhaseShift01", 1, 2), ("CPhaseShift10", 1, 2), ("IsingXX", 1, 2),
                   ("IsingYY", 1, 2), ("IsingZZ", 1, 2), ("IsingXY", 1, 2), ("PSWAP", 1, 2), ("SingleExcitation", 1, 2),
                   ("SingleExcitationPlus", 1, 2), ("SingleExcitationMinus", 1, 2), ("DoubleExcitation", 1, 4),
                   ("DoubleExcitationPlus", 1, 4), ("DoubleExcitationMinus", 1, 4), ("OrbitalRotation", 1, 4),
                   ("FermionicSWAP", 1, 2)]:
    RECIPES[_n] = _angles(_n, _p, _k)


def recipe(name):
    def deco(f):
        RECIPES[name] = f
        return f
    return deco


# ---- core non-template ops ---------------------------------------------------------------------------------------
@recipe("Identity")
def _r(qp, rng, w, p):
    return qp.Identity(wires=w[: p.int(1, 4)])


@recipe("GlobalPhase")
def _r(qp, rng, w, p):
    return qp.GlobalPhase(p.angle()) if rng.random() < 0.5 else qp.GlobalPhase(p.angle(), wires=w[: p.int(1, 3)])


@recipe("Barrier")
def _r(qp, rng, w, p):
    return qp.Barrier(wires=w[: p.int(1, 4)], only_visual=bool(rng.integers(2)))


@recipe("WireCut")
def _r(qp, rng, w, p):
    return qp.WireCut(wires=w[: p.int(1, 3)])


@recipe("Snapshot")
def _r(qp, rng, w, p):
    r = rng.random()
    if r < 0.4:
        return qp.Snapshot(tag="t%d" % p.int(0, 5))
    if r < 0.7:
        return qp.Snapshot(measurement=qp.expval(qp.Z(w[0])), tag="hi")
    return qp.Snapshot(measurement=qp.probs(wires=w[:2]))


@recipe("MidMeasure")
def _r(qp, rng, w, p):
    return qp.ops.MidMeasure(wires=[w[0]], reset=bool(rng.integers(2)), postselect=p.choice([None, 0, 1]), meas_uid="m%d" % p.int(0, 100))


@recipe("PauliMeasure")
def _r(qp, rng, w, p):
    n = p.int(1, 4)
    word = "".join(rng.choice(list("XYZ"), size=n))
    return qp.ops.PauliMeasure(word, wires=w[:n], postselect=p.choice([None, 0, 1]))


@recipe("MultiRZ")
def _r(qp, rng, w, p):
    return qp.MultiRZ(p.angle(), wires=w[: p.int(1, 5)])


@recipe("PauliRot")
def _r(qp, rng, w, p):
    n = p.int(1, 4)
    word = "".join(rng.choice(list("XYZI"), size=n))
    if set(word) == {"I"} and rng.random() < 0.7:
        word = "X" + word[1:]
    return qp.PauliRot(p.angle(), word, wires=w[:n])


@recipe("TmpPauliRot")
def _r(qp, rng, w, p):
    n = p.int(1, 3)
    word = "".join(rng.choice(list("XYZ"), size=n))
    return qp.ops.qubit.special_unitary.TmpPauliRot(p.scalar(), word, wires=w[:n])


@recipe("PCPhase")
def _r(qp, rng, w, p):
    n = p.int(1, 4)
    return qp.PCPhase(p.angle(), dim=p.int(0, 2**n + 1), wires=w[:n])


@recipe("MultiControlledX")
def _r(qp, rng, w, p):
    n = p.int(2, 6)
    kw = {}
    if rng.random() < 0.3:
        kw = {"work_wires": w[n:n + p.int(1, 3)], "work_wire_type": p.choice(["zeroed", "borrowed"])}
    return qp.MultiControlledX(wires=w[:n], control_values=p.bits(n - 1), **kw)


@recipe("IntegerComparator")
def _r(qp, rng, w, p):
    n = p.int(2, 5)
    return qp.IntegerComparator(p.int(0, 2 ** (n - 1) + 1), geq=bool(rng.integers(2)), wires=w[:n])


@recipe("QubitUnitary")
def _r(qp, rng, w, p):
    n = p.int(1, 4)
    return qp.QubitUnitary(p.unitary(2**n), wires=w[:n])


@recipe("DiagonalQubitUnitary")
def _r(qp, rng, w, p):
    n = p.int(1, 4)
    return qp.DiagonalQubitUnitary(np.exp(1j * np.array([num.angle(rng) for _ in range(2**n)])), wires=w[:n])


@recipe("ControlledQubitUnitary")
def _r(qp, rng, w, p):
    nt, nc = p.int(1, 3), p.int(1, 3)
    return qp.ControlledQubitUnitary(p.unitary(2**nt), wires=w[: nc + nt], control_values=p.bits(nc))


@recipe("BlockEncode")
def _r(qp, rng, w, p):
    r = rng.random()
    if r < 0.3:
        A, n = np.array([[rng.uniform(-0.5, 0.5)]]), 1
    elif r < 0.8:
        A, n = rng.uniform(-0.4, 0.4, size=(2, 2)), 2
    else:
        A, n = rng.uniform(-0.4, 0.4, size=(2, 3)) + 1j * rng.uniform(-0.2, 0.2, size=(2, 3)), 3
    return qp.BlockEncode(A, wires=w[:n])


@recipe("SpecialUnitary")
def _r(qp, rng, w, p):
    n = p.int(1, 3)
    return qp.SpecialUnitary(p.angles((4**n - 1,)), wires=w[:n])


@recipe("Hermitian")
def _r(qp, rng, w, p):
    n = p.int(1, 3)
    return qp.Hermitian(p.hermitian(2**n), wires=w[:n])


@recipe("Projector")
def _r(qp, rng, w, p):
    n = p.int(1, 4)
    if rng.random() < 0.5:
        return qp.Projector(p.bits(n), wires=w[:n])
    return qp.Projector(Par(rng).state(n), wires=w[:n])


@recipe("BasisStateProjector")
def _r(qp, rng, w, p):
    n = p.int(1, 4)
    return qp.Projector(p.bits(n), wires=w[:n])


@recipe("StateVectorProjector")
def _r(qp, rng, w, p):
    n = p.int(1, 3)
    return qp.Projector(Par(rng).state(n), wires=w[:n])


@recipe("SparseHamiltonian")
def _r(qp, rng, w, p):
    import scipy.sparse as sp
    n = p.int(1, 4)
    H = p.hermitian(2**n)
    H[np.abs(H) < 0.6] = 0
    return qp.SparseHamiltonian(sp.csr_matrix(H), wires=w[:n])


@recipe("BasisState")
def _r(qp, rng, w, p):
    n = p.int(1, 5)
    return qp.BasisState(np.array(p.bits(n)), wires=w[:n])


@recipe("StatePrep")
def _r(qp, rng, w, p):
    n = p.int(1, 4)
    return qp.StatePrep(p.state(n), wires=w[:n])


@recipe("QubitDensityMatrix")
def _r(qp, rng, w, p):
    n = p.int(1, 3)
    v = Par(rng).state(n)
    v2 = Par(rng).state(n)
    q = p.prob()
    return qp.QubitDensityMatrix(q * np.outer(v, v.conj()) + (1 - q) * np.outer(v2, v2.conj()), wires=w[:n])


# ---- channels -----------------------------------------------------------------------------------------------------
for _n in ["AmplitudeDamping", "BitFlip", "PhaseDamping", "PhaseFlip"]:
    RECIPES[_n] = (lambda name: (lambda qp, rng, w, p: getattr(qp, name)(p.prob(), wires=w[0])))(_n)


@recipe("DepolarizingChannel")
def _r(qp, rng, w, p):
    return qp.DepolarizingChannel(p.prob(), wires=w[0])


@recipe("GeneralizedAmplitudeDamping")
def _r(qp, rng, w, p):
    return qp.GeneralizedAmplitudeDamping(p.prob(), p.prob(), wires=w[0])


@recipe("ResetError")
def _r(qp, rng, w, p):
    a = p.prob()
    return qp.ResetError(a, p.prob(1 - a), wires=w[0])


@recipe("PauliError")
def _r(qp, rng, w, p):
    n = p.int(1, 3)
    return qp.PauliError("".join(rng.choice(list("XYZ"), size=n)), p.prob(), wires=w[:n])


@recipe("QubitChannel")
def _r(qp, rng, w, p):
    n = p.int(1, 3)
    from pv.ref import sv
    k = p.int(1, 4)
    # Kraus operators from an isometry: rows of a Haar unitary on (k * dim)
    d = 2**n
    U = sv.haar_unitary(rng, k * d)
    Ks = [U[i * d:(i + 1) * d, :d] for i in range(k)]
    return qp.QubitChannel(Ks, wires=w[:n])


@recipe("ThermalRelaxationError")
def _r(qp, rng, w, p):
    t1 = float(rng.uniform(50e-6, 150e-6))
    t2 = float(rng.uniform(0.2, 1.9)) * t1
    return qp.ThermalRelaxationError(p.prob(), t1, t2, float(rng.uniform(10e-9, 200e-9)), wires=w[0])


# ---- symbolic / arithmetic ------------------------------------------------------------------------------------------
def _op1_base(qp, rng, w, p, nq=None):
    """A base that is an Operator1-style op (so Adjoint/Pow/Controlled (version 1) wrappers are produced)."""
    r = rng.random()
    if r < 0.35 or nq == 1:
        return qp.CPhaseShift00(p.scalar(), wires=w[:2]) if (nq != 1 and rng.random() < 0.5) else qp.Hermitian(p.hermitian(2), wires=w[0])
    if r < 0.7:
        return getattr(qp, p.choice(["SingleExcitationPlus", "SingleExcitationMinus", "PSWAP", "FermionicSWAP"]))(p.scalar(), wires=w[:2])
    return qp.prod(simple_gate(qp, rng, w, nq=1), simple_gate(qp, rng, w[1:], nq=1))


@recipe("Adjoint")
def _r(qp, rng, w, p):
    return qp.adjoint(qp.Hermitian(p.hermitian(2), wires=w[0])) if rng.random() < 0.4 else qp.adjoint(small_hamiltonian(qp, rng, w[:2]))


@recipe("AdjointOperation")
def _r(qp, rng, w, p):
    return qp.adjoint(getattr(qp, p.choice(["SingleExcitationPlus", "PSWAP", "FermionicSWAP", "CPhaseShift01"]))(p.scalar(), wires=w[:2]))


@recipe("Adjoint2")
def _r(qp, rng, w, p):
    return qp.adjoint(simple_gate(qp, rng, w))


@recipe("Pow")
def _r(qp, rng, w, p):
    return qp.pow(qp.Hermitian(p.hermitian(2), wires=w[0]), p.choice([2, 3, 0, 1]))


@recipe("PowOperation")
def _r(qp, rng, w, p):
    return qp.pow(getattr(qp, p.choice(["SingleExcitationPlus", "PSWAP", "FermionicSWAP", "CPhaseShift10"]))(p.scalar(), wires=w[:2]),
                  p.choice([2, 3, -1, -2, 0.5, 1.5, 0, 1]))


@recipe("Pow2")
def _r(qp, rng, w, p):
    return qp.pow(simple_gate(qp, rng, w), p.choice([2, 3, -1, -2, 5, 0.5, 2.5, 0, 1]))


@recipe("Controlled")
def _r(qp, rng, w, p):
    nc = p.int(1, 3)
    return qp.ctrl(qp.Hermitian(p.hermitian(2), wires=w[nc]), control=w[:nc], control_values=p.bits(nc))


@recipe("ControlledOp")
def _r(qp, rng, w, p):
    nc = p.int(1, 3)
    base = getattr(qp, p.choice(["SingleExcitationPlus", "PSWAP", "FermionicSWAP", "CPhaseShift10"]))(p.scalar(), wires=w[nc:nc + 2])
    kw = {}
    if rng.random() < 0.3:
        kw = {"work_wires": [w[nc + 2]], "work_wire_type": p.choice(["zeroed", "borrowed"])}
    return qp.ctrl(base, control=w[:nc], control_values=p.bits(nc), **kw)


@recipe("ControlledOp2")
def _r(qp, rng, w, p):
    nc = p.int(1, 3)
    base = getattr(qp, p.choice(["IsingXX", "IsingXY", "IsingZZ", "U2", "MultiRZ", "SingleExcitation"]))
    if base.__name__ == "U2":
        b = base(p.scalar(), p.scalar(), wires=w[nc])
    else:
        b = base(p.scalar(), wires=w[nc:nc + 2])
    return qp.ctrl(b, control=w[:nc], control_values=p.bits(nc))


@recipe("Prod")
def _r(qp, rng, w, p):
    k = p.int(2, 4)
    ops = [simple_gate(qp, rng, [w[int(i)] for i in rng.permutation(3)]) for _ in range(k)]
    return qp.prod(*ops)


@recipe("Sum")
def _r(qp, rng, w, p):
    if rng.random() < 0.5:
        return small_hamiltonian(qp, rng, w, kind="sum")
    k = p.int(2, 4)
    return qp.sum(*[simple_gate(qp, rng, [w[int(i)] for i in rng.permutation(3)]) for _ in range(k)])


@recipe("SProd")
def _r(qp, rng, w, p):
    c = p.choice([float(rng.uniform(-2, 2)), complex(rng.uniform(-1, 1), rng.uniform(-1, 1)), 1.0, -1.0, 1j])
    return qp.s_prod(c, simple_gate(qp, rng, w))


@recipe("LinearCombination")
def _r(qp, rng, w, p):
    return small_hamiltonian(qp, rng, w, kind="lc")


@recipe("Exp")
def _r(qp, rng, w, p):
    r = rng.random()
    base = pauli_word_op(qp, rng, w) if r < 0.6 else small_hamiltonian(qp, rng, w)
    c = p.choice([1j * p.generic(), p.generic() * 0.5, complex(p.generic() * 0.3, p.generic())])
    return qp.exp(base, c)


@recipe("Evolution")
def _r(qp, rng, w, p):
    base = pauli_word_op(qp, rng, w) if rng.random() < 0.6 else small_hamiltonian(qp, rng, w)
    return qp.ops.Evolution(base, p.scalar())


@recipe("ChangeOpBasis")
def _r(qp, rng, w, p):
    comp = simple_gate(qp, rng, w)
    targ = simple_gate(qp, rng, [w[int(i)] for i in rng.permutation(2)])
    if rng.random() < 0.5:
        return qp.change_op_basis(comp, targ)
    return qp.change_op_basis(comp, targ, qp.adjoint(comp))


@recipe("Conditional")
def _r(qp, rng, w, p):
    m = qp.measure(w[2])
    return qp.ops.Conditional(m, simple_gate(qp, rng, w[:2]))


@recipe("LabelledOp")
def _r(qp, rng, w, p):
    from pennylane.drawer.label import LabelledOp
    return LabelledOp(simple_gate(qp, rng, w), "lbl%d" % p.int(0, 4))


@recipe("MarkedOp")
def _r(qp, rng, w, p):
    from pennylane.fourier.mark import MarkedOp
    return MarkedOp(simple_gate(qp, rng, w), "mk%d" % p.int(0, 4))


@recipe("MeasureNode")
def _r(qp, rng, w, p):
    return qp.qcut.MeasureNode(wires=w[0], node_uid="n%d" % p.int(0, 9))


@recipe("PrepareNode")
def _r(qp, rng, w, p):
    return qp.qcut.PrepareNode(wires=w[0], node_uid="n%d" % p.int(0, 9))


@recipe("Allocate")
def _r(qp, rng, w, p):
    from pennylane.allocation import Allocate
    from pennylane.wires import DynamicWire
    return Allocate([DynamicWire() for _ in range(p.int(1, 3))], state=p.choice(["zero", "any"]), restored=bool(rng.integers(2)))


@recipe("Deallocate")
def _r(qp, rng, w, p):
    from pennylane.allocation import Deallocate
    from pennylane.wires import DynamicWire
    return Deallocate([DynamicWire() for _ in range(p.int(1, 3))])


@recipe("ParametrizedEvolution")
def _r(qp, rng, w, p):
    H = qp.PauliX(w[0]) + _pe_f1 * qp.PauliZ(w[0])
    return qp.pulse.ParametrizedEvolution(H, params=[p.generic()], t=[0.0, float(rng.uniform(0.1, 1.0))])


def _pe_f1(p, t):
    return p * t


@recipe("FirstQuantization")
def _r(qp, rng, w, p):
    return qp.estimator.FirstQuantization(p.int(1, 4), p.int(2, 4), float(rng.uniform(1, 3)))


@recipe("DoubleFactorization")
def _r(qp, rng, w, p):
    A = rng.normal(size=(2, 2))
    one = A + A.T
    B = rng.normal(size=(2, 2))
    L = B + B.T
    two = np.einsum("ij,kl->ijkl", L, L)
    return qp.estimator.DoubleFactorization(one, two)


# ---- templates: embeddings / layers ----------------------------------------------------------------------------------
@recipe("AmplitudeEmbedding")
def _r(qp, rng, w, p):
    n = p.int(1, 4)
    return qp.AmplitudeEmbedding(p.state(n), wires=w[:n])


@recipe("AngleEmbedding")
def _r(qp, rng, w, p):
    n = p.int(1, 4)
    k = p.int(1, n + 1)
    f = p.angles((k,))
    return qp.AngleEmbedding(f, wires=w[:n], rotation=p.choice(["X", "Y", "Z"]))


@recipe("IQPEmbedding")
def _r(qp, rng, w, p):
    n = p.int(1, 4)
    return qp.IQPEmbedding(p.angles((n,)), wires=w[:n], n_repeats=p.int(1, 3))


@recipe("QAOAEmbedding")
def _r(qp, rng, w, p):
    n = p.int(1, 4)
    L = p.int(1, 3)
    shape = qp.QAOAEmbedding.shape(n_layers=L, n_wires=n)
    weights = Par(rng).angles(shape)
    return qp.QAOAEmbedding(p.angles((n,)), weights, wires=w[:n], local_field=p.choice(["X", "Y", "Z"]))


@recipe("BasicEntanglerLayers")
def _r(qp, rng, w, p):
    n = p.int(1, 4)
    return qp.BasicEntanglerLayers(p.angles((p.int(1, 3), n)), wires=w[:n], rotation=p.choice([None, qp.RY, qp.RZ]))


@recipe("StronglyEntanglingLayers")
def _r(qp, rng, w, p):
    n = p.int(1, 4)
    L = p.int(1, 3)
    return qp.StronglyEntanglingLayers(p.angles((L, n, 3)), wires=w[:n], imprimitive=p.choice([qp.CNOT, qp.CZ]))


@recipe("RandomLayers")
def _r(qp, rng, w, p):
    n = p.int(1, 4)
    return qp.RandomLayers(p.angles((p.int(1, 3), p.int(1, 4))), wires=w[:n], seed=p.int(0, 1000))


@recipe("SimplifiedTwoDesign")
def _r(qp, rng, w, p):
    n = p.int(2, 5)
    L = p.int(1, 3)
    return qp.SimplifiedTwoDesign(p.angles((n,)), p.angles((L, n - 1, 2)), wires=w[:n])


@recipe("GateFabric")
def _r(qp, rng, w, p):
    shape = qp.GateFabric.shape(n_layers=1, n_wires=4)
    return qp.GateFabric(p.angles(shape), wires=w[:4], init_state=_hf(4, 2), include_pi=bool(rng.integers(2)))


@recipe("ParticleConservingU1")
def _r(qp, rng, w, p):
    n = p.int(2, 4)
    return qp.ParticleConservingU1(p.angles(qp.ParticleConservingU1.shape(1, n)), wires=w[:n], init_state=_hf(n, 1))


@recipe("ParticleConservingU2")
def _r(qp, rng, w, p):
    n = p.int(2, 4)
    return qp.ParticleConservingU2(p.angles(qp.ParticleConservingU2.shape(1, n)), wires=w[:n], init_state=_hf(n, 1))


# ---- templates: state preparations --------------------------------------------------------------------------------
@recipe("ArbitraryStatePreparation")
def _r(qp, rng, w, p):
    n = p.int(1, 4)
    return qp.ArbitraryStatePreparation(p.angles((2 ** (n + 1) - 2,)), wires=w[:n])


@recipe("CosineWindow")
def _r(qp, rng, w, p):
    return qp.CosineWindow(wires=w[: p.int(1, 5)])


@recipe("MottonenStatePreparation")
def _r(qp, rng, w, p):
    n = p.int(1, 4)
    return qp.MottonenStatePreparation(p.state(n), wires=w[:n])


@recipe("MultiplexerStatePreparation")
def _r(qp, rng, w, p):
    n = p.int(1, 4)
    return qp.MultiplexerStatePreparation(p.state(n), wires=w[:n])


def _sparse_state(rng, n, k):
    idx = tuple(sorted(int(i) for i in rng.choice(2**n, size=k, replace=False)))
    c = rng.normal(size=k) + 1j * rng.normal(size=k)
    return c / np.linalg.norm(c), idx


@recipe("PartialUnaryStatePreparation")
def _r(qp, rng, w, p):
    n = p.int(2, 4)
    c, idx = _sparse_state(rng, n, p.int(2, 4))
    return qp.PartialUnaryStatePreparation(c, w[:n], idx, w[n:n + 2])


@recipe("QROMStatePreparation")
def _r(qp, rng, w, p):
    n = p.int(1, 3)
    npr = p.int(1, 3)
    return qp.QROMStatePreparation(p.state(n), wires=w[:n], precision_wires=w[n:n + npr], work_wires=w[n + npr:n + npr + 1])


@recipe("MPSPrep")
def _r(qp, rng, w, p):
    # random right-canonical-able MPS for 3 sites, bond dimension 2
    mps = [rng.normal(size=(2, 2)), rng.normal(size=(2, 2, 2)), rng.normal(size=(2, 2))]
    return qp.MPSPrep(mps, wires=w[:3], work_wires=w[3:4], right_canonicalize=True)


@recipe("Superposition")
def _r(qp, rng, w, p):
    n = p.int(2, 4)
    k = p.int(2, 4)
    idx = rng.choice(2**n, size=k, replace=False)
    bases = [[(int(i) >> (n - 1 - b)) & 1 for b in range(n)] for i in idx]
    c = rng.normal(size=k)
    c = c / np.linalg.norm(c)
    return qp.Superposition(c, bases, wires=w[:n], work_wire=w[n])


@recipe("SumOfSlatersPrep")
def _r(qp, rng, w, p):
    n = p.int(2, 4)
    c, idx = _sparse_state(rng, n, p.int(2, 4))
    return qp.SumOfSlatersPrep(c, w[:n], idx)


# ---- templates: subroutines ---------------------------------------------------------------------------------------
@recipe("QFT")
def _r(qp, rng, w, p):
    return qp.QFT(wires=w[: p.int(1, 5)])


@recipe("AQFT")
def _r(qp, rng, w, p):
    n = p.int(2, 5)
    return qp.AQFT(order=p.int(1, n), wires=w[:n])


@recipe("ArbitraryUnitary")
def _r(qp, rng, w, p):
    n = p.int(1, 3)
    return qp.ArbitraryUnitary(p.angles((4**n - 1,)), wires=w[:n])


@recipe("Adder")
def _r(qp, rng, w, p):
    n = p.int(2, 4)
    mod = p.choice([None, 2**n, 2**n - 1, 3])
    return qp.Adder(p.int(0, 8), x_wires=w[:n], mod=mod, work_wires=w[n:n + 2])


@recipe("PhaseAdder")
def _r(qp, rng, w, p):
    n = p.int(2, 4)
    mod = p.choice([None, 2**n, 3])
    return qp.PhaseAdder(p.int(0, 8), x_wires=w[:n], mod=mod, work_wire=w[n:n + 1])


@recipe("Multiplier")
def _r(qp, rng, w, p):
    n = p.int(2, 3)
    mod = p.choice([None, 2**n, 3]) if n > 1 else None
    k = p.choice([1, 3, 5, 7]) if mod in (None, 2**n) else p.choice([1, 2])
    return qp.Multiplier(k, x_wires=w[:n], mod=mod, work_wires=w[n:2 * n + 2])


@recipe("OutAdder")
def _r(qp, rng, w, p):
    return qp.OutAdder(x_wires=w[:2], y_wires=w[2:4], output_wires=w[4:6], mod=p.choice([None, 4, 3]), work_wires=w[6:8])


@recipe("OutMultiplier")
def _r(qp, rng, w, p):
    return qp.OutMultiplier(x_wires=w[:1], y_wires=w[1:3], output_wires=w[3:5], mod=p.choice([None, 4, 3]), work_wires=w[5:7])


@recipe("OutPoly")
def _r(qp, rng, w, p):
    return qp.OutPoly(_poly_xy, input_registers=[w[:1], w[1:3]], output_wires=w[3:5], mod=p.choice([None, 3]), work_wires=w[5:7])


def _poly_xy(x, y):
    return x + 2 * x * y + y


@recipe("OutSquare")
def _r(qp, rng, w, p):
    return qp.OutSquare(x_wires=w[:2], output_wires=w[2:5], work_wires=w[5:8], output_wires_zeroed=bool(rng.integers(2)))


@recipe("SignedOutSquare")
def _r(qp, rng, w, p):
    return qp.SignedOutSquare(x_wires=w[:2], output_wires=w[2:6], work_wires=w[6:10], output_wires_zeroed=bool(rng.integers(2)))


@recipe("SignedOutMultiplier")
def _r(qp, rng, w, p):
    return qp.SignedOutMultiplier(x_wires=w[:2], y_wires=w[2:4], output_wires=w[4:8], work_wires=w[8:12])


@recipe("SemiAdder")
def _r(qp, rng, w, p):
    nx, ny = p.int(1, 3), p.int(2, 4)
    return qp.SemiAdder(x_wires=w[:nx], y_wires=w[nx:nx + ny], work_wires=w[nx + ny:nx + 2 * ny - 1])


@recipe("ModExp")
def _r(qp, rng, w, p):
    return qp.ModExp(x_wires=w[:2], output_wires=w[2:4], base=p.choice([1, 3]), mod=p.choice([None, 4]), work_wires=w[4:8])


@recipe("Incrementer")
def _r(qp, rng, w, p):
    n = p.int(1, 5)
    return qp.Incrementer(wires=w[:n], work_wires=w[n:n + p.int(0, 3)])


@recipe("TemporaryAND")
def _r(qp, rng, w, p):
    return qp.TemporaryAND(wires=w[:3], control_values=p.bits(2))


@recipe("ControlledSequence")
def _r(qp, rng, w, p):
    nc = p.int(1, 3)
    return qp.ControlledSequence(simple_gate(qp, rng, w[nc:]), control=w[:nc])


@recipe("FABLE")
def _r(qp, rng, w, p):
    A = rng.uniform(-1, 1, size=(2, 2))
    return qp.FABLE(A, wires=w[:3], tol=0)


@recipe("FFFT")
def _r(qp, rng, w, p):
    return qp.FFFT(wires=w[: p.choice([2, 4])])


@recipe("TwoWireFFT")
def _r(qp, rng, w, p):
    from pennylane.templates.subroutines.ffft import TwoWireFFT
    return TwoWireFFT(wires=w[:2])


@recipe("FlipSign")
def _r(qp, rng, w, p):
    n = p.int(1, 4)
    return qp.FlipSign(p.bits(n), wires=w[:n])


@recipe("GQSP")
def _r(qp, rng, w, p):
    d = p.int(1, 3)
    return qp.GQSP(simple_gate(qp, rng, w[1:], nq=1), Par(rng).angles((3, d + 1)), control=w[0])


@recipe("GroverOperator")
def _r(qp, rng, w, p):
    n = p.int(2, 5)
    return qp.GroverOperator(wires=w[:n], work_wires=w[n:n + p.int(0, 2)])


@recipe("HilbertSchmidt")
def _r(qp, rng, w, p):
    return qp.HilbertSchmidt(V=[qp.RZ(p.scalar(), wires=w[1])], U=[qp.Hadamard(wires=w[0])])


@recipe("LocalHilbertSchmidt")
def _r(qp, rng, w, p):
    return qp.LocalHilbertSchmidt(V=[qp.RZ(p.scalar(), wires=w[2]), qp.CZ(wires=[w[2], w[3]])], U=[qp.CZ(wires=[w[0], w[1]])])


@recipe("IQP")
def _r(qp, rng, w, p):
    return qp.IQP(weights=[p.scalar(), p.scalar()], wires=w[:2], pattern=[[[0]], [[1]]], spin_sym=bool(rng.integers(2)))


@recipe("Permute")
def _r(qp, rng, w, p):
    n = p.int(2, 5)
    perm = [w[int(i)] for i in rng.permutation(n)]
    if perm == list(w[:n]):
        perm = perm[1:] + perm[:1]
    return qp.Permute(perm, wires=w[:n])


@recipe("PrepSelPrep")
def _r(qp, rng, w, p):
    lcu = qp.dot([float(rng.uniform(0.1, 1)), -float(rng.uniform(0.1, 1))], [qp.X(w[2]), qp.Z(w[2])])
    return qp.PrepSelPrep(lcu, control=w[:1])


@recipe("Qubitization")
def _r(qp, rng, w, p):
    H = qp.dot([float(rng.uniform(0.1, 1)), float(rng.uniform(0.1, 1))], [qp.Z(w[1]), qp.X(w[1]) @ qp.Z(w[2])])
    return qp.Qubitization(H, control=w[:1])


@recipe("AllSinglesDoubles")
def _r(qp, rng, w, p):
    return qp.AllSinglesDoubles(p.angles((3,)), wires=w[:4], hf_state=_hf(4, 2), singles=[[0, 2], [1, 3]], doubles=[[0, 1, 2, 3]])


@recipe("BasisRotation")
def _r(qp, rng, w, p):
    n = p.int(2, 4)
    from pv.ref import sv
    U = sv.haar_unitary(rng, n)
    if rng.random() < 0.4:
        Q, _ = np.linalg.qr(rng.normal(size=(n, n)))
        U = Q
    return qp.BasisRotation(wires=w[:n], unitary_matrix=U)


@recipe("FermionicDoubleExcitation")
def _r(qp, rng, w, p):
    return qp.FermionicDoubleExcitation(p.scalar(), wires1=w[:2], wires2=w[2:4])


@recipe("FermionicSingleExcitation")
def _r(qp, rng, w, p):
    return qp.FermionicSingleExcitation(p.scalar(), wires=w[: p.int(2, 4)])


@recipe("kUpCCGSD")
def _r(qp, rng, w, p):
    shape = qp.kUpCCGSD.shape(k=1, n_wires=4, delta_sz=0)
    return qp.kUpCCGSD(p.angles(shape), wires=w[:4], k=1, delta_sz=0, init_state=_hf(4, 2))


@recipe("UCCSD")
def _r(qp, rng, w, p):
    ww = list(w[:4])
    return qp.UCCSD(p.angles((3,)), wires=ww, s_wires=[[ww[0], ww[1], ww[2]], [ww[1], ww[2], ww[3]]], d_wires=[[[ww[0], ww[1]], [ww[2], ww[3]]]], init_state=_hf(4, 2))


@recipe("QuantumMonteCarlo")
def _r(qp, rng, w, p):
    pr = rng.random(2)
    pr = pr / pr.sum()
    return qp.QuantumMonteCarlo(pr, _qmc_func, target_wires=w[:2], estimation_wires=w[2:4])


def _qmc_func(i):
    return 0.3 + 0.4 * i


@recipe("QuantumPhaseEstimation")
def _r(qp, rng, w, p):
    return qp.QuantumPhaseEstimation(simple_gate(qp, rng, w, nq=1), estimation_wires=w[1:1 + p.int(1, 3)])


@recipe("BBQRAM")
def _r(qp, rng, w, p):
    return qp.BBQRAM([p.bits(2), p.bits(2)], control_wires=w[:1], target_wires=w[1:3], work_wires=w[3:7])


@recipe("FFQRAM")
def _r(qp, rng, w, p):
    a = rng.uniform(0.1, 1, size=2)
    return qp.FFQRAM(amplitudes=a / np.linalg.norm(a), wires=w[:3], address=p.choice([["00", "01"], ["10", "11"], ["01", "10"]]))


@recipe("HybridQRAM")
def _r(qp, rng, w, p):
    return qp.HybridQRAM([p.bits(2) for _ in range(4)], control_wires=w[:2], target_wires=w[2:4], work_wires=w[4:9], k=1)


@recipe("SelectOnlyQRAM")
def _r(qp, rng, w, p):
    return qp.SelectOnlyQRAM(["01", "11", "10", "00"], control_wires=w[:2], target_wires=w[2:4])


@recipe("QROM")
def _r(qp, rng, w, p):
    bits = ["".join(str(b) for b in p.bits(2)) for _ in range(4)]
    return qp.QROM(bits, control_wires=w[:2], target_wires=w[2:4], work_wires=w[4:6], clean=bool(rng.integers(2)))


@recipe("QSVT")
def _r(qp, rng, w, p):
    be = qp.Hadamard(wires=w[0]) if rng.random() < 0.5 else qp.BlockEncode(rng.uniform(-0.4, 0.4, size=(2, 2)), wires=w[:2])
    k = p.int(1, 4)
    if be.name == "Hadamard":
        proj = [qp.RZ(p.scalar(), wires=w[0]) for _ in range(k)]
    else:
        proj = [qp.PCPhase(p.scalar(), dim=2, wires=w[:2]) for _ in range(k)]
    return qp.QSVT(be, proj)


@recipe("Reflection")
def _r(qp, rng, w, p):
    return qp.Reflection(simple_gate(qp, rng, w), alpha=p.scalar())


@recipe("Select")
def _r(qp, rng, w, p):
    k = p.int(2, 5)
    ops = [simple_gate(qp, rng, w[2:]) for _ in range(k)]
    return qp.Select(ops, control=w[:2], partial=bool(rng.integers(2)))


@recipe("SelectPauliRot")
def _r(qp, rng, w, p):
    nc = p.int(1, 3)
    return qp.SelectPauliRot(Par(rng).angles((2**nc,)), control_wires=w[:nc], target_wire=w[nc], rot_axis=p.choice(["X", "Y", "Z"]))


@recipe("AmplitudeAmplification")
def _r(qp, rng, w, p):
    U = qp.prod(qp.Hadamard(w[0]), qp.Hadamard(w[1]))
    O = qp.FlipSign([1, 0], wires=w[:2])
    if rng.random() < 0.5:
        return qp.AmplitudeAmplification(U, O, iters=p.int(1, 3))
    return qp.AmplitudeAmplification(U, O, iters=2, fixed_point=True, work_wire=w[2])


@recipe("ApproxTimeEvolution")
def _r(qp, rng, w, p):
    return qp.ApproxTimeEvolution(small_hamiltonian(qp, rng, w, kind="lc"), p.scalar(), p.int(1, 3))


@recipe("CommutingEvolution")
def _r(qp, rng, w, p):
    H = qp.ops.LinearCombination([float(rng.uniform(0.2, 1)), float(rng.uniform(0.2, 1))], [qp.X(w[0]) @ qp.Y(w[1]), qp.Y(w[0]) @ qp.X(w[1])])
    if rng.random() < 0.5:
        return qp.CommutingEvolution(H, p.scalar(), frequencies=(2,))
    return qp.CommutingEvolution(H, p.scalar(), frequencies=(2,), shifts=(float(rng.uniform(0.5, 2.5)),))


@recipe("QDrift")
def _r(qp, rng, w, p):
    return qp.QDrift(small_hamiltonian(qp, rng, w, kind="dot"), time=p.scalar(), n=p.int(1, 4), seed=p.int(0, 100))


@recipe("TrotterProduct")
def _r(qp, rng, w, p):
    return qp.TrotterProduct(small_hamiltonian(qp, rng, w, kind="dot"), time=p.scalar(), n=p.int(1, 3), order=p.choice([1, 2, 4]))


@recipe("TrotterizedQfunc")
def _r(qp, rng, w, p):
    from pennylane.templates.subroutines.time_evolution.trotter import TrotterizedQfunc
    return TrotterizedQfunc(p.scalar(), p.scalar(), p.scalar(), qfunc=_tq_qfunc, n=p.int(1, 3), order=p.choice([1, 2]), wires=w[:2],
                            flip=bool(rng.integers(2)))


def _tq_qfunc(time, theta, phi, wires, flip=False):
    import pennylane as qp
    qp.RX(time * theta, wires[0])
    qp.RY(time * phi, wires[0])
    if flip:
        qp.CNOT(wires)


@recipe("TwoLocalSwapNetwork")
def _r(qp, rng, w, p):
    n = p.int(2, 5)
    shape = qp.TwoLocalSwapNetwork.shape(n)
    return qp.TwoLocalSwapNetwork(w[:n], _tlsn_acq, Par(rng).angles(shape), fermionic=bool(rng.integers(2)), shift=bool(rng.integers(2)))


def _tlsn_acq(index, wires, param=None):
    import pennylane as qp
    return qp.CRY(param, wires=index)


def _tn_block(weights, wires):
    import pennylane as qp
    qp.CNOT(wires=[wires[0], wires[1]])
    qp.RY(weights[0], wires=wires[0])
    qp.RY(weights[1], wires=wires[1])


@recipe("MERA")
def _r(qp, rng, w, p):
    nb = qp.MERA.get_n_blocks(range(4), 2)
    return qp.MERA(w[:4], 2, _tn_block, 2, Par(rng).angles((nb, 2)))


@recipe("MPS")
def _r(qp, rng, w, p):
    n = p.int(2, 5)
    nb = qp.MPS.get_n_blocks(range(n), 2)
    return qp.MPS(w[:n], 2, _tn_block, 2, Par(rng).angles((nb, 2)))


@recipe("TTN")
def _r(qp, rng, w, p):
    nb = qp.TTN.get_n_blocks(range(4), 2)
    return qp.TTN(w[:4], 2, _tn_block, 2, Par(rng).angles((nb, 2)))


@recipe("CollectedSubroutine")
def _r(qp, rng, w, p):
    from pennylane.templates.core import CollectedSubroutine
    return CollectedSubroutine("sub%d" % p.int(0, 3), [simple_gate(qp, rng, w), simple_gate(qp, rng, w[1:])])


ZooSubroutine = None


def _zoo_subroutine_def(x, y, wires):
    import pennylane as qp
    qp.RX(x, wires[0])
    qp.RY(y, wires[0])
    qp.CNOT([wires[0], wires[1]])


@recipe("SubroutineOp")
def _r(qp, rng, w, p):
    global ZooSubroutine  # pylint: disable=global-statement
    if ZooSubroutine is None:
        from pennylane.templates import Subroutine
        ZooSubroutine = Subroutine(_zoo_subroutine_def)
    return ZooSubroutine.operator(p.scalar(), p.scalar(), w[:2])


# ----------------------------------------------------------------------------------------------------------------------
# signature-driven fallback
# ----------------------------------------------------------------------------------------------------------------------
def _fallback(qp, cls, rng, w, p):
    """Try (params…, wires=w[:k]) using num_params / num_wires / ndim_params declared by the class."""
    nw = getattr(cls, "num_wires", None)
    npar = getattr(cls, "num_params", None)
    if isinstance(npar, property) or not isinstance(npar, int):
        # count positional parameters of __init__ other than self / wires / id
        try:
            sig = inspect.signature(cls.__init__)
            names = [n for n, q in sig.parameters.items() if n not in ("self", "wires", "id") and q.kind == q.POSITIONAL_OR_KEYWORD
                     and q.default is q.empty]
            npar = len(names)
        except (TypeError, ValueError):
            npar = 0
    nws = [nw] if isinstance(nw, int) else [1, 2, 3, 4]
    last = None
    for k in nws:
        try:
            return cls(*[p.angle() for _ in range(npar)], wires=w[:k])
        except Exception as e:  # noqa: BLE001
            last = e
    raise NoRecipe(f"fallback failed: {type(last).__name__}: {last}")


# ----------------------------------------------------------------------------------------------------------------------
# make / instances
# ----------------------------------------------------------------------------------------------------------------------
def make(qp, cls, rng, wires=None, batch=None, containers=True):
    """Build one instance.  ``cls`` may be a class or a class name."""
    if isinstance(cls, str):
        cls = class_by_name(qp, cls)
    name = cls.__name__
    if name in UNBUILDABLE:
        raise NoRecipe(UNBUILDABLE[name])
    if batch and not supports_broadcasting(qp, name):
        batch = None
    if wires is None:
        wires = wire_pool(rng, 14)
    p = Par(rng, batch=batch, containers=containers)
    with qp.queuing.QueuingManager.stop_recording():
        rec = RECIPES.get(name)
        if rec is not None:
            try:
                op = rec(qp, rng, list(wires), p)
            except NoRecipe:
                raise
            except Exception as e:  # noqa: BLE001
                raise NoRecipe(f"recipe raised {type(e).__name__}: {str(e)[:160]}") from e
            if op is None:
                raise NoRecipe("no recipe (needs a hand-written one)")
        else:
            op = _fallback(qp, cls, rng, list(wires), p)
    if type(op) is not cls and not (name in _ALIASED and type(op).__name__ in _ALIASED[name]):
        raise NoRecipe(f"recipe produced {type(op).__name__} instead of {name}")
    return op


# classes whose public constructor legitimately dispatches to a sibling/child class
_ALIASED = {
    "Projector": {"BasisStateProjector", "StateVectorProjector"},
    "Adjoint": {"Adjoint", "AdjointOperation"},
    "Pow": {"Pow", "PowOperation"},
    "Controlled": {"Controlled", "ControlledOp"},
    "Controlled2": {"Controlled2", "ControlledOp2"},
}


def info_of(op):
    """JSON-able description of an instance."""
    d = {"name": type(op).__name__}
    try:
        d["wires"] = list(op.wires.tolist()) if hasattr(op.wires, "tolist") else list(op.wires)
    except Exception:  # noqa: BLE001
        d["wires"] = repr(getattr(op, "wires", None))[:80]
    try:
        data = []
        for x in op.data:
            a = np.asarray(x)
            data.append(a.tolist() if a.size <= 8 and not np.iscomplexobj(a) else f"array{a.shape}:{a.dtype}")
        d["data"] = data
    except Exception:  # noqa: BLE001
        d["data"] = "?"
    try:
        d["hyper"] = {k: repr(v)[:60] for k, v in list(op.hyperparameters.items())[:6]}
    except Exception:  # noqa: BLE001
        pass
    try:
        d["batch"] = op.batch_size
    except Exception:  # noqa: BLE001
        pass
    return d


def instances(qp, rng, max_wires=6, per_class=1, only=None, batch_frac=0.0, report=None, seed_base=None):
    """Iterate over ``(op, info)`` for every concrete class (``only`` = iterable of class names restricts).

    Every instance is built from its own child generator, whose seed is stored in ``info["seed"]`` so that
    ``make(qp, info["name"], np.random.default_rng(info["seed"]), batch=info["batch_req"])`` rebuilds identical data.
    """
    cl = classes(qp)
    if only is not None:
        only = set(only)
        cl = [c for c in cl if c.__name__ in only]
    for cls in cl:
        name = cls.__name__
        built = 0
        tries = 0
        why = None
        while built < per_class and tries < per_class * 3 + 2:
            tries += 1
            seed = [int(x) for x in rng.integers(0, 2**31 - 1, size=3)]
            batch = None
            if batch_frac and supports_broadcasting(qp, name) and rng.random() < batch_frac:
                batch = int(rng.integers(1, 5))
            try:
                op = make(qp, cls, np.random.default_rng(seed), batch=batch)
            except NoRecipe as e:
                why = str(e)
                if "no recipe" in why or name in UNBUILDABLE:
                    break
                continue
            try:
                nw = len(op.wires)
            except Exception:  # noqa: BLE001
                nw = 0
            if nw > max_wires:
                why = f"smallest instance built has {nw} wires > max_wires={max_wires}"
                continue
            info = info_of(op)
            info["seed"] = seed
            info["batch_req"] = batch
            built += 1
            yield op, info
        if built == 0 and report is not None:
            report(name, why or "could not build")


# ----------------------------------------------------------------------------------------------------------------------
# G-EXPR: nested operator expressions with a numpy-only reference evaluator (R-MAT)
# ----------------------------------------------------------------------------------------------------------------------
_LEAF_GATES = [  # (name, n_params, n_wires)
    ("PauliX", 0, 1), ("PauliY", 0, 1), ("PauliZ", 0, 1), ("Hadamard", 0, 1), ("S", 0, 1), ("T", 0, 1), ("SX", 0, 1),
    ("RX", 1, 1), ("RY", 1, 1), ("RZ", 1, 1), ("PhaseShift", 1, 1), ("Rot", 3, 1), ("U2", 2, 1), ("U3", 3, 1), ("U1", 1, 1),
    ("CNOT", 0, 2), ("CZ", 0, 2), ("CY", 0, 2), ("CH", 0, 2), ("SWAP", 0, 2), ("ISWAP", 0, 2), ("ECR", 0, 2), ("SISWAP", 0, 2),
    ("CRX", 1, 2), ("CRY", 1, 2), ("CRZ", 1, 2), ("CRot", 3, 2), ("ControlledPhaseShift", 1, 2), ("CPhaseShift00", 1, 2),
    ("CPhaseShift01", 1, 2), ("CPhaseShift10", 1, 2),
    ("IsingXX", 1, 2), ("IsingYY", 1, 2), ("IsingZZ", 1, 2), ("IsingXY", 1, 2), ("PSWAP", 1, 2), ("SingleExcitation", 1, 2),
    ("SingleExcitationPlus", 1, 2), ("SingleExcitationMinus", 1, 2), ("FermionicSWAP", 1, 2),
    ("Toffoli", 0, 3), ("CSWAP", 0, 3), ("CCZ", 0, 3), ("GlobalPhase", 1, 0), ("Identity", 0, 1),
    ("MultiRZ", 1, None), ("PauliRot", 1, None), ("MultiControlledX", 0, None), ("PCPhase", 1, None),
]
_HERMITIAN_LEAVES = ["PauliX", "PauliY", "PauliZ", "Hadamard", "Identity"]


def _cenc(z):
    z = complex(z)
    return [z.real, z.imag]


def _cdec(v):
    return complex(v[0], v[1]) if isinstance(v, (list, tuple)) else complex(v)


def _menc(M):
    M = np.asarray(M, dtype=complex)
    return {"re": M.real.tolist(), "im": M.imag.tolist()}


def _mdec(d):
    return np.array(d["re"], dtype=float) + 1j * np.array(d["im"], dtype=float)


def _leaf(qp, rng, wires, hermitian=False, allow_matrix=True):
    """Random leaf on a random subset of ``wires``.  Returns (op, tree)."""
    r = rng.random()
    if hermitian:
        if allow_matrix and r < 0.15:
            k = 1 if len(wires) < 2 or rng.random() < 0.7 else 2
            ws = [wires[int(i)] for i in rng.choice(len(wires), size=k, replace=False)]
            A = Par(rng).hermitian(2**k)
            return qp.Hermitian(A, wires=ws), {"op": "leaf", "name": "Hermitian", "matrix": _menc(A), "wires": ws}
        if allow_matrix and r < 0.25:
            k = 1 if len(wires) < 2 or rng.random() < 0.5 else 2
            ws = [wires[int(i)] for i in rng.choice(len(wires), size=k, replace=False)]
            bits = [int(b) for b in rng.integers(0, 2, size=k)]
            P = np.zeros((2**k, 2**k), dtype=complex)
            idx = int("".join(map(str, bits)), 2)
            P[idx, idx] = 1
            return qp.Projector(bits, wires=ws), {"op": "leaf", "name": "Projector", "matrix": _menc(P), "wires": ws}
        name = _HERMITIAN_LEAVES[int(rng.integers(len(_HERMITIAN_LEAVES)))]
        ws = [wires[int(rng.integers(len(wires)))]]
        return getattr(qp, name)(wires=ws), {"op": "leaf", "name": name, "params": [], "wires": ws, "hyper": {}}
    if allow_matrix and r < 0.06:
        k = 1 if len(wires) < 2 or rng.random() < 0.6 else 2
        ws = [wires[int(i)] for i in rng.choice(len(wires), size=k, replace=False)]
        from pv.ref import sv
        U = sv.haar_unitary(rng, 2**k)
        return qp.QubitUnitary(U, wires=ws), {"op": "leaf", "name": "QubitUnitary", "matrix": _menc(U), "wires": ws}
    for _ in range(20):
        name, npar, nw = _LEAF_GATES[int(rng.integers(len(_LEAF_GATES)))]
        hyper = {}
        if nw is None:
            nw = int(rng.integers(1 if name != "MultiControlledX" else 2, min(3, len(wires)) + 1)) if len(wires) >= (2 if name == "MultiControlledX" else 1) else 99
        if nw <= len(wires):
            break
    else:
        name, npar, nw, hyper = "PauliX", 0, 1, {}
    ws = [wires[int(i)] for i in rng.choice(len(wires), size=nw, replace=False)] if nw else []
    params = [num.angle(rng) for _ in range(npar)]
    cls = getattr(qp, name)
    if name == "PauliRot":
        word = "".join(rng.choice(list("XYZI"), size=nw))
        hyper["pauli_word"] = word
        op = cls(params[0], word, wires=ws)
    elif name == "PCPhase":
        dim = int(rng.integers(0, 2**nw + 1))
        hyper["dimension"] = dim
        op = cls(params[0], dim=dim, wires=ws)
    elif name == "MultiControlledX":
        cv = [int(x) for x in rng.integers(0, 2, size=nw - 1)]
        hyper["control_values"] = cv
        op = cls(wires=ws, control_values=cv)
    elif name == "GlobalPhase":
        op = cls(params[0])
    elif npar == 0:
        op = cls(wires=ws)
    else:
        op = cls(*[num.container(rng, x) for x in params], wires=ws)
    return op, {"op": "leaf", "name": name, "params": [float(x) for x in params], "wires": list(ws), "hyper": hyper}


def tree_wires(tree, work=False):
    """Wire labels an expression tree acts on (first-appearance order, as the reference needs any consistent order);
    ``work=True`` also lists the declared work wires of ``ctrl`` nodes (on which the map must be the identity)."""
    out = []

    def add(ws):
        for x in ws:
            if x not in out:
                out.append(x)

    def rec(t):
        k = t["op"]
        if k == "leaf":
            add(t["wires"])
        elif k in ("prod", "sum", "matmul", "add", "sub", "cob"):
            for a in t["args"]:
                rec(a)
        elif k == "ctrl":
            add(t["control"])
            rec(t["arg"])
            if work:
                add(t.get("work_wires", []))
        elif k == "map_wires":
            sub = tree_wires(t["arg"], work)
            m = {a: b for a, b in t["map"]}
            add([m.get(x, x) for x in sub])
        else:
            rec(t["arg"])
    rec(tree)
    return out


def expr_matrix(tree, wire_order):
    """R-MAT: matrix of an expression tree on ``wire_order`` using numpy/scipy only."""
    from scipy.linalg import expm

    from pv.ref import gates as G
    from pv.ref import sv

    n = len(wire_order)
    k = tree["op"]
    if k == "leaf":
        if "matrix" in tree:
            M = _mdec(tree["matrix"])
        else:
            M = G.ref_matrix(tree["name"], tree.get("params", []), len(tree["wires"]), tree.get("hyper", {}))
            if M is None:
                raise KeyError(f"no reference for leaf {tree['name']}")
        return sv.embed(M, tree["wires"], wire_order)
    if k == "adjoint":
        return expr_matrix(tree["arg"], wire_order).conj().T
    if k == "pow":
        M = expr_matrix(tree["arg"], wire_order)
        z = tree["z"]
        if float(z) == int(z):
            z = int(z)
            if z >= 0:
                return np.linalg.matrix_power(M, z)
            return np.linalg.matrix_power(np.linalg.inv(M), -z)
        return frac_power(M, float(z))
    if k == "ctrl":
        sub = tree_wires(tree["arg"])
        M = expr_matrix(tree["arg"], sub)
        C = G.controlled(M, len(tree["control"]), tree["values"])
        return sv.embed(C, list(tree["control"]) + sub, wire_order)
    if k in ("prod", "matmul"):
        U = np.eye(2**n, dtype=complex)
        for a in tree["args"]:
            U = U @ expr_matrix(a, wire_order)
        return U
    if k in ("sum", "add"):
        U = np.zeros((2**n, 2**n), dtype=complex)
        for a in tree["args"]:
            U = U + expr_matrix(a, wire_order)
        return U
    if k == "sub":
        return expr_matrix(tree["args"][0], wire_order) - expr_matrix(tree["args"][1], wire_order)
    if k == "cob":  # compute, then target, then uncompute (default: adjoint of compute)
        C = expr_matrix(tree["args"][0], wire_order)
        T = expr_matrix(tree["args"][1], wire_order)
        U = expr_matrix(tree["args"][2], wire_order) if len(tree["args"]) > 2 else C.conj().T
        return U @ T @ C
    if k in ("s_prod", "mul", "rmul"):
        return _cdec(tree["c"]) * expr_matrix(tree["arg"], wire_order)
    if k == "div":
        return expr_matrix(tree["arg"], wire_order) / _cdec(tree["c"])
    if k == "neg":
        return -expr_matrix(tree["arg"], wire_order)
    if k == "add_scalar":
        return expr_matrix(tree["arg"], wire_order) + _cdec(tree["c"]) * np.eye(2**n)
    if k == "exp":
        return expm(_cdec(tree["c"]) * expr_matrix(tree["arg"], wire_order))
    if k == "evolve":  # qp.evolve(H, t) = exp(-i t H)
        return expm(-1j * _cdec(tree["c"]) * expr_matrix(tree["arg"], wire_order))
    if k == "simplify":
        return expr_matrix(tree["arg"], wire_order)
    if k == "map_wires":
        sub = tree_wires(tree["arg"])
        M = expr_matrix(tree["arg"], sub)
        m = {a: b for a, b in tree["map"]}
        return sv.embed(M, [m.get(x, x) for x in sub], wire_order)
    raise KeyError(k)


def frac_power(M, z):
    """Principal fractional power through the eigendecomposition (normal matrices), branch cut on (−π, π]."""
    w, V = np.linalg.eig(M)
    # M is normal for every admissible base here (unitary); use Schur for numerical safety
    from scipy.linalg import schur
    T, Z = schur(M, output="complex")
    d = np.diag(T)
    return Z @ np.diag(np.abs(d) ** z * np.exp(1j * np.angle(d) * z)) @ Z.conj().T


def eigenphases_inside(M, margin=1e-6):
    """True when M is unitary and all eigenphases lie strictly inside (−π+margin, π−margin)."""
    M = np.asarray(M, dtype=complex)
    if np.linalg.norm(M.conj().T @ M - np.eye(M.shape[0])) > 1e-9 * M.shape[0]:
        return False
    ev = np.linalg.eigvals(M)
    return bool(np.all(np.abs(np.angle(ev)) < math.pi - margin))


def is_hermitian_tree(tree):
    k = tree["op"]
    if k == "leaf":
        return tree["name"] in _HERMITIAN_LEAVES or tree["name"] in ("Hermitian", "Projector")
    return False


class ExprBuildError(Exception):
    """A constructor of the real code raised while an expression was being built."""

    def __init__(self, kind, tree, exc):
        super().__init__(f"{kind}: {type(exc).__name__}: {exc}")
        self.kind, self.tree, self.exc = kind, tree, exc


def random_expr(qp, rng, depth, max_wires=4, wires=None, hermitian=False, ops_allowed=None, frac_pow=True, trace=None):
    """Random nested expression of arithmetic depth ≤ ``depth`` on at most ``max_wires`` wires (+ control / work wires).

    Returns ``(operator, tree)``.  ``hermitian=True`` restricts to sums / real scalar products / products of
    Hermitian leaves on disjoint wires (observable-like expressions).  If ``trace`` is a list, every node is appended
    to it as ``(tree_node, operator)`` in construction (post-)order, so post-conditions can be evaluated at every
    constructor call.  A constructor that raises is reported as ``ExprBuildError(kind, tree_of_the_failed_node, exc)``.
    """
    if wires is None:
        wires = wire_pool(rng, 12)[: max_wires + 3]
    base_wires = list(wires[:max_wires])
    spare = [x for x in wires if x not in base_wires] + ["zz%d" % i for i in range(4)]
    with qp.queuing.QueuingManager.stop_recording():
        return _expr(qp, rng, depth, base_wires, spare, hermitian, ops_allowed, frac_pow, trace)


_KINDS = ["adjoint", "pow", "ctrl", "prod", "sum", "s_prod", "exp", "simplify", "map_wires", "matmul", "add", "sub", "mul",
          "div", "neg", "dpow", "add_scalar"]
_KIND_W = [1.2, 1.6, 1.8, 1.5, 1.2, 1.0, 0.8, 1.2, 0.8, 0.6, 0.5, 0.4, 0.4, 0.3, 0.3, 0.5, 0.3]


def _rand_scalar(rng, real=False):
    r = rng.random()
    if r < 0.15:
        return [1.0, -1.0, 0.5, 2.0][int(rng.integers(4))]
    if real or r < 0.6:
        return float(rng.uniform(-2, 2))
    return complex(rng.uniform(-1.5, 1.5), rng.uniform(-1.5, 1.5))


def _ref_or_none(t):
    try:
        ws = tree_wires(t)
        if len(ws) > 5:
            return None
        return expr_matrix(t, ws)
    except Exception:  # noqa: BLE001
        return None


def _expr(qp, rng, depth, wires, spare, hermitian, ops_allowed, frac_pow, trace):
    if depth <= 0 or (rng.random() < 0.12):
        op, t = _leaf(qp, rng, wires, hermitian=hermitian)
        if trace is not None:
            trace.append((t, op))
        return op, t
    kinds, weights = _KINDS, _KIND_W
    if hermitian:
        kinds = ["sum", "s_prod", "prod", "add", "sub", "mul", "neg", "simplify", "map_wires", "add_scalar", "adjoint", "pow"]
        weights = [2.0, 1.5, 1.5, 0.7, 0.5, 0.5, 0.3, 0.8, 0.5, 0.3, 0.3, 0.4]
    if ops_allowed is not None:
        sel = [(k, wt) for k, wt in zip(kinds, weights) if k in ops_allowed]
        kinds, weights = [s[0] for s in sel], [s[1] for s in sel]
    wsum = float(sum(weights))
    kind = kinds[int(rng.choice(len(kinds), p=[x / wsum for x in weights]))]

    def sub(d=None, ws=None, herm=None):
        return _expr(qp, rng, depth - 1 if d is None else d, ws or wires, spare, hermitian if herm is None else herm,
                     ops_allowed, frac_pow, trace)

    def leafsub(ws):
        op, t = _leaf(qp, rng, ws, hermitian=True)
        if trace is not None:
            trace.append((t, op))
        return op, t

    thunk = tree = None
    if kind == "adjoint":
        b, t = sub()
        thunk, tree = (lambda: qp.adjoint(b)), {"op": "adjoint", "arg": t}
    elif kind in ("pow", "dpow"):
        b, t = sub()
        z = int(rng.integers(-3, 6)) if not hermitian else int(rng.integers(0, 4))
        M = _ref_or_none(t) if (z < 0 or frac_pow) else None
        if z < 0 and (M is None or np.linalg.cond(M) > 1e3):
            z = -z  # negative powers only of well-conditioned (invertible) bases
        if frac_pow and not hermitian and rng.random() < 0.3 and M is not None and eigenphases_inside(M, 1e-6):
            # fractional exponent only if the base's eigenphases are strictly inside (−π, π) (reference matrix decides)
            z = [0.5, 1.5, -0.5, 0.25, 2.5, 1 / 3][int(rng.integers(6))]
        if kind == "dpow":
            thunk = lambda: b ** z  # noqa: E731
        else:
            thunk = lambda: qp.pow(b, z)  # noqa: E731
        tree = {"op": "pow", "z": z, "arg": t, "dunder": kind == "dpow"}
    elif kind == "ctrl":
        nc = int(rng.integers(1, 3))
        inner = wires[: max(1, len(wires) - nc)]
        b, t = sub(ws=inner)
        used = tree_wires(t, work=True)
        try:
            used = list(dict.fromkeys(used + list(b.wires)))
        except Exception:  # noqa: BLE001
            pass
        cand = [x for x in wires if x not in used] + [x for x in spare if x not in used]
        cw = cand[:nc]
        cv = [int(x) for x in rng.integers(0, 2, size=nc)]
        kw, ww = {}, []
        if rng.random() < 0.15:
            ww = [x for x in cand[nc:nc + 1]]
            if ww:
                kw = {"work_wires": ww, "work_wire_type": ["zeroed", "borrowed"][int(rng.integers(2))]}
        form = int(rng.integers(3))
        if form == 0:
            thunk = lambda: qp.ctrl(b, control=cw, control_values=cv, **kw)  # noqa: E731
        elif form == 1:
            thunk = lambda: qp.ctrl(b, cw, [bool(v) for v in cv], **kw)  # noqa: E731
        else:
            thunk = lambda: qp.ctrl(b, control=cw[0] if nc == 1 else cw, control_values=cv[0] if nc == 1 else cv, **kw)  # noqa: E731
        tree = {"op": "ctrl", "control": cw, "values": cv, "work_wires": ww, "work_wire_type": kw.get("work_wire_type", "borrowed"), "arg": t}
    elif kind in ("prod", "sum", "matmul", "add", "sub"):
        nargs = 2 if kind in ("matmul", "add", "sub") else int(rng.integers(2, 4))
        pairs = []
        if hermitian and kind in ("prod", "matmul"):
            perm = [wires[int(i)] for i in rng.permutation(len(wires))]  # Hermitian products: factors on disjoint wires
            nargs = min(nargs, len(perm))
            if nargs < 2:
                pairs = [sub(), sub()]
                kind = "sum"
            else:
                for i in range(nargs):
                    pairs.append(leafsub([perm[i]]))
        else:
            for _ in range(nargs):
                pairs.append(sub())
            if kind in ("sum", "add") and rng.random() < 0.2:
                pairs.append(pairs[0])  # repeated term (same object)
        ops, ts = [a[0] for a in pairs], [a[1] for a in pairs]
        lazy = bool(rng.integers(2))
        if kind == "prod":
            thunk = lambda: qp.prod(*ops, lazy=lazy)  # noqa: E731
        elif kind == "sum":
            thunk = lambda: qp.sum(*ops, lazy=lazy)  # noqa: E731
        elif kind == "matmul":
            thunk = lambda: ops[0] @ ops[1]  # noqa: E731
        elif kind == "add":
            def thunk():
                out = ops[0]
                for o in ops[1:]:
                    out = out + o
                return out
        else:
            thunk = lambda: ops[0] - ops[1]  # noqa: E731
        tree = {"op": kind, "args": ts}
        if kind in ("prod", "sum"):
            tree["lazy"] = lazy
    elif kind in ("s_prod", "mul", "div", "neg", "add_scalar"):
        b, t = sub()
        c = _rand_scalar(rng, real=hermitian)
        if kind == "div" and abs(c) < 0.1:
            c = 0.7
        if kind == "add_scalar" and c == 0:
            c = 0.3
        lazy = bool(rng.integers(2))
        left = bool(rng.integers(2))
        if kind == "s_prod":
            thunk, tree = (lambda: qp.s_prod(c, b, lazy=lazy)), {"op": "s_prod", "c": _cenc(c), "arg": t, "lazy": lazy}
        elif kind == "mul":
            thunk, tree = (lambda: (c * b if left else b * c)), {"op": "mul", "c": _cenc(c), "arg": t, "left": left}
        elif kind == "div":
            thunk, tree = (lambda: b / c), {"op": "div", "c": _cenc(c), "arg": t}
        elif kind == "neg":
            thunk, tree = (lambda: -b), {"op": "neg", "arg": t}
        else:
            thunk, tree = (lambda: b + c), {"op": "add_scalar", "c": _cenc(c), "arg": t}
    elif kind == "exp":
        herm_base = rng.random() < 0.7
        b, t = sub(d=min(depth - 1, 2), herm=True if herm_base else None)
        r = rng.random()
        if r < 0.5:
            c = 1j * float(rng.uniform(-3, 3))
        elif r < 0.8:
            c = float(rng.uniform(-1, 1))
        else:
            c = complex(rng.uniform(-1, 1), rng.uniform(-2, 2))
        thunk, tree = (lambda: qp.exp(b, c)), {"op": "exp", "c": _cenc(c), "arg": t}
    elif kind == "simplify":
        b, t = sub()
        thunk, tree = (lambda: qp.simplify(b)), {"op": "simplify", "arg": t}
    elif kind == "map_wires":
        b, t = sub()
        used = tree_wires(t, work=True)
        try:
            opw = list(b.wires)
        except Exception:  # noqa: BLE001
            opw = used
        allw = list(dict.fromkeys(used + opw))
        fresh = [x for x in spare if x not in allw]
        if rng.random() < 0.5 and len(allw) >= 2:  # permutation among the used wires
            perm = [allw[int(i)] for i in rng.permutation(len(allw))]
            m = list(zip(allw, perm))
        else:  # move some wires to fresh labels
            k = int(rng.integers(1, len(allw) + 1)) if allw else 0
            m = [(allw[i], fresh[i]) for i in range(min(k, len(fresh)))]
        mp = dict(m)
        thunk, tree = (lambda: qp.map_wires(b, mp)), {"op": "map_wires", "map": [[a, c] for a, c in m], "arg": t}
    else:
        raise AssertionError(kind)
    try:
        op = thunk()
    except Exception as e:  # noqa: BLE001
        raise ExprBuildError(tree["op"], tree, e) from e
    if trace is not None:
        trace.append((tree, op))
    return op, tree


def tree_depth(tree):
    k = tree["op"]
    if k == "leaf":
        return 0
    if "args" in tree:
        return 1 + max(tree_depth(a) for a in tree["args"])
    return 1 + tree_depth(tree["arg"])


def tree_kinds(tree, acc=None):
    acc = acc if acc is not None else set()
    acc.add(tree["op"] if tree["op"] != "leaf" else "leaf:" + tree["name"])
    if "args" in tree:
        for a in tree["args"]:
            tree_kinds(a, acc)
    elif "arg" in tree:
        tree_kinds(tree["arg"], acc)
    return acc


def build(qp, tree, trace=None):
    """Rebuild the operator denoted by an expression tree (same constructors as ``random_expr`` uses).  With a
    ``trace`` list every node is appended as ``(tree_node, operator)`` in construction order; a constructor that
    raises is reported as ``ExprBuildError``."""
    with qp.queuing.QueuingManager.stop_recording():
        return _build(qp, tree, trace)


def _scal(c):
    return _cdec(c) if c[1] else c[0]


def _build(qp, t, trace=None):
    k = t["op"]
    if k == "leaf":
        op = _build_leaf(qp, t)
    else:
        subs = [_build(qp, a, trace) for a in (t["args"] if "args" in t else [t["arg"]])]
        try:
            op = _build_node(qp, t, subs)
        except Exception as e:  # noqa: BLE001
            raise ExprBuildError(k, t, e) from e
    if trace is not None:
        trace.append((t, op))
    return op


def _build_leaf(qp, t):
    name, ws = t["name"], t["wires"]
    if name == "Hermitian":
        return qp.Hermitian(_mdec(t["matrix"]), wires=ws)
    if name == "QubitUnitary":
        return qp.QubitUnitary(_mdec(t["matrix"]), wires=ws)
    if name == "Projector":
        P = _mdec(t["matrix"]).real
        idx = int(np.argmax(np.diag(P)))
        bits = [(idx >> (len(ws) - 1 - b)) & 1 for b in range(len(ws))]
        return qp.Projector(bits, wires=ws)
    cls = getattr(qp, name)
    h, p = t.get("hyper", {}), t.get("params", [])
    if name == "PauliRot":
        return cls(p[0], h["pauli_word"], wires=ws)
    if name == "PCPhase":
        return cls(p[0], dim=h["dimension"], wires=ws)
    if name == "MultiControlledX":
        return cls(wires=ws, control_values=h["control_values"])
    if name == "GlobalPhase":
        return cls(p[0])
    return cls(*p, wires=ws)


def _build_node(qp, t, subs):
    k = t["op"]
    b = subs[0]
    if k == "adjoint":
        return qp.adjoint(b)
    if k == "pow":
        return (b ** t["z"]) if t.get("dunder") else qp.pow(b, t["z"])
    if k == "ctrl":
        kw = {}
        if t.get("work_wires"):
            kw = {"work_wires": t["work_wires"], "work_wire_type": t.get("work_wire_type", "borrowed")}
        return qp.ctrl(b, control=t["control"], control_values=t["values"], **kw)
    if k == "prod":
        return qp.prod(*subs, lazy=t.get("lazy", True))
    if k == "sum":
        return qp.sum(*subs, lazy=t.get("lazy", True))
    if k == "matmul":
        return subs[0] @ subs[1]
    if k == "sub":
        return subs[0] - subs[1]
    if k == "add":
        out = subs[0]
        for o in subs[1:]:
            out = out + o
        return out
    if k == "cob":
        return qp.change_op_basis(*subs)
    if k == "s_prod":
        return qp.s_prod(_scal(t["c"]), b, lazy=t.get("lazy", True))
    if k == "mul":
        return _scal(t["c"]) * b if t.get("left", True) else b * _scal(t["c"])
    if k == "div":
        return b / _scal(t["c"])
    if k == "neg":
        return -b
    if k == "add_scalar":
        return b + _scal(t["c"])
    if k == "exp":
        return qp.exp(b, _scal(t["c"]))
    if k == "evolve":
        return qp.evolve(b, _scal(t["c"]))
    if k == "simplify":
        return qp.simplify(b)
    if k == "map_wires":
        return qp.map_wires(b, {a: c for a, c in t["map"]})
    raise KeyError(k)


def subtrees(tree):
    """All sub-trees, children before parents (post-order) — used to localise a disagreement."""
    out = []

    def rec(t):
        for a in t.get("args", []) if "args" in t else ([t["arg"]] if "arg" in t else []):
            rec(a)
        out.append(t)
    rec(tree)
    return out
