"""Picklable task functions and jitter wrappers for C65 / C31 (spawn-based pools re-import this module in every
worker, so it must stay cheap: stdlib only, no pennylane import at module level).

``J1/J2/J3/JK1/JK2/JV`` wrap a task function of the same *signature shape* (the executors under test inspect
``inspect.signature(fn).parameters``, so the wrapper must not change the arity).  A wrapper sleeps the planned delay of
its task (looked up by the task's first argument), appends worker-side ``start``/``finish`` events (call id, task key,
pid, thread id, ``time.monotonic()``) to a spool file of its own (one file per call, pid and thread: no concurrent
writers), and returns exactly what the wrapped function returns.
"""
from __future__ import annotations

import os
import threading
import time


# ----------------------------------------------------------------------------- plain task functions (the R-MAP side calls them directly)
def sq(x):
    return x * x + 1


def ident(x):
    return x


def affine(a, b):
    return 3 * a + b


def poly3(a, b, c):
    return a * a + 7 * b - c


def tup(a, b):
    return (a, b, a - b)


def with_kw(a, k=0):
    return 5 * a + k


def affk(a, b, k=0, m=1):
    return m * (a - 2 * b) + k


def var(*a):
    return sum(a) + len(a)


class TaskError(ValueError):
    """Raised on purpose by ``boom`` tasks."""


def boom(a, b):
    if b < 0:
        raise TaskError(f"task {a} failed on purpose")
    return a + b


FUNCS = {f.__name__: f for f in (sq, ident, affine, poly3, tup, with_kw, affk, var, boom)}


# ----------------------------------------------------------------------------- jitter wrappers
class _JBase:
    def __init__(self, fname, spool, call_id, delays):
        self.fname = fname
        self.spool = spool
        self.call_id = call_id
        self.delays = delays  # {task key (first argument): seconds}

    def _run(self, key, args, kwargs):
        path = None
        if self.spool:
            path = os.path.join(self.spool, f"{self.call_id}.{os.getpid()}.{threading.get_ident()}.log")
            with open(path, "a") as f:
                f.write(f"S\t{key!r}\t{os.getpid()}\t{threading.get_ident()}\t{time.monotonic():.6f}\n")
        try:
            d = self.delays.get(key, 0.0) if self.delays else 0.0
        except TypeError:  # unhashable key: the executor handed us a whole iterable instead of one element
            d = 0.0
        if d > 0:
            time.sleep(d)
        try:
            return FUNCS[self.fname](*args, **kwargs)
        finally:
            if path:
                with open(path, "a") as f:
                    f.write(f"F\t{key!r}\t{os.getpid()}\t{threading.get_ident()}\t{time.monotonic():.6f}\n")


class J1(_JBase):
    def __call__(self, a):
        return self._run(a, (a,), {})


class J2(_JBase):
    def __call__(self, a, b):
        return self._run(a, (a, b), {})


class J3(_JBase):
    def __call__(self, a, b, c):
        return self._run(a, (a, b, c), {})


class JK1(_JBase):
    def __call__(self, a, k=0):
        return self._run(a, (a,), {"k": k})


class JK2(_JBase):
    def __call__(self, a, b, k=0, m=1):
        return self._run(a, (a, b), {"k": k, "m": m})


class JV(_JBase):
    def __call__(self, *a):
        return self._run(a[0] if a else None, a, {})


WRAPPER_OF = {"sq": J1, "ident": J1, "affine": J2, "poly3": J3, "tup": J2, "with_kw": JK1, "affk": JK2, "var": JV, "boom": J2}


def read_spool(spool, call_id):
    """Parent side: merge the worker logs of one call -> list of (kind, key repr, pid, tid, t)."""
    out = []
    if not spool or not os.path.isdir(spool):
        return out
    pref = f"{call_id}."
    for fn in os.listdir(spool):
        if fn.startswith(pref):
            p = os.path.join(spool, fn)
            try:
                with open(p) as f:
                    for ln in f:
                        k, key, pid, tid, t = ln.rstrip("\n").split("\t")
                        out.append((k, key, int(pid), int(tid), float(t)))
                os.remove(p)
            except (OSError, ValueError):
                pass
    out.sort(key=lambda e: e[4])
    return out


# ----------------------------------------------------------------------------- C31: jittered default.qubit simulation task
class JSim:
    """Wraps ``pennylane.devices.default_qubit._simulate_wrapper(circuit, kwargs)`` (two parameters, so the executors
    unpack the two iterables).  The task key is the circuit's marker angle (first operation's first parameter)."""

    def __init__(self, spool, call_id, delays):
        self.spool, self.call_id, self.delays = spool, call_id, delays

    def __call__(self, circuit, kwargs):
        from pennylane.devices.default_qubit import _simulate_wrapper

        try:
            key = int(round(float(circuit.operations[0].data[0]) * 1e6))
        except Exception:  # noqa: BLE001
            key = -1
        path = os.path.join(self.spool, f"{self.call_id}.{os.getpid()}.{threading.get_ident()}.log")
        with open(path, "a") as f:
            f.write(f"S\t{key!r}\t{os.getpid()}\t{threading.get_ident()}\t{time.monotonic():.6f}\n")
        d = self.delays.get(key, 0.0)
        if d > 0:
            time.sleep(d)
        try:
            return _simulate_wrapper(circuit, kwargs)
        finally:
            with open(path, "a") as f:
                f.write(f"F\t{key!r}\t{os.getpid()}\t{threading.get_ident()}\t{time.monotonic():.6f}\n")
