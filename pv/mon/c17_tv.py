"""Translation-validation helpers shared by C17 / C12 / C19 / C20.

* ``install(ctx, handlers)`` — attach point: the ``Transform.tape_transform`` property (the single place every tape-level
  application of every transform goes through: direct call, nested call inside another transform such as ``qp.compile`` or
  ``match_*``, CompilePipeline, QNode execution).  ``handlers[name](tape_in, args, kwargs, out)`` is called with the real
  output of the real pass right after it returned (post-condition).  Chains with a previously installed property
  (e.g. pv.mon.pure).
* reference semantics of a tape computed with R-SV / R-GATES through pv.ref.bridge: ``unitary``, ``state``,
  ``measure`` (expval / var / probs / density matrix by dense linear algebra on the reference state).

Nothing here calls PennyLane numerics except through ``bridge.op_matrix``'s explicit fallback for untabulated operators
(reported through the ``frac`` value so that callers can count how much of a validation was independent).
"""
from __future__ import annotations

import threading

import numpy as np

from pv.ref import bridge, sv

SKIP_NAMES = ("Barrier", "WireCut", "Snapshot")
PREP_NAMES = ("StatePrep", "AmplitudeEmbedding", "BasisState", "QubitStateVector")


class NoRef(Exception):
    pass


# ----------------------------------------------------------------------------- attach point
_local = threading.local()


def install(ctx, handlers, default=None):
    """Install post-condition handlers on Transform.tape_transform.  Returns ``uninstall``."""
    from pennylane.core.transforms.transform import Transform

    prev_prop = Transform.__dict__["tape_transform"]
    cache = {}

    def make(f, name, qual):
        def wrapped(tape, *args, **kwargs):
            h = handlers.get(qual) or handlers.get(name, default)
            if h is None or not hasattr(tape, "operations") or getattr(_local, "off", 0):
                return f(tape, *args, **kwargs)
            depth = getattr(_local, "depth", 0)
            _local.depth = depth + 1
            try:
                out = f(tape, *args, **kwargs)
            finally:
                _local.depth = depth
            try:
                h(name, tape, args, kwargs, out, depth)
            except Exception as e:  # noqa: BLE001 - a monitor failure is an inconclusive case, never a silent skip
                import traceback
                ctx.inconclusive_case(f"monitor error after {name}: {type(e).__name__}: {e} @ " + "".join(traceback.format_tb(e.__traceback__)[-2:])[-300:])
            return out

        wrapped.__name__ = name
        wrapped.__wrapped__ = f
        wrapped.__doc__ = getattr(f, "__doc__", None)
        wrapped.__module__ = getattr(f, "__module__", None)
        wrapped.__qualname__ = getattr(f, "__qualname__", name)
        for attr in ("custom_qnode_transform", "register"):
            if hasattr(f, attr):
                try:
                    setattr(wrapped, attr, getattr(f, attr))
                except Exception:  # noqa: BLE001
                    pass
        return wrapped

    def getter(self):
        f = prev_prop.fget(self)
        if f is None:
            return None
        raw = self._tape_transform
        name = getattr(raw, "__name__", None) or getattr(f, "__name__", repr(f))
        w = cache.get(id(f))
        if w is None or w.__wrapped__ is not f:
            w = cache[id(f)] = make(f, name, f"{getattr(raw, '__module__', '?')}:{name}")
        return w

    Transform.tape_transform = property(getter, doc=prev_prop.__doc__)

    def uninstall():
        Transform.tape_transform = prev_prop

    return uninstall


class monitors_off:
    """Context manager: run real transforms without triggering the handlers (used when the *harness* needs a transform)."""

    def __enter__(self):
        _local.off = getattr(_local, "off", 0) + 1

    def __exit__(self, *a):
        _local.off -= 1
        return False


class PureProxy:
    """ctx stand-in handed to pv.mon.pure so that M-PURE gives free C18 coverage without turning a C18 observation into a
    verdict of another property: its evaluations / violations are recorded as counters and notes of the host check."""

    def __init__(self, ctx):
        self._ctx = ctx

    def ev(self, monitor, n=1):
        self._ctx.count("ambient." + monitor, n)

    def count(self, key, n=1):
        if key.startswith("pure.applications."):
            return
        self._ctx.count("ambient." + key, n)

    def violation(self, monitor, message, case=None, mech=None, observed=None, expected=None):
        self._ctx.count("ambient.c18_violations")
        self._ctx.note_add("ambient_c18_violations", {"mech": mech, "message": str(message)[:300]})

    def inconclusive_case(self, why):
        self._ctx.count("ambient.pure.inconclusive")


def install_pure(ctx):
    from pv.mon import pure
    return pure.install(PureProxy(ctx))


# ----------------------------------------------------------------------------- reference semantics
def gate_list(ops, fallback=True):
    """[(matrix, wires)] with markers skipped.  Returns (gates, n_independent, n_total).  State preparations raise NoRef."""
    out, nind = [], 0
    for o in ops:
        n = getattr(o, "name", type(o).__name__)
        if n in SKIP_NAMES:
            nind += 1
            continue
        if n in PREP_NAMES:
            raise NoRef(f"state preparation {n}")
        if type(o).__name__ in ("MidMeasureMP", "MidMeasure", "Conditional", "Allocate", "Deallocate", "PauliMeasure"):
            raise NoRef(f"dynamic op {type(o).__name__}")
        try:
            M, ind = bridge.op_matrix(o, fallback)
        except bridge.NoReference as e:
            raise NoRef(str(e)) from e
        M = np.asarray(M)
        nw = len(o.wires)
        if M.shape == (1, 1) and nw > 0:  # GlobalPhase / Identity given wires
            M = M[0, 0] * np.eye(2**nw, dtype=complex)
        if M.shape != (2**nw, 2**nw):
            raise NoRef(f"{n}: matrix shape {M.shape} for {nw} wires")
        nind += bool(ind)
        out.append((M, list(o.wires)))
    return out, nind, len(ops)


def unitary(ops, wire_order, fallback=True):
    g, nind, ntot = gate_list(ops, fallback)
    return sv.unitary(g, list(wire_order)), (nind / ntot if ntot else 1.0)


def prep_vector(op):
    """State vector prepared by a state-preparation op on op.wires (from its data only)."""
    n = op.name
    nw = len(op.wires)
    d = np.asarray(op.data[0])
    if n == "BasisState":
        bits = [int(b) for b in d.reshape(-1)]
        v = np.zeros(2**nw, dtype=complex)
        v[int("".join(str(b) for b in bits), 2) if bits else 0] = 1
        return v
    if d.ndim != 1:
        raise NoRef("batched state preparation")
    v = d.astype(complex)
    if n == "AmplitudeEmbedding":
        hp = getattr(op, "hyperparameters", {})
        if v.size < 2**nw:
            pad = hp.get("pad_with", None)
            if pad is None:
                raise NoRef("AmplitudeEmbedding without padding")
            v = np.concatenate([v, np.full(2**nw - v.size, pad, dtype=complex)])
        if hp.get("normalize", False):
            v = v / np.linalg.norm(v)
    if v.size != 2**nw:
        raise NoRef("state preparation size")
    return v


def state(ops, wire_order, fallback=True, init=None):
    """Final state of the operator list applied to |0..0> (or ``init``).  State preparations are accepted on wires that
    no earlier gate touched (they then map |0..0> on their wires to the vector)."""
    wire_order = list(wire_order)
    n = len(wire_order)
    T = sv.zero_state(n) if init is None else np.asarray(init, dtype=complex).reshape([2] * n)
    touched = set()
    nind = ntot = 0
    for o in ops:
        name = getattr(o, "name", type(o).__name__)
        if name in PREP_NAMES:
            if touched & set(o.wires) or init is not None:
                raise NoRef("state preparation on used wires")
            v = prep_vector(o)
            M = np.zeros((v.size, v.size), dtype=complex)
            M[:, 0] = v
            T = sv.apply_tensor(T, M, [wire_order.index(w) for w in o.wires])
            touched |= set(o.wires)
            nind += 1
            ntot += 1
            continue
        g, a, b = gate_list([o], fallback)
        nind += a
        ntot += b
        for M, w in g:
            T = sv.apply_tensor(T, M, [wire_order.index(x) for x in w])
            touched |= set(w)
    return T.reshape(-1), (nind / ntot if ntot else 1.0)


def obs_matrix(ob):
    """(dense matrix, wires) of an observable, from its data / expression structure."""
    name = getattr(ob, "name", type(ob).__name__)
    ws = list(ob.wires)
    nw = len(ws)
    if name == "Hermitian":
        return np.asarray(ob.data[0], dtype=complex), ws
    if name == "Projector":
        d = np.asarray(ob.data[0])
        if d.size == nw and set(np.unique(d.real).tolist()) <= {0, 1} and not (nw == 1 and d.size == 2):
            v = np.zeros(2**nw, dtype=complex)
            v[int("".join(str(int(b)) for b in d.real), 2)] = 1
        elif d.size == 2**nw:
            v = d.astype(complex)
        else:
            raise NoRef("projector data")
        return np.outer(v, v.conj()), ws
    if name in ("LinearCombination", "Hamiltonian"):
        coeffs, terms = ob.terms()
        M = np.zeros((2**nw, 2**nw), dtype=complex)
        for c, t in zip(coeffs, terms):
            Mt, wt = obs_matrix(t)
            M = M + complex(np.asarray(c)) * (sv.embed(Mt, wt, ws) if wt else Mt.reshape(()) * np.eye(2**nw))
        return M, ws
    if name in ("Sum", "Prod"):
        M = np.zeros((2**nw, 2**nw), dtype=complex) if name == "Sum" else np.eye(2**nw, dtype=complex)
        for t in ob.operands:
            Mt, wt = obs_matrix(t)
            E = sv.embed(Mt, wt, ws) if wt else complex(Mt.reshape(-1)[0]) * np.eye(2**nw)
            M = M + E if name == "Sum" else M @ E
        return M, ws
    if name == "SProd":
        Mt, wt = obs_matrix(ob.base)
        return complex(np.asarray(ob.scalar)) * sv.embed(Mt, wt, ws), ws
    try:
        M, _ = bridge.op_matrix(ob)
    except bridge.NoReference as e:
        raise NoRef(str(e)) from e
    M = np.asarray(M)
    if M.shape == (1, 1) and nw:
        M = M[0, 0] * np.eye(2**nw, dtype=complex)
    return M, ws


def measure(psi, wire_order, mp):
    """Reference value of one measurement process on the pure state psi (analytic).  Raises NoRef for kinds that have no
    deterministic analytic value (sample/counts/state...)."""
    t = type(mp).__name__
    wire_order = list(wire_order)
    if getattr(mp, "mv", None) is not None:
        raise NoRef("mid-circuit measurement value")
    if t in ("ExpectationMP", "VarianceMP"):
        ob = mp.obs
        if ob is None:
            ev = getattr(mp, "_eigvals", None)
            if ev is None:
                raise NoRef("no observable")
            # measurement given by eigenvalues on wires: sum_i p_i lambda_i in the computational basis of mp.wires
            lam = np.asarray(ev, dtype=float).reshape(-1)
            p = sv.probs(psi, wire_order, list(mp.wires))
            if lam.size != p.size:
                raise NoRef("eigvals size")
            e = float(p @ lam)
            return e if t == "ExpectationMP" else float(p @ lam**2 - e * e)
        M, ws = obs_matrix(ob)
        if not ws:
            e = complex(M.reshape(-1)[0])
            return float(e.real) if t == "ExpectationMP" else 0.0
        e = sv.expval(psi, M, ws, wire_order)
        if t == "ExpectationMP":
            return float(e.real)
        e2 = sv.expval(psi, M @ M, ws, wire_order)
        return float((e2 - e * e).real)
    if t == "ProbabilityMP":
        if mp.obs is not None:
            raise NoRef("probs of an observable")
        ws = list(mp.wires) or wire_order
        return sv.probs(psi, wire_order, ws)
    if t == "DensityMatrixMP":
        return sv.reduced_dm(sv.density(psi), wire_order, list(mp.wires))
    if t == "PurityMP":
        r = sv.reduced_dm(sv.density(psi), wire_order, list(mp.wires))
        return float(np.trace(r @ r).real)
    raise NoRef(f"measurement {t}")


def results_close(a, b, tol):
    a = np.asarray(a)
    b = np.asarray(b)
    if a.shape != b.shape:
        return False, float("inf")
    err = float(np.max(np.abs(a - b))) if a.size else 0.0
    return (err <= tol * max(1.0, float(np.max(np.abs(b))) if b.size else 1.0)), err


def udist(A, B):
    """Normalised distance min_phi ||A - e^{i phi} B||_F / sqrt(dim)."""
    return sv.phase_dist(A, B) / np.sqrt(max(1, A.shape[0]))


def udist_exact(A, B):
    return sv.dist(A, B) / np.sqrt(max(1, A.shape[0]))


def all_wires(*tapes_or_ops):
    seen = []
    for t in tapes_or_ops:
        ws = t.wires if hasattr(t, "wires") and not isinstance(t, (list, tuple)) else [w for o in t for w in o.wires]
        for w in ws:
            if w not in seen:
                seen.append(w)
    return seen
