"""M-PURE — ambient monitor for C18: every tape-level application of every transform goes through the
``Transform.tape_transform`` property; we replace that property so that the raw function is wrapped with a
before/after deep structural fingerprint of the *input* tape (computed by the harness from the live objects; the
repo's cached ``tape.hash`` is recorded before and recomputed from scratch after, never trusted when stale).

Events: one evaluation per application; a violation when the input tape differs after the call (or after the
post-processing function ran, when ``wrap_post`` is on).
"""
from __future__ import annotations

import threading

from pv.gen.circ import describe, tape_struct

_state = threading.local()


def _fresh_hash(qp, tape):
    try:
        return qp.tape.QuantumScript(list(tape.operations), list(tape.measurements), shots=tape.shots,
                                     trainable_params=list(tape.trainable_params)).hash
    except Exception:  # noqa: BLE001
        return None


def _diff(a, b):
    names = ("operations", "measurements", "trainable_params", "shots")
    out = []
    for n, x, y in zip(names, a, b):
        if x != y:
            if isinstance(x, tuple) and isinstance(y, tuple) and n in ("operations", "measurements"):
                if len(x) != len(y):
                    out.append(f"{n}: length {len(x)} -> {len(y)}")
                else:
                    k = next(i for i, (p, q) in enumerate(zip(x, y)) if p != q)
                    out.append(f"{n}[{k}]: {str(x[k])[:120]} -> {str(y[k])[:120]}")
            else:
                out.append(f"{n}: {str(x)[:100]} -> {str(y)[:100]}")
    return "; ".join(out)


def install(ctx, wrap_post=False, monitor="pure.input_unchanged", classify=None):
    """Install M-PURE.  Returns an ``uninstall`` callable.  ``classify(name, diff, tape)`` may return a mechanism tag."""
    import pennylane as qp
    from pennylane.core.transforms.transform import Transform

    orig_prop = Transform.__dict__["tape_transform"]
    cache = {}

    def observe(name, tape, before, hash_before, when):
        after = tape_struct(tape)
        ctx.ev(monitor)
        ctx.count(f"pure.applications.{name}")
        if after != before:
            d = _diff(before, after)
            mech = classify(name, d, tape) if classify else f"mutates-input:{name}"
            ctx.violation(monitor, f"transform '{name}' modified its input tape ({when}): {d}",
                          case={"transform": name, "tape_after": describe(tape)}, mech=mech)
            return False
        if hash_before is not None:
            h = _fresh_hash(qp, tape)
            if h is not None and h != hash_before:
                ctx.violation(monitor, f"transform '{name}' changed the hash of its input tape ({when})",
                              case={"transform": name, "tape_after": describe(tape)}, mech=f"hash-changed:{name}")
                return False
        return True

    def make(f):
        name = getattr(f, "__name__", repr(f))

        def wrapped(tape, *args, **kwargs):
            if not hasattr(tape, "operations") or not hasattr(tape, "measurements"):
                return f(tape, *args, **kwargs)
            try:
                before = tape_struct(tape)
                hash_before = _fresh_hash(qp, tape)
            except Exception:  # noqa: BLE001 - cannot fingerprint (abstract/traced data): do not judge
                ctx.count("pure.unfingerprintable")
                return f(tape, *args, **kwargs)
            out = f(tape, *args, **kwargs)
            try:
                ok = observe(name, tape, before, hash_before, "after the transform returned")
            except Exception as e:  # noqa: BLE001
                ctx.count("pure.monitor_error")
                ctx.inconclusive_case(f"M-PURE could not re-fingerprint after {name}: {type(e).__name__}: {e}")
                return out
            if wrap_post and ok and isinstance(out, tuple) and len(out) == 2 and callable(out[1]):
                tapes, fn = out

                def post(results, _fn=fn):
                    r = _fn(results)
                    try:
                        ctx.count("pure.post_observed")
                        observe(name, tape, before, hash_before, "after post-processing ran")
                    except Exception:  # noqa: BLE001
                        ctx.count("pure.monitor_error")
                    return r

                return tapes, post
            return out

        wrapped.__name__ = name
        wrapped.__wrapped__ = f
        wrapped.__doc__ = getattr(f, "__doc__", None)
        wrapped.__module__ = getattr(f, "__module__", None)
        wrapped.__qualname__ = getattr(f, "__qualname__", name)
        for attr in ("custom_qnode_transform", "register"):
            if hasattr(f, attr):
                setattr(wrapped, attr, getattr(f, attr))
        return wrapped

    def getter(self):
        f = self._tape_transform
        if f is None:
            return None
        w = cache.get(id(f))
        if w is None or w.__wrapped__ is not f:
            w = cache[id(f)] = make(f)
        return w

    Transform.tape_transform = property(getter, doc=orig_prop.__doc__)

    def uninstall():
        Transform.tape_transform = orig_prop

    return uninstall
