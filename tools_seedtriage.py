"""Developer tool: run one check against a seeded (patched scratch) copy and print every mechanism it emitted with counts,
marking which are open known findings -- shows whether a missed seeded change was unobserved or mis-attributed.

    tools_seedtriage.py <seeded-name> [--tier quick] [--seed 0] [--id Cxx]
"""
import argparse, glob, json, os, shutil, subprocess, sys
import tools_seeded as TS

ROOT = os.path.dirname(os.path.abspath(__file__))
ap = argparse.ArgumentParser(); ap.add_argument("name"); ap.add_argument("--tier", default="quick"); ap.add_argument("--seed", type=int, default=0); ap.add_argument("--id")
a = ap.parse_args()
meta = json.load(open(os.path.join(TS.SEEDED, a.name, "meta.json")))
pid = a.id or meta["property"]
d = TS.scratch(a.name)
try:
    shutil.rmtree(os.path.join(ROOT, "evidence", ".work", pid), ignore_errors=True)
    p = subprocess.run([os.path.join(ROOT, "check"), pid, "--tier", a.tier, "--seed", str(a.seed)], env=dict(os.environ, PV_REPO=d, PV_KEEP_WORK="1"), capture_output=True, text=True, cwd=ROOT)
finally:
    shutil.rmtree(d, ignore_errors=True)
print([l for l in p.stdout.splitlines() if l.startswith("[")][:1], "rc", p.returncode)
known = {f["mechanism"] for f in json.load(open(os.path.join(ROOT, "known_findings.json")))["findings"] if f["property"] == pid and f["status"] == "open"}
seen = {}
for f in glob.glob(os.path.join(ROOT, "evidence", ".work", pid, "run-*", "*.json")):
    try: dd = json.load(open(f))
    except Exception: continue
    for v in dd.get("violations", []):
        k = v.get("mech")
        e = seen.setdefault(k, [0, v["monitor"], v["message"][:300]])
        e[0] += 1
for k, (n, mon, msg) in sorted(seen.items(), key=lambda kv: -kv[1][0]):
    print(("KNOWN " if k in known else "NEW   "), n, k, "|", mon, "|", msg)
shutil.rmtree(os.path.join(ROOT, "evidence", ".work", pid), ignore_errors=True)
for f in glob.glob(os.path.join(ROOT, "replay", pid + "-*")): os.remove(f)
