"""Developer tool for seeded (deliberately breaking) changes kept under /verif/seeded/<name>/.

    tools_seeded.py import <worktree> <name>        copy patch.diff/demo.py/meta.json from <worktree>/seeded_out
    tools_seeded.py verify <name>                    demo passes on /repo, fails on the patched scratch copy
    tools_seeded.py run <name> [--tier quick] [--ids C02 ...]   run checks against a patched scratch copy (PV_REPO)
    tools_seeded.py runall [--tier quick]            every seeded change against the check of its own property

The scratch copy lives under /tmp/pv_seed/<name> only for the duration of the command (never needed by a registered
check).  The official procedure (git -C /repo apply; run; git -C /repo checkout -- .) gives the same result; the
scratch copy is used so that /repo is never disturbed while other work is running against it.
"""
import argparse
import json
import os
import shutil
import subprocess
import sys

ROOT = os.path.dirname(os.path.abspath(__file__))
SEEDED = os.path.join(ROOT, "seeded")
PY = "/venv/bin/python"


def scratch(name):
    d = os.path.join("/tmp/pv_seed", name)
    shutil.rmtree(d, ignore_errors=True)
    os.makedirs(d)
    shutil.copytree("/repo/pennylane", os.path.join(d, "pennylane"), ignore=shutil.ignore_patterns("__pycache__"))
    p = subprocess.run(["git", "apply", "--unsafe-paths", f"--directory={d}", os.path.join(SEEDED, name, "patch.diff")], cwd=d, capture_output=True, text=True)
    if p.returncode != 0:
        # fall back to patch(1)
        p = subprocess.run(["patch", "-p1", "-i", os.path.join(SEEDED, name, "patch.diff")], cwd=d, capture_output=True, text=True)
        if p.returncode != 0:
            raise SystemExit(f"cannot apply patch for {name}: {p.stdout} {p.stderr}")
    return d


def cmd_import(wt, name):
    src = os.path.join(wt, "seeded_out")
    dst = os.path.join(SEEDED, name)
    os.makedirs(dst, exist_ok=True)
    for f in ("patch.diff", "demo.py", "meta.json"):
        shutil.copy(os.path.join(src, f), os.path.join(dst, f))
    print("imported", dst)


def cmd_verify(name):
    demo = os.path.join(SEEDED, name, "demo.py")
    base = subprocess.run([PY, demo], env=dict(os.environ, PYTHONPATH="/repo"), capture_output=True, text=True, timeout=1800)
    d = scratch(name)
    try:
        mut = subprocess.run([PY, demo], env=dict(os.environ, PYTHONPATH=d), capture_output=True, text=True, timeout=1800)
    finally:
        shutil.rmtree(d, ignore_errors=True)
    print(f"{name}: demo on baseline rc={base.returncode} ({base.stdout.strip().splitlines()[-1][:100] if base.stdout.strip() else ''}); "
          f"on patched rc={mut.returncode} ({mut.stdout.strip().splitlines()[0][:100] if mut.stdout.strip() else ''})")
    return base.returncode == 0 and mut.returncode != 0


def cmd_run(name, tier, ids, seed=0):
    meta = json.load(open(os.path.join(SEEDED, name, "meta.json")))
    ids = ids or [meta["property"]]
    d = scratch(name)
    out = {}
    try:
        for pid in ids:
            env = dict(os.environ, PV_REPO=d)
            p = subprocess.run([os.path.join(ROOT, "check"), pid, "--tier", tier, "--seed", str(seed)], env=env, capture_output=True, text=True, cwd=ROOT)
            viol = [l for l in p.stdout.splitlines() if l.startswith("VIOLATION")]
            out[pid] = (p.returncode, viol[:2])
            print(f"{name}: {pid} {tier} rc={p.returncode} " + (viol[0][:220] if viol else p.stdout.strip().splitlines()[-1][:200] if p.stdout.strip() else ""))
            for f in os.listdir(os.path.join(ROOT, "replay")) if os.path.isdir(os.path.join(ROOT, "replay")) else []:
                if f.startswith(pid + "-"):
                    os.remove(os.path.join(ROOT, "replay", f))
    finally:
        shutil.rmtree(d, ignore_errors=True)
    # record which check/tier detected the change (read by tools_design_tables.py)
    rp = os.path.join(SEEDED, name, "result.json")
    res = json.load(open(rp)) if os.path.exists(rp) else {"detected": {}, "runs": []}
    for pid, (rc, viol) in out.items():
        res["runs"].append({"check": pid, "tier": tier, "seed": seed, "rc": rc, "first_violation": viol[0][:300] if viol else None})
        if rc == 1 and viol:
            prev = res["detected"].get(pid)
            res["detected"][pid] = "quick" if (tier == "quick" or prev == "quick") else tier
        elif pid not in res["detected"]:
            res.setdefault("missed", {})[f"{pid}:{tier}"] = rc
    json.dump(res, open(rp, "w"), indent=1)
    return out


def main():
    ap = argparse.ArgumentParser()
    ap.add_argument("cmd")
    ap.add_argument("args", nargs="*")
    ap.add_argument("--tier", default="quick")
    ap.add_argument("--ids", nargs="*")
    ap.add_argument("--seed", type=int, default=0)
    a = ap.parse_args()
    if a.cmd == "import":
        cmd_import(*a.args)
    elif a.cmd == "verify":
        sys.exit(0 if cmd_verify(a.args[0]) else 1)
    elif a.cmd == "run":
        cmd_run(a.args[0], a.tier, a.ids, a.seed)
    elif a.cmd == "runall":
        for name in sorted(os.listdir(SEEDED)):
            if os.path.exists(os.path.join(SEEDED, name, "patch.diff")):
                cmd_run(name, a.tier, a.ids, a.seed)


if __name__ == "__main__":
    main()
