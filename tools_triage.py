"""Developer tool: run a check and list every distinct violation mechanism it emitted that is NOT an open known finding.

    /venv/bin/python tools_triage.py C11 [--tier quick] [--seed 0]

Prints one JSON line per (mech): {"property","mech","monitor","n","message"} — used when triaging builder reports.
"""
import argparse
import glob
import json
import os
import subprocess
import sys

ROOT = os.path.dirname(os.path.abspath(__file__))


def main():
    ap = argparse.ArgumentParser()
    ap.add_argument("pid")
    ap.add_argument("--tier", default="quick")
    ap.add_argument("--seed", type=int, default=0)
    ap.add_argument("--no-run", action="store_true", help="only read the work dirs a previous PV_KEEP_WORK=1 run left behind")
    a = ap.parse_args()
    pid = a.pid.upper()
    env = dict(os.environ, PV_KEEP_WORK="1", PV_JOBS=os.environ.get("PV_JOBS", "4"))
    if a.no_run:
        p = argparse.Namespace(returncode=None)
    else:
        p = subprocess.run([os.path.join(ROOT, "check"), pid, "--tier", a.tier, "--seed", str(a.seed)], env=env, capture_output=True, text=True, cwd=ROOT)
        head = [l for l in p.stdout.splitlines() if l.startswith("[")][:1]
        print("#", head[0] if head else p.stdout[-300:], file=sys.stderr)
    known = {f["mechanism"] for f in json.load(open(os.path.join(ROOT, "known_findings.json")))["findings"] if f["property"] == pid and f["status"] == "open"}
    seen = {}
    for f in glob.glob(os.path.join(ROOT, "evidence", ".work", pid, "run-*", "*.json")):
        try:
            d = json.load(open(f))
        except Exception:  # noqa: BLE001
            continue
        for v in d.get("violations", []):
            k = v.get("mech") or ("?" + v["message"][:60])
            if k in known:
                continue
            e = seen.setdefault(k, {"property": pid, "mech": k, "monitor": v["monitor"], "n": 0, "message": v["message"][:420]})
            e["n"] += 1
        for k, n in d.get("counters", {}).items():
            if k.startswith("violations:") or k.startswith("violations."):
                pass
    for e in seen.values():
        print(json.dumps(e))
    if not a.no_run:
        subprocess.run(["rm", "-rf", os.path.join(ROOT, "evidence", ".work", pid)])
        for f in glob.glob(os.path.join(ROOT, "replay", pid + "-*")):
            os.remove(f)
    print(f"# rc={p.returncode} unmatched_mechs={len(seen)}", file=sys.stderr)


if __name__ == "__main__":
    main()
