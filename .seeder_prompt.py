import json, sys
pid = sys.argv[1]
p = next(json.loads(l) for l in open('/verif/properties.jsonl') if json.loads(l)['id'] == pid)
wt = f"/tmp/wt/{pid}"
print(f"""You are testing how well a (hidden) verification system detects regressions in the PennyLane quantum-computing library. Your job: craft ONE realistic code change to PennyLane that BREAKS the property below while the package still imports and its existing pinned test suite still passes — the kind of slip a maintainer could plausibly make in a refactor or optimisation — plus a small demonstration program that fails with your change and passes without it.

PROPERTY {pid} — {p['title']}
Statement: {p['statement']}
Quantified over: {p['quantifier']['text']}

Your scratch git worktree of the repository is {wt} (a detached checkout of the current baseline; work ONLY there; never touch /repo and never read or write anything under /verif). Interpreter: /venv/bin/python (3.12); there is no network. To import YOUR copy run from the worktree root with PYTHONPATH set, e.g. `cd {wt} && PYTHONPATH={wt} /venv/bin/python -c "import pennylane; print(pennylane.__file__)"` must print a path under {wt}.

Requirements for the change:
1. It must need something SPECIFIC to manifest — an unusual but valid input (special angle, odd wire labels/order, a batch of size 1, a particular operator class or parameter regime), a multi-step sequence of operations (e.g. transform then reuse, second call, a cache hit), a particular interleaving/schedule, or two cooperating sites that each look fine alone. NOT something ordinary use exposes at once (do not break the common path; typical quick-start examples must still work).
2. It must be small (ideally 1–15 changed lines), look plausible, keep the package importable, and keep the existing pinned tests passing. The pinned suite is the documentation doctest suite: run `cd {wt} && PYTHONPATH={wt} /venv/bin/python -m pytest -q -p no:cacheprovider --timeout=900 --continue-on-collection-errors doc 2>&1 | tail -5` BEFORE and AFTER your change and confirm the set of passing tests is unchanged (many doc tests fail at baseline for unrelated reasons — compare the pass/fail counts and names, they must be identical). It takes ~3–5 minutes.
3. It must genuinely violate the property as stated (not merely change an undocumented detail).
4. Do not edit tests or docs; change only files under {wt}/pennylane.

Deliverables — write all three into {wt}/seeded_out/ (create it):
- patch.diff: output of `git -C {wt} diff -- pennylane` (the change only)
- demo.py: a standalone script (run as `PYTHONPATH=<repo root> /venv/bin/python demo.py`) that exits 0 and prints PASS on the unmodified baseline, and exits 1 and prints FAIL (with the observed vs expected values) when the change is applied. Verify both by saving the diff and using `git apply -R seeded_out/patch.diff` / `git apply seeded_out/patch.diff` in YOUR worktree. NEVER use `git stash` (the stash is shared between all worktrees of the repository and other people are working in sibling worktrees).
- meta.json: {{"property": "{pid}", "summary": "<one sentence: what was changed>", "files": ["pennylane/..."], "needs_to_manifest": "<the specific input / sequence / schedule needed>", "why_tests_pass": "<why the pinned suite cannot see it>", "ran": ["<commands you ran and their outcomes, incl. doctest pass counts before/after and demo results before/after>"]}}

Leave the change APPLIED in the worktree when you finish. Reply with a short summary: what you changed (file:line), what it needs to manifest, demo outcome before/after, doctest counts before/after. Be honest — if you could not make the tests pass or the demo discriminate, say so.""")
